"""C01 -- fitters with a HISTORY and non-default memory layouts (direct oracles; fixed, enumerated grids).

history_oracle: for every fitter construction (with / without axes) x output_dtype x data dtype and every entry
of a fixed table of REJECTED calls (raised up front by validation, raised deep inside the inner fit of an optimizer,
raised after partial work) the history  [rejected call, then every call of a fixed list of successful calls]  is run
on ONE object; every returned pair must be well formed (shape, dtype = the constructor's output_dtype or the data's,
per-point keys, finite) and the object's configuration attributes must be what the constructor set, after every call.
One more history per fitter runs ALL rejected calls first.  (Model: coq/C01/FitterState.v, C01_config_invariant /
C01_dtype_after_history; source tie: tools/gen_c01_config.py.)

layout_oracle: data given as Fortran-ordered / transposed / negative-stride / strided views must give a well-formed
pair with the same values as the C-contiguous copy."""
import random
import warnings

import numpy as np

from . import methods as M

CONFIG_ATTRS = ('_dtype', '_check_finite', '_banded_solver', '_pentapy_solver', '_sort_order', '_inverted_order',
                'x_domain', 'z_domain')
OUT_DTYPES = ['float32', 'int64', 'float16', None]
DATA_DTYPES = ['float64', 'float32']

# (key, method, kwargs, data variant); data variants: 'y', 'nan' (one NaN, check_finite=True), 'stack'
REJECTED_1D = [
    ('asls:p=2', 'asls', {'p': 2}, 'y'),
    ('asls:lam=-1', 'asls', {'lam': -1}, 'y'),
    ('modpoly:poly_order=-1', 'modpoly', {'poly_order': -1}, 'y'),
    ('mor:half_window=-1', 'mor', {'half_window': -1}, 'y'),
    ('asls:weights-length', 'asls', {'weights': 'short'}, 'y'),
    ('asls:nan-data', 'asls', {}, 'nan'),
    ('pspline_asls:num_knots=1', 'pspline_asls', {'num_knots': 1}, 'y'),
    # raised deep inside the inner fits of the optimizers
    ('adaptive_minmax:estimation_poly_order=-1', 'adaptive_minmax', {'estimation_poly_order': -1}, 'y'),
    ('adaptive_minmax:imodpoly:num_std=-1', 'adaptive_minmax', {'method': 'imodpoly', 'method_kwargs': {'num_std': -1}}, 'y'),
    ('adaptive_minmax:unknown-kwarg', 'adaptive_minmax', {'method_kwargs': {'bogus': 1}}, 'y'),
    ('adaptive_minmax:poly_order=-1', 'adaptive_minmax', {'poly_order': -1}, 'y'),
    ('collab_pls:inner-lam=-1', 'collab_pls', {'method_kwargs': {'lam': -1}}, 'stack'),
    ('collab_pls:inner-p=2', 'collab_pls', {'method_kwargs': {'p': 2}}, 'stack'),
    ('collab_pls:unknown-method', 'collab_pls', {'method': 'bogus'}, 'stack'),
    ('optimize_extended_range:inner-p=2', 'optimize_extended_range', {'method_kwargs': {'p': 2}}, 'y'),
    ('optimize_extended_range:aspls-alpha-length', 'optimize_extended_range', {'method': 'aspls', 'method_kwargs': {'alpha': 'short'}}, 'y'),
    ('custom_bc:inner-lam=-1', 'custom_bc', {'method_kwargs': {'lam': -1}}, 'y'),
    ('custom_bc:region-too-long', 'custom_bc', {'regions': ((0, 5000),)}, 'y'),
    ('custom_bc:lam=-1-after-inner-fit', 'custom_bc', {'lam': -1}, 'y'),      # raises after the inner fit returned
    ('interp_pts:no-points', 'interp_pts', {'baseline_points': ()}, 'y'),
]
SUCCESS_1D = ['asls', 'modpoly', 'snip', 'mor', 'pspline_asls', 'adaptive_minmax', 'collab_pls', 'custom_bc', 'std_distribution']

REJECTED_2D = [
    ('asls:p=2', 'asls', {'p': 2}, 'y'),
    ('asls:lam=-1', 'asls', {'lam': -1}, 'y'),
    ('modpoly:poly_order=-1', 'modpoly', {'poly_order': -1}, 'y'),
    ('mor:half_window=-1', 'mor', {'half_window': -1}, 'y'),
    ('asls:weights-shape', 'asls', {'weights': 'short'}, 'y'),
    ('asls:nan-data', 'asls', {}, 'nan'),
    ('pspline_asls:num_knots=1', 'pspline_asls', {'num_knots': 1}, 'y'),
    ('adaptive_minmax:estimation_poly_order=-1', 'adaptive_minmax', {'estimation_poly_order': -1}, 'y'),
    ('adaptive_minmax:imodpoly:num_std=-1', 'adaptive_minmax', {'method': 'imodpoly', 'method_kwargs': {'num_std': -1}}, 'y'),
    ('adaptive_minmax:unknown-kwarg', 'adaptive_minmax', {'method_kwargs': {'bogus': 1}}, 'y'),
    ('collab_pls:inner-lam=-1', 'collab_pls', {'method_kwargs': {'lam': -1}}, 'stack'),
    ('collab_pls:unknown-method', 'collab_pls', {'method': 'bogus'}, 'stack'),
    ('individual_axes:second-axis-lam=-1', 'individual_axes', {'method_kwargs': [{'lam': 1e2}, {'lam': -1}]}, 'y'),
    ('individual_axes:columns-first-second-axis-p=2', 'individual_axes', {'axes': (1, 0), 'method_kwargs': [{'lam': 1e2}, {'lam': 1e2, 'p': 2}]}, 'y'),
    ('individual_axes:unknown-method', 'individual_axes', {'method': 'bogus'}, 'y'),
    ('individual_axes:same-axis-twice', 'individual_axes', {'axes': (0, 0)}, 'y'),
]
SUCCESS_2D = ['asls', 'modpoly', 'mor', 'pspline_asls', 'adaptive_minmax', 'collab_pls', 'individual_axes', 'noise_median']


def make_data(seed, two_d, data_dtype):
    rng = np.random.default_rng([seed, 505, int(two_d)])
    if two_d:
        x, z, y = M.make_z2d(rng, 12, 11)
        return x, z, y.astype(data_dtype)
    x = M.make_x(random.Random(seed + 505), 40)
    return x, None, M.make_y(rng, x).astype(data_dtype)


def make_fitter(two_d, with_axes, out, x, z):
    from pybaselines import Baseline, Baseline2D
    kw = {} if out is None else {'output_dtype': np.dtype(out)}
    if two_d:
        return Baseline2D(x, z, **kw) if with_axes else Baseline2D(**kw)
    return Baseline(x, **kw) if with_axes else Baseline(**kw)


def snapshot(fit):
    d = vars(fit)
    return {a: d[a] for a in CONFIG_ATTRS if a in d}


def same_value(a, b):
    if isinstance(a, tuple) or isinstance(b, tuple):
        return (isinstance(a, tuple) and isinstance(b, tuple) and len(a) == len(b)
                and all(same_value(u, v) for u, v in zip(a, b)))
    if a is Ellipsis or b is Ellipsis or a is None or b is None:
        return a is b
    if isinstance(a, np.ndarray) or isinstance(b, np.ndarray):
        return isinstance(a, np.ndarray) and isinstance(b, np.ndarray) and a.dtype == b.dtype and np.array_equal(a, b)
    return type(a) is type(b) and a == b


def rejected_args(kwargs, variant, y, two_d):
    kw = {}
    for k, v in kwargs.items():
        if isinstance(v, str) and v == 'short':
            v = np.ones((3, 3) if two_d and k == 'weights' else 3)
        elif isinstance(v, dict):
            v = {kk: (np.ones(3) if isinstance(vv, str) and vv == 'short' else vv) for kk, vv in v.items()}
        kw[k] = v
    if variant == 'nan':
        data = y.astype(float).copy()
        data[(1, 2) if two_d else 3] = np.nan
        data = data.astype(y.dtype)
    elif variant == 'stack':
        data = np.array([y, y * 1.1 + 1])
    else:
        data = y
    return data, kw


class _Keyed:
    """check_output reports through ctx.fail with keys wellformed:<name>:<dim>:<what>; re-key them per history"""
    def __init__(self, ctx, prefix):
        self.ctx, self.prefix = ctx, prefix

    def fail(self, key, what, case):
        self.ctx.fail(f'{self.prefix}:{":".join(key.split(":")[3:])}', what, case)


def run_history(ctx, two_d, with_axes, out, data_dtype, history, seed, report=None):
    """Runs the calls of `history` ([{'call': key or method name, 'rejected': bool}]) on ONE fresh fitter and checks
    every returned pair and the configuration after every call.  Returns the number of checked returned pairs."""
    from . import c01
    dim = '2d' if two_d else '1d'
    x, z, y = make_data(seed, two_d, data_dtype)
    table = {r[0]: r for r in (REJECTED_2D if two_d else REJECTED_1D)}
    fit = make_fitter(two_d, with_axes, out, x, z)
    before = snapshot(fit)
    done = []
    checked = 0
    last_rejected = 'none'
    for step in history:
        done.append(step)
        case = {'kind': 'history', 'two_d': two_d, 'with_axes': with_axes, 'output_dtype': out, 'data_dtype': data_dtype,
                'ctor': f'{"Baseline2D" if two_d else "Baseline"}({"x, z" if two_d and with_axes else "x" if with_axes else ""}'
                        f'{", " if with_axes and out else ""}{"output_dtype=" + out if out else ""})',
                'history': list(done), 'seed': seed}
        name = step['call']
        if step['rejected']:
            _, meth, kwargs, variant = table[name]
            data, kw = rejected_args(kwargs, variant, y, two_d)
            try:
                getattr(fit, meth)(data, **kw)
                raised = False
            except Exception:  # noqa  -- the expected outcome
                raised = True
            last_rejected = name
            ctx.case(('history-rejected', dim, with_axes, out, data_dtype, name), nontrivial=raised,
                     kind=f'history:{dim}:rejected' if raised else f'history:{dim}:not-rejected')
            label = name
        else:
            try:
                b, p = (M.run_2d(name, x, z, y, fitter=fit) if two_d else M.run_1d(name, x, y, fitter=fit))
            except Exception as exc:  # noqa  -- a raise is allowed by the property
                ctx.case(('history-raise', dim, with_axes, out, data_dtype, last_rejected, name), nontrivial=False,
                         kind=f'history:{dim}:raised:{type(exc).__name__}')
                b = None
            if b is not None:
                checked += 1
                ctx.case(('history', dim, with_axes, out, data_dtype, tuple(s['call'] for s in done)), nontrivial=True, kind=f'history:{dim}')
                yref = (np.array([y, y * 1.1 + 1]) if two_d else np.vstack([y, y * 1.1 + 1])) if name == 'collab_pls' else y
                c01.check_output(_Keyed(ctx, f'history:{last_rejected}:{name}:{dim}'), name, two_d, np.asarray(yref), out, b, p, case)
            label = name
        after = snapshot(fit)
        for a in sorted(set(before) | set(after)):
            if a not in before or a not in after or not same_value(before[a], after[a]):
                ctx.fail(f'history:config-changed:{a}:{label}:{dim}',
                         f'{case["ctor"]}: after the {"rejected" if step["rejected"] else "returning"} call {label} the configuration attribute '
                         f'{a} is {after.get(a, "<deleted>")!r}, the constructor set {before.get(a, "<absent>")!r}', case)
                before = after          # report each change once
    return checked


def histories(two_d):
    rej = REJECTED_2D if two_d else REJECTED_1D
    suc = SUCCESS_2D if two_d else SUCCESS_1D
    tail = [{'call': s, 'rejected': False} for s in suc]
    out = [[{'call': r[0], 'rejected': True}] + tail for r in rej]
    out.append([{'call': r[0], 'rejected': True} for r in rej] + tail)        # every rejected call, then the successful ones
    return out


def history_oracle(ctx):
    count = 0
    ctx.rule += ('; fitter histories (fixed grid): Baseline / Baseline2D with and without axes x output_dtype {float32, int64, float16, None} '
                 'x data float64 / float32 (quick: every output_dtype with and without axes, data dtype alternating), each of the 20 / 16 '
                 'tabulated rejected calls (validation up front; deep inside adaptive_minmax, collab_pls, optimize_extended_range, custom_bc, '
                 'individual_axes; after partial work) followed by 9 / 8 successful methods on the SAME object, plus all rejected calls first; '
                 'layouts: Fortran / transposed / negative-stride / strided data for 8 + 8 methods')
    ctx.trusted.append('fitter histories: the translator obligation GenC01Config treats `name = <call>(...)` as constructing a new object and '
                       'does not see in-place mutation of a configuration array through method calls; method bodies are not translated into '
                       'scripts (the model quantifies over all scripts without configuration stores)')
    with warnings.catch_warnings():
        warnings.simplefilter('ignore')
        for two_d in (False, True):
            combos = [(w, o, d) for w in (True, False) for o in OUT_DTYPES for d in DATA_DTYPES]
            if ctx.tier == 'quick' and not ctx.broken:
                # fixed reduced product: every output_dtype with and without axes; the data dtype alternates
                combos = [(w, o, 'float64' if o == 'float32' else DATA_DTYPES[(k + int(w)) % 2])
                          for w in (True, False) for k, o in enumerate(OUT_DTYPES)]
            for with_axes, out, data_dtype in combos:
                for hist in histories(two_d):
                    count += run_history(ctx, two_d, with_axes, out, data_dtype, hist, ctx.seed)
    ctx.note(f'history oracle: {count} returned pairs on fitters with a history (one of {len(REJECTED_1D)} / {len(REJECTED_2D)} rejected calls -- up front, '
             'deep inside optimizers, after partial work -- or all of them, then 9 / 8 successful methods on the same object; Baseline / Baseline2D '
             'with and without axes x output_dtype in {float32, int64, float16, None} x data float64 / float32): well-formed pair with the '
             'constructor\'s dtype, configuration attributes unchanged after every call')
    return count


def replay_history(case):
    from .common import Ctx
    ctx = Ctx('C01-replay', 'quick', case.get('seed', 0))
    ctx.known = []
    with warnings.catch_warnings():
        warnings.simplefilter('ignore')
        run_history(ctx, case['two_d'], case['with_axes'], case['output_dtype'], case['data_dtype'], case['history'], case.get('seed', 0))
    print('constructor:', case.get('ctor'), ' data dtype:', case['data_dtype'])
    print('history:', ' -> '.join(('REJECTED ' if s['rejected'] else '') + s['call'] for s in case['history']))
    for key, what, _ in ctx.violations:
        print('reproduced:', key, '--', what)
    return 1 if ctx.violations else 0


# ------------------------------------------------------------------ memory layouts
LAYOUT_1D = ['asls', 'modpoly', 'snip', 'mor', 'pspline_asls', 'adaptive_minmax', 'loess', 'std_distribution']
LAYOUT_2D = ['asls', 'modpoly', 'mor', 'pspline_asls', 'adaptive_minmax', 'individual_axes', 'noise_median', 'collab_pls']


def layouts(y, two_d):
    """[(name, view with the same values as y)]"""
    if not two_d:
        big = np.empty(2 * y.size, dtype=y.dtype)
        big[::2] = y
        return [('negative-stride', np.ascontiguousarray(y[::-1])[::-1]), ('strided', big[::2])]
    big = np.zeros((y.shape[0] + 2, 2 * y.shape[1]), dtype=y.dtype)
    big[1:-1, ::2] = y
    return [('fortran', np.asfortranarray(y)), ('transposed-view', np.ascontiguousarray(y.T).T),
            ('negative-strides', np.ascontiguousarray(y[::-1, ::-1])[::-1, ::-1]), ('strided-window', big[1:-1, ::2])]


def run_layout(ctx, two_d, name, lname, seed):
    from . import c01
    dim = '2d' if two_d else '1d'
    x, z, y = make_data(seed, two_d, 'float64')
    case = {'kind': 'layout', 'two_d': two_d, 'method': name, 'layout': lname, 'seed': seed}
    view = dict(layouts(y, two_d))[lname]
    assert np.array_equal(view, y)
    res = []
    for data in (y, view):
        fit = make_fitter(two_d, True, None, x, z)
        try:
            res.append(M.run_2d(name, x, z, data, fitter=fit) if two_d else M.run_1d(name, x, data, fitter=fit))
        except Exception as exc:  # noqa
            res.append(exc)
    (r0, r1) = res
    if isinstance(r0, Exception) or isinstance(r1, Exception):
        if isinstance(r0, Exception) != isinstance(r1, Exception):
            ctx.fail(f'layout:{name}:{dim}:{lname}:raises', f'{name}: only one of the C-contiguous / {lname} calls raised '
                     f'({r0 if isinstance(r0, Exception) else r1})', case)
        ctx.case(('layout-raise', dim, name, lname), nontrivial=False, kind='layout:raised')
        return 0
    ctx.case(('layout', dim, name, lname), nontrivial=True, kind=f'layout:{dim}')
    yref = (np.array([y, y * 1.1 + 1]) if two_d else np.vstack([y, y * 1.1 + 1])) if name == 'collab_pls' else y
    c01.check_output(_Keyed(ctx, f'layout:{name}:{dim}:{lname}'), name, two_d, np.asarray(yref), None, r1[0], r1[1], case)
    b0, b1 = np.asarray(r0[0], dtype=float), np.asarray(r1[0], dtype=float)
    scale = max(float(np.abs(b0).max()), 1e-300)
    if b0.shape != b1.shape or not np.allclose(b1, b0, rtol=1e-12, atol=1e-12 * scale):
        dev = float(np.abs(b1 - b0).max()) if b0.shape == b1.shape else float('nan')
        ctx.fail(f'layout:{name}:{dim}:{lname}:values', f'{name}: the baseline for {lname} data differs from the one for the C-contiguous copy '
                 f'by {dev:.3g} (signal ~{scale:.3g})', case)
    return 1


def layout_oracle(ctx):
    count = 0
    with warnings.catch_warnings():
        warnings.simplefilter('ignore')
        for two_d, names in ((False, LAYOUT_1D), (True, LAYOUT_2D)):
            x, z, y = make_data(ctx.seed, two_d, 'float64')
            for name in names:
                for lname, _ in layouts(y, two_d):
                    count += run_layout(ctx, two_d, name, lname, ctx.seed)
    ctx.note(f'layout oracle: {count} calls with Fortran-ordered / transposed / negative-stride / strided data (8 methods 1-D, 8 methods 2-D): '
             'well-formed pair, values equal to the C-contiguous run within 1e-12 relative')
    return count


def replay_layout(case):
    from .common import Ctx
    ctx = Ctx('C01-replay', 'quick', case.get('seed', 0))
    ctx.known = []
    with warnings.catch_warnings():
        warnings.simplefilter('ignore')
        run_layout(ctx, case['two_d'], case['method'], case['layout'], case.get('seed', 0))
    for key, what, _ in ctx.violations:
        print('reproduced:', key, '--', what)
    return 1 if ctx.violations else 0
