"""C18 -- optimize_window over an ENUMERATED grid of its options (boundary values: min_half_window 0/1/2,
max_half_window None/small/large, increment, max_hits 1, loose tolerance) x data kinds (constant, ramp,
monotone, step, noisy, peaked) in 1-D and 2-D (incl. a side of length 1-3).  Every cell is checked
directly against the documented contract (integer(s) >= 1, equal to 1 or inside
[min_half_window, max_half_window)) and its recorded trace is replayed by the Coq model."""
import itertools

import numpy as np

from . import c18 as B
from .common import zl

KINDS = ['constant', 'ramp', 'monotone', 'step', 'noisy', 'peaked']
SIZES_1D = [1, 2, 3, 4, 7, 25, 60]
SHAPES_2D = [(1, 20), (2, 20), (3, 20), (20, 1), (20, 2), (20, 3), (6, 9), (12, 12)]
MIN_HW = [None, 0, 1, 2]
MAX_HW = [None, 2, 5]
INCS = [1, 2]
MAX_HITS = [1, 3]
TOLS = [1e-6, 1e-2]


def make_row(kind, n):
    x = np.arange(n, dtype=float)
    if kind == 'constant':
        return np.full(n, 4.0)
    if kind == 'ramp':
        return 2.0 + 0.5 * x
    if kind == 'monotone':
        return np.sqrt(x + 1.0) * 10.0
    if kind == 'step':
        return np.where(x < n // 2, 1.0, 6.0)
    if kind == 'noisy':
        return np.random.default_rng(12345).normal(0.0, 1.0, n) + 10.0
    return 30.0 + 20.0 * np.exp(-0.5 * ((x - n / 2) / max(1.0, n / 12)) ** 2)      # peaked


def make_data(kind, shape):
    if len(shape) == 1:
        return make_row(kind, shape[0])
    r, c = shape
    if kind == 'noisy':
        return np.random.default_rng(12345).normal(0.0, 1.0, shape) + 10.0
    if kind in ('ramp', 'monotone'):
        return make_row(kind, c)[None, :] + make_row(kind, r)[:, None]
    if kind == 'step':
        return make_row(kind, c)[None, :] * np.ones((r, 1))
    if kind == 'peaked':
        return make_row(kind, c)[None, :] * (make_row(kind, r)[:, None] / 30.0)
    return np.full(shape, 4.0)


def option_grid():
    for mn, mx, inc, mh, tol in itertools.product(MIN_HW, MAX_HW, INCS, MAX_HITS, TOLS):
        kw = {}
        if mn is not None:
            kw['min_half_window'] = mn
        if mx is not None:
            kw['max_half_window'] = mx
        if inc != 1:
            kw['increment'] = inc
        if mh != 3:
            kw['max_hits'] = mh
        if tol != 1e-6:
            kw['window_tol'] = tol
        yield kw


def contract_error(out, two_d, kw, n_last):
    """None when the documented contract holds for the returned value."""
    o = np.asarray(out)
    if o.shape != ((2,) if two_d else ()):
        return f'shape {o.shape}'
    if not np.issubdtype(o.dtype, np.integer) or (not two_d and not isinstance(out, (int, np.integer))):
        return f'not an integer ({type(out).__name__}, dtype {o.dtype})'
    if not np.all(o >= 1):
        return 'below 1'
    mn = kw.get('min_half_window', 1)
    mx = kw.get('max_half_window', (n_last - 1) // 2)
    vals = [int(v) for v in o.ravel()]
    if two_d and vals[0] != vals[1]:
        return 'two different values (the code optimises one window for both axes)'
    if any(not (v == 1 or mn <= v < mx) for v in vals):
        return f'outside {{1}} U [min_half_window={mn}, max_half_window={mx})'
    return None


def run_grid(ctx):
    """returns the number of failing inputs; also discharges correspondence:optimize_window_grid."""
    lits = {}
    found = 0
    cells = [(k, (n,)) for k in KINDS for n in SIZES_1D] + [(k, s) for k in KINDS for s in SHAPES_2D]
    for kind, shape in cells:
        y = make_data(kind, shape)
        two_d = len(shape) == 2
        n = shape[-1]
        for kw in option_grid():
            st, out, trace = B.traced_optimize_window(y, **kw)
            hit = any(b for _, b in trace)
            ctx.case(('ow-grid', kind, shape, tuple(sorted(kw.items()))), nontrivial=len(trace) >= 1,
                     kind=f'optimize_window:grid:{"2d" if two_d else "1d"}:{kind}:{"hit" if hit else "nohit"}')
            case = {'kind': 'ow', 'data': y.tolist(), 'kwargs': kw, 'data_kind': kind}
            if st == 'err':
                ctx.fail('optimize_window:raises', f'optimize_window({kind} data of shape {shape}, {kw}) raised {out}', case)
                found += 1
                continue
            err = contract_error(out, two_d, kw, n)
            if err:
                ctx.fail('optimize_window:not-int-ge-1' if err in ('below 1',) or err.startswith(('shape', 'not an')) else 'optimize_window:out-of-bounds',
                         f'optimize_window({kind} data of shape {shape}, {kw}) returned {out!r}: {err}; documented: integer(s) >= 1', case)
                found += 1
            inc, mh = kw.get('increment', 1), kw.get('max_hits', 3)
            mx = kw.get('max_half_window', (n - 1) // 2)
            mn = kw.get('min_half_window', 1)
            tl = '[' + '; '.join(f'({zl(h)}, {"true" if b else "false"})' for h, b in trace) + ']'
            o = np.asarray(out).ravel()
            lits.setdefault(f'({tl}, {zl(inc)}, {zl(mh)}, {zl(mx)}, {zl(mn)}, (Some {zl(int(o[0]))}))', None)
            ctx.traces += 1
    ctx.sample({'kind': 'optimize_window grid cell', 'data': 'constant, shape (2, 20)', 'kwargs': {'min_half_window': 0, 'max_hits': 1}})
    B.run_cases(ctx, 'optimize_window_grid', B.OW_DECL, B.OW_OK, list(lits), per=400)
    return found


def replay_verdict(case, st, out):
    if st == 'err':
        return 'raised'
    data = np.asarray(case['data'])
    return contract_error(out, data.ndim == 2, case.get('kwargs', {}), data.shape[-1])
