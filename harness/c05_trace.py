"""C05 instrumentation: run a numba kernel's py_func on logging ndarray subclasses.

Nothing in /repo is changed: the kernel's code object is re-bound to a copy of its module globals in
which `np` is a proxy whose allocators return logging arrays, callee kernels are replaced by their
instrumented py_funcs and `_loess_solver` (np.linalg.solve, no subscripts) by a stub.

Event encoding (same as coq/C05/Mon.v ev_flat):
  [w, arr, comps...]   comps: scalar [0, i, len] ; slice [1, lo?, lo, hi?, hi, len]
  [2, n, m]            array value of m elements assigned to a target selecting n elements
Every comparison between float values is recorded in CMP (the oracle handed to the model)."""
import types

import numpy as np

IDS = {'tmp': 0, 'knots': 1, 'work': 2, 'x': 4, 'y': 5, 'weights': 6, 'ab': 7, 'rhs': 8,
       'basis_data': 9, 'row_ind': 10, 'col_ind': 11, 'fits': 12, 'windows': 13, 'skips': 14,
       'baseline': 16, 'coefs': 17, 'vander': 18, 'kernels': 19, 'data': 23, 'squared_diff': 24,
       'a': 25, 'b': 26, 'c': 27, 'indices': 28, 'output': 29}

LOG = []
CMP = []


def reset():
    del LOG[:]
    del CMP[:]


class LF(float):
    """float that records the outcome of every comparison it takes part in."""
    __slots__ = ()

    def _cmp(self, other, op):
        if isinstance(other, np.ndarray) and other.ndim:
            return NotImplemented
        r = bool(op(float(self), float(other)))
        CMP.append(r)
        return r

    def __lt__(self, o): return self._cmp(o, float.__lt__)
    def __le__(self, o): return self._cmp(o, float.__le__)
    def __gt__(self, o): return self._cmp(o, float.__gt__)
    def __ge__(self, o): return self._cmp(o, float.__ge__)
    def __eq__(self, o): return self._cmp(o, float.__eq__)
    def __ne__(self, o): return self._cmp(o, float.__ne__)
    __hash__ = float.__hash__


def _arith(name):
    base = getattr(float, name)

    def f(self, other):
        if isinstance(other, np.ndarray) and other.ndim:
            return NotImplemented
        try:
            r = base(float(self), float(other))
        except ZeroDivisionError:
            # numba / numpy scalars follow IEEE: x/0 = inf or nan
            with np.errstate(all='ignore'):
                r = float(getattr(np.float64, name)(np.float64(self), np.float64(other)))
        if r is NotImplemented:
            return r
        return LF(r)
    return f


for _n in ('__add__', '__radd__', '__sub__', '__rsub__', '__mul__', '__rmul__', '__truediv__',
           '__rtruediv__', '__pow__', '__rpow__'):
    setattr(LF, _n, _arith(_n))
LF.__neg__ = lambda self: LF(-float(self))
LF.__abs__ = lambda self: LF(abs(float(self)))


def _comp(k, n):
    if isinstance(k, slice):
        if k.step not in (None, 1):
            raise TypeError('stepped slice inside a kernel')
        lo = [0, 0] if k.start is None else [1, int(k.start)]
        hi = [0, 0] if k.stop is None else [1, int(k.stop)]
        return [1] + lo + hi + [int(n)]
    return [0, int(k), int(n)]


class LogArr(np.ndarray):
    _cid = 0

    def __array_finalize__(self, obj):
        self._cid = getattr(obj, '_cid', 0)

    def __array_wrap__(self, arr, context=None, return_scalar=False):
        res = super().__array_wrap__(arr, context, return_scalar)
        if isinstance(res, LogArr):
            res._cid = 0
        return res

    def _log(self, w, key):
        ks = key if isinstance(key, tuple) else (key,)
        if len(ks) > self.ndim or any(not isinstance(k, (int, np.integer, slice)) for k in ks):
            raise TypeError(f'unsupported subscript {key!r}')
        ev = [w, self._cid]
        for k, n in zip(ks, self.shape):
            ev += _comp(k, n)
        LOG.append(ev)

    def __getitem__(self, key):
        self._log(0, key)
        res = super().__getitem__(key)
        if isinstance(res, np.floating):
            return LF(float(res))
        if isinstance(res, np.integer):
            return int(res)
        return res

    def __iter__(self):
        # iteration reads element k at the start of iteration k (no trailing probe)
        for k in range(len(self)):
            yield self[k]

    def __setitem__(self, key, value):
        self._log(1, key)
        val = np.asarray(value)
        if val.ndim:
            target = np.ndarray.__getitem__(self.view(np.ndarray), key)
            LOG.append([2, int(np.size(target)), int(val.size)])
        np.ndarray.__setitem__(self.view(np.ndarray), key, value)


def arr(a, name, dtype=None):
    out = np.array(a, dtype=dtype).view(LogArr)
    out._cid = IDS[name]
    return out


class NpProxy:
    """numpy stand-in for kernel globals: allocators return logging arrays with the given ids."""

    def __init__(self, alloc_names):
        self._names = list(alloc_names)
        self._k = 0

    def _wrap(self, a):
        out = a.view(LogArr)
        out._cid = IDS[self._names[self._k]] if self._k < len(self._names) else 0
        self._k += 1
        return out

    def zeros(self, *a, **k): return self._wrap(np.zeros(*a, **k))
    def empty(self, *a, **k): return self._wrap(np.zeros(*a, **k))   # deterministic content
    def arange(self, *a, **k): return self._wrap(np.arange(*a, **k))
    def array(self, *a, **k): return self._wrap(np.array(*a, **k))

    def argmin(self, a):
        # the data-dependent index is handed to the model through the oracle, in unary
        r = int(np.argmin(a))
        n = int(np.size(a))
        CMP.extend([True] * r + ([False] if r < n - 1 else []))
        return r

    def __getattr__(self, name):
        return getattr(np, name)


def _solver_stub(AT, b):
    return np.zeros(AT.shape[0])


def instrument(kernel, alloc_names=(), module=None):
    """A pure-Python version of `kernel` (a numba dispatcher or a plain function) bound to
    instrumented globals."""
    fn = getattr(kernel, 'py_func', kernel)
    g = dict(fn.__globals__)
    g['np'] = NpProxy(alloc_names)
    for nm in fn.__code__.co_names:
        val = fn.__globals__.get(nm)
        if nm == '_loess_solver':
            g[nm] = _solver_stub
        elif type(val).__name__ == 'CPUDispatcher' and nm != fn.__name__:
            g[nm] = instrument(val)
    return types.FunctionType(fn.__code__, g, fn.__name__, fn.__defaults__, fn.__closure__)


def run(kernel, alloc_names, *args):
    """Returns (result or exception, log, comparisons)."""
    reset()
    f = instrument(kernel, alloc_names)
    import warnings
    try:
        with np.errstate(all='ignore'), warnings.catch_warnings():
            warnings.simplefilter('ignore')
            res = f(*args)
    except Exception as exc:  # noqa
        res = exc
    return res, [list(e) for e in LOG], list(CMP)


def wrap_ok(ev):
    """memory-level check of one logged event: -len <= i < len for every scalar component."""
    if ev[0] == 2:
        return ev[1] == ev[2]
    comps = ev[2:]
    k = 0
    while k < len(comps):
        if comps[k] == 0:
            i, n = comps[k + 1], comps[k + 2]
            if not (-n <= i < n):
                return False
            k += 3
        else:
            k += 6
    return True


def strict_bad(ev):
    """scalar components that are negative (Python wraps them silently)."""
    if ev[0] == 2:
        return False
    comps = ev[2:]
    k = 0
    while k < len(comps):
        if comps[k] == 0:
            if comps[k + 1] < 0:
                return True
            k += 3
        else:
            k += 6
    return False
