"""C20 -- 2-D eigendecomposition and array algebra.  DESIGN.md section 4 / C20.

Flow: gate -> translate GenC20 -> build props -> exact-integer correspondence of the Coq model
(evaluated inside Coq) with _face_splitting / _make_btwb (both hosts) / reset_diagonals / solve /
_calc_dof / individual_axes -> sampled eigen-pair contract -> direct oracle on the real code."""
import contextlib
import traceback
import warnings

import numpy as np

from .common import zl, zlist, zlist2

PROP = 'C20'

HEADER = """From Coq Require Import ZArith List Bool.
From PB Require Import lib.CaseUtil C20.Model gen.GenC20 C20.Axes.
Import ListNotations.
Open Scope Z_scope.
"""

WHIT_EIGEN = ['asls', 'airpls', 'arpls', 'iarpls', 'psalsa', 'brpls', 'lsrpls']


def _mods():
    from pybaselines.two_d import _whittaker_utils as wu, _spline_utils as su, optimizers as opt
    return wu, su, opt


def as_int(a):
    a = np.asarray(a, dtype=float)
    if not np.all(np.isfinite(a)) or not np.all(a == np.round(a)):
        raise ValueError('non-integer value where an exact integer was expected')
    return a.astype(np.int64)


def rows(a):
    return [[int(v) for v in r] for r in as_int(a)]


def quiet(fn, *a, **k):
    with warnings.catch_warnings():
        warnings.simplefilter('ignore')
        return fn(*a, **k)


LAYOUTS = ['C', 'F', 'T', 'neg', 'slice', 'Fslice']


def relayout(a, kind):
    """The same values and shape in another memory layout: C-contiguous; Fortran-contiguous copy; the .T
    view of an (N, M) C array; negative strides on both axes; a non-contiguous slice of a larger C array
    (the gaps hold 777); the same slice of a larger Fortran array."""
    a = np.array(a, dtype=float, order='C')
    M, N = a.shape
    if kind == 'C':
        return a
    if kind == 'F':
        return np.asfortranarray(a)
    if kind == 'T':
        return np.ascontiguousarray(a.T).T
    if kind == 'neg':
        return np.ascontiguousarray(a[::-1, ::-1])[::-1, ::-1]
    big = np.full((2 * M + 1, 3 * N), 777.0, order='C' if kind == 'slice' else 'F')
    view = big[1::2, 1::3]
    view[...] = a
    return view


def coq_ok(vals):
    return bool(vals) and (vals[0].startswith('(0%nat, [])') or vals[0].startswith('(0, [])'))


def cases_text(lits):
    return '\n'.join('  ' + l + (';' if i + 1 < len(lits) else '') for i, l in enumerate(lits))


def run_shards(ctx, name, ob, lits, body, per, what):
    """body: Coq text defining `ok`; cases are appended as `cases`."""
    ctx.obligations.append(ob)
    bad = False
    if not lits:
        ctx.broke(ob, 'no cases could be generated')
        return
    for k in range(0, len(lits), per):
        sh = lits[k:k + per]
        text = HEADER + f'\nDefinition cases := [\n{cases_text(sh)}\n].\n' + body + '\nEval vm_compute in (bad ok cases).\n'
        vals = ctx.coq_eval(f'{name}{k // per}', text)
        if vals is None:
            bad = True
        elif not coq_ok(vals):
            bad = True
            ctx.broke(f'correspondence:{name}-shard{k // per}', f'model and implementation disagree on {what}: {vals} (indices into this shard)')
    if not bad:
        ctx.discharged.append(ob)


# ---------------------------------------------------------------- A. _face_splitting, _make_btwb
def impl_face_splitting(B):
    wu, _, _ = _mods()
    return wu._face_splitting(B).toarray()


def impl_btwb(kind, Br, W, Bc):
    wu, su, _ = _mods()
    if kind == 0:
        obj = object.__new__(wu.WhittakerSystem2D)
        obj._num_bases = np.array([Br.shape[1], Bc.shape[1]])
        obj._G_r = wu._face_splitting(Br)
        obj._G_c = wu._face_splitting(Bc)
        return np.asarray(obj._make_btwb(W))
    from pybaselines._compat import csr_object
    obj = object.__new__(su.SplineBasis2D)
    obj._num_bases = (Br.shape[1], Bc.shape[1])
    obj._G_r = su._face_splitting(csr_object(Br))
    obj._G_c = su._face_splitting(csr_object(Bc))
    return obj._make_btwb(W).toarray()


def corr_btwb(ctx, nrng):
    shapes = [(M, N, a, c) for M in (1, 2, 3) for N in (1, 2, 3) for a in (1, 2, 3) for c in (1, 2, 3)]
    for _ in range(ctx.n(30, 300)):
        shapes.append(tuple(int(v) for v in (nrng.integers(1, 7), nrng.integers(1, 7),
                                             nrng.integers(1, 5), nrng.integers(1, 5))))
    lits = []
    for idx, (M, N, a, c) in enumerate(shapes):
        for kind in (0, 1):
            Br = nrng.integers(-3, 4, (M, a)).astype(float)
            Bc = nrng.integers(-3, 4, (N, c)).astype(float)
            W = relayout(nrng.integers(0, 4, (M, N)).astype(float), LAYOUTS[(idx + kind) % len(LAYOUTS)])
            try:
                F = rows(impl_btwb(kind, Br, W, Bc))
            except Exception as exc:  # noqa
                ctx.broke('correspondence:btwb-impl', f'_make_btwb (host {kind}) on integer input shape {(M, N, a, c)}: {type(exc).__name__}: {exc}')
                continue
            ctx.case(('btwb', kind, M, N, a, c, Br.tobytes(), W.tobytes(), Bc.tobytes()),
                     nontrivial=(M * N > 1 and a * c > 1), kind=f'btwb:{"whittaker" if kind == 0 else "spline"}')
            lits.append(f'({kind}, {M}%nat, {N}%nat, {a}%nat, {c}%nat, {zlist2(rows(Br))}, {zlist2(rows(W))}, '
                        f'{zlist2(rows(Bc))}, {zlist2(F)})')
            if idx == 100 and kind == 0:
                ctx.sample({'kind': 'btwb-case', 'shape(M,N,a,c)': (M, N, a, c), 'B_r': rows(Br), 'W': rows(W), 'B_c': rows(Bc)})
    body = """
Definition ok (cs : Z * nat * nat * nat * nat * list (list Z) * list (list Z) * list (list Z) * list (list Z)) : bool :=
  let '(kind, M, N, a, c, Br, W, Bc, exp) := cs in
  let cf := if kind =? 0 then gen_cfg_whittaker else gen_cfg_spline in
  zll_eqb (tab2 (a * c) (a * c) (make_btwb ZO cf M N a c (of_rows Br) (of_rows W) (of_rows Bc))) exp.
"""
    run_shards(ctx, 'btwb', 'correspondence:_make_btwb(WhittakerSystem2D,SplineBasis2D)-exact-integers', lits, body, 150,
               '_make_btwb')
    # _face_splitting alone (dense and sparse input)
    lits = []
    from pybaselines._compat import csr_object
    for m in (1, 2, 3, 5):
        for n in (1, 2, 3, 4):
            for sparse in (False, True):
                B = nrng.integers(-4, 5, (m, n)).astype(float)
                try:
                    G = rows(impl_face_splitting(csr_object(B) if sparse else B))
                except Exception as exc:  # noqa
                    ctx.broke('correspondence:face-splitting-impl', f'_face_splitting shape {(m, n)}: {type(exc).__name__}: {exc}')
                    continue
                ctx.case(('fs', m, n, sparse, B.tobytes()), nontrivial=n > 1, kind='face_splitting')
                lits.append(f'({m}%nat, {n}%nat, {zlist2(rows(B))}, {zlist2(G)})')
    body = """
Definition ok (cs : nat * nat * list (list Z) * list (list Z)) : bool :=
  let '(m, n, B, exp) := cs in
  zll_eqb (tab2 m (n * n) (face_splitting ZO gen_cfg_whittaker (Z.of_nat m) (Z.of_nat n) (of_rows B))) exp.
"""
    run_shards(ctx, 'fs', 'correspondence:_face_splitting-exact-integers', lits, body, 200, '_face_splitting')


# ---------------------------------------------------------------- B. reset_diagonals / solve / _calc_dof
def fake_table(salt, n, d):
    r = np.random.default_rng([int(salt), int(n), int(d)])
    vals = r.integers(1, 6, size=n).astype(float)          # non-zero: the zeroing is visible
    vecs = r.integers(-2, 3, size=(n, n)).astype(float)
    return vals, vecs


@contextlib.contextmanager
def patched_eigen(salt, log):
    """Replaces the LAPACK eigen-solvers and scipy.linalg.solve inside _whittaker_utils by exact
    integer stand-ins (the model is compared on exactly these inputs)."""
    wu, _, _ = _mods()
    orig = (wu.eig_banded, wu.eigh_tridiagonal, wu.solve)

    def eig_banded(a_band, lower=False, select='a', select_range=None, **kw):
        if not lower or select != 'i':
            raise RuntimeError('eig_banded called with unexpected lower/select')
        n, d = a_band.shape[1], a_band.shape[0] - 1
        vals, vecs = fake_table(salt, n, d)
        lo, hi = select_range
        log.append(('eig', n, d, lo, hi))
        return vals[lo:hi + 1].copy(), vecs[:, lo:hi + 1].copy()

    def eigh_tridiagonal(dd, ee, select='a', select_range=None, **kw):
        if select != 'i':
            raise RuntimeError('eigh_tridiagonal called with unexpected select')
        n = len(dd)
        vals, vecs = fake_table(salt, n, 1)
        lo, hi = select_range
        log.append(('eig', n, 1, lo, hi))
        return vals[lo:hi + 1].copy(), vecs[:, lo:hi + 1].copy()

    def solve(lhs, rhs, **kw):
        log.append(('solve', np.array(lhs, dtype=float), np.array(rhs, dtype=float)))
        r = np.random.default_rng([int(salt), 77])
        return r.integers(-3, 4, size=np.shape(rhs)).astype(float)

    wu.eig_banded, wu.eigh_tridiagonal, wu.solve = eig_banded, eigh_tridiagonal, solve
    try:
        yield
    finally:
        wu.eig_banded, wu.eigh_tridiagonal, wu.solve = orig


def corr_system(ctx, nrng):
    wu, _, _ = _mods()
    lits = []
    ncase = ctx.n(70, 500)
    for k in range(ncase):
        M, N = int(nrng.integers(2, 6)), int(nrng.integers(2, 6))
        if k % 5 == 0:
            N = M
        dr, dc = int(nrng.integers(1, min(M, 4))), int(nrng.integers(1, min(N, 4)))
        a, c = int(nrng.integers(1, M + 1)), int(nrng.integers(1, N + 1))
        if k % 10 == 0:
            dc, c = dr, a          # the branch that re-uses the row eigen-pairs for the columns
        elif k % 5 == 0:
            c = a                  # same sizes, different diff_order: must NOT be re-used
        lr, lc = int(nrng.choice([1, 2, 3, 4, 8])), int(nrng.choice([1, 2, 3, 4, 8]))
        salt = int(nrng.integers(0, 2 ** 31))
        wmode = k % 4          # 0,1: random integer weights; 2: uniform 2 or 3; 3: uniform 1
        if wmode == 2:
            W = np.full((M, N), float(nrng.choice([2, 3])))
        elif wmode == 3:
            W = np.ones((M, N))
        else:
            W = nrng.integers(0, 4, (M, N)).astype(float)
        Y = nrng.integers(-5, 6, (M, N)).astype(float)
        extra = nrng.integers(-4, 5, a * c).astype(float) if (k // 4) % 2 else None
        lay_w, lay_y = LAYOUTS[k % len(LAYOUTS)], LAYOUTS[(k // len(LAYOUTS)) % len(LAYOUTS)]
        W, Y = relayout(W, lay_w), relayout(Y, lay_y)
        log = []
        try:
            with patched_eigen(salt, log), warnings.catch_warnings():
                warnings.simplefilter('ignore')
                ws = wu.WhittakerSystem2D((M, N), lam=(lr, lc), diff_order=(dr, dc), num_eigens=(a, c))
                pen = as_int(ws.penalty)
                lens = (len(ws.penalty_rows), len(ws.penalty_columns))
                nb = tuple(int(v) for v in ws._num_bases)
                out = as_int(ws.solve(Y, W, rhs_extra=None if extra is None else extra.copy()))
                ws._calc_dof(W)
                lr2, lc2 = lr * int(2 ** nrng.integers(0, 4)), lc * int(2 ** nrng.integers(0, 4))
                ws.update_penalty((lr2, lc2))
                pen2 = as_int(ws.penalty)
            solves = [e for e in log if e[0] == 'solve']
            if len(solves) != 2:
                raise RuntimeError(f'expected 2 captured solves, got {len(solves)}')
            lhs, rhs = as_int(solves[0][1]), as_int(solves[0][2])
            dlhs, drhs = as_int(solves[1][1]), as_int(solves[1][2])
            coef = as_int(np.random.default_rng([salt, 77]).integers(-3, 4, size=rhs.shape))
        except Exception as exc:  # noqa
            ctx.broke('correspondence:system-impl', f'WhittakerSystem2D with integer eigen stand-ins, case {(M, N, dr, dc, a, c)}: {type(exc).__name__}: {exc}')
            continue
        if nb != (a, c) or lens != (a * c, a * c) or pen.shape != (a * c,) or lhs.shape != (a * c, a * c) \
                or rhs.shape != (a * c,) or out.shape != (M, N):
            ctx.broke('correspondence:system-shapes', f'case {(M, N, dr, dc, a, c)}: num_bases {nb}, penalty lengths {lens}, lhs {lhs.shape}, rhs {rhs.shape}, out {out.shape}')
            continue
        # model inputs are built independently of what the implementation asked the stand-ins for
        vr, Ur = fake_table(salt, M, dr)
        vc, Uc = fake_table(salt, N, dc)
        vr, Ur, vc, Uc = vr[:a], Ur[:, :a], vc[:c], Uc[:, :c]
        ctx.case(('sys', M, N, dr, dc, a, c, lr, lc, salt, wmode, extra is None), nontrivial=(a * c > 1 and M * N > a * c or a * c > 2),
                 kind=f'system:weights={["random", "random", "uniform2or3", "uniform1"][wmode]}:rhs_extra={extra is not None}')
        lits.append(f'({M}%nat, {N}%nat, {a}%nat, {c}%nat, ({dr}, {dc}, {lr}, {lc}), {zlist2(rows(Ur))}, {zlist2(rows(Uc))}, '
                    f'{zlist(as_int(vr))}, {zlist(as_int(vc))}, {zlist2(rows(W))}, {zlist2(rows(Y))}, {zlist(coef)}, '
                    f'({zlist(pen)}, {zlist2(rows(lhs))}, {zlist(rhs)}, {zlist2(rows(out))}, {zlist2(rows(dlhs))}, {zlist2(rows(drhs))}), '
                    f'({lr2}, {lc2}, {zlist(pen2)}), {zlist(as_int(extra) if extra is not None else [0] * (a * c))})')
        if k == 3:
            ctx.sample({'kind': 'system-case', 'shape': (M, N), 'diff_order': (dr, dc), 'num_eigens': (a, c), 'lam': (lr, lc)})
    ctx.traces += len(lits)
    body = """
Definition ok (cs : nat * nat * nat * nat * (Z * Z * Z * Z) * list (list Z) * list (list Z) * list Z * list Z
                    * list (list Z) * list (list Z) * list Z
                    * (list Z * list (list Z) * list Z * list (list Z) * list (list Z) * list (list Z))
                    * (Z * Z * list Z) * list Z) : bool :=
  let '(M, N, a, c, prm, Ur, Uc, vr, vc, W, Y, coef, exp, upd, extra) := cs in
  let '(lr2, lc2, epen2) := upd in
  let '(dr, dc, lr, lc) := prm in
  let '(epen, elhs, erhs, eout, edlhs, edrhs) := exp in
  let cf := gen_cfg_whittaker in
  let az := Z.of_nat a in let cz := Z.of_nat c in
  let pen := penalty ZO cf az cz lr lc (zero_first ZO dr (of_list vr)) (zero_first ZO dc (of_list vc)) in
  let F := make_btwb ZO cf M N a c (of_rows Ur) (of_rows W) (of_rows Uc) in
  let lhs := lhs_model ZO cf M N a c (of_rows Ur) (of_rows W) (of_rows Uc) pen in
  (fst (penalty_lens cf az cz) =? az * cz) && (snd (penalty_lens cf az cz) =? az * cz)
  && zl_eqb (tab1 (a * c) pen) epen
  && zll_eqb (tab2 (a * c) (a * c) lhs) elhs
  && zl_eqb (tab1 (a * c) (fun k => rhs_model ZO M N cz (of_rows Ur) (of_rows W) (of_rows Y) (of_rows Uc) k + of_list extra k)) erhs
  && zll_eqb (tab2 M N (output_model ZO a c (of_rows Ur) (of_rows Uc) (of_list coef))) eout
  && zll_eqb (tab2 (a * c) (a * c) lhs) edlhs
  && zll_eqb (tab2 (a * c) (a * c) F) edrhs
  && zl_eqb (tab1 (a * c) (penalty ZO cf az cz lr2 lc2 (zero_first ZO dr (of_list vr)) (zero_first ZO dc (of_list vc)))) epen2.
"""
    run_shards(ctx, 'sys', 'correspondence:WhittakerSystem2D(reset_diagonals,solve,_calc_dof,update_penalty)-exact-integers', lits, body, 100,
               'the penalty / left-hand side / right-hand side / output of WhittakerSystem2D')


# ---------------------------------------------------------------- C. individual_axes
class FakeBaseline:
    """Stand-in for pybaselines.api.Baseline inside two_d.optimizers: an exact, position-sensitive
    integer 'method' (C20/Axes.v fitZ)."""
    log = None

    def __init__(self, x_data=None, check_finite=True, assume_sorted=False, output_dtype=None):
        self.x = np.asarray(x_data, dtype=float)
        self.flag = bool(assume_sorted)
        self.banded_solver = None

    def _get_method(self, method):
        def f(data, **kw):
            data = np.asarray(data, dtype=float)
            n = len(data)
            if len(self.x) != n:
                raise RuntimeError('axis values and data have different lengths')
            return 2 * data + 3 * self.x + (1000 if self.flag else 0) + data[0] + 5 * self.x[n - 1], {'n': n}
        return f


def rand_perm(nrng, n, mode):
    if mode == 'sorted' or n == 1:
        return np.arange(n)
    for _ in range(20):
        p = nrng.permutation(n)
        inv = np.argsort(p)
        if not np.array_equal(p, np.arange(n)) and (n < 3 or not np.array_equal(p, inv)):
            return p
    return np.roll(np.arange(n), 1)


def state_of(b):
    """(self.x, self.z, inverted x order or None, inverted z order or None) from the object, by the
    same representation rules as Baseline2D.__init__."""
    so, io = b._sort_order, b._inverted_order
    if so is None:
        ix = iz = None
    elif isinstance(so, tuple):
        if so[0] is Ellipsis:
            ix, iz = None, np.asarray(io[1]).ravel()
        else:
            ix, iz = np.asarray(io[0]).ravel(), np.asarray(io[1]).ravel()
    else:
        ix, iz = np.asarray(io).ravel(), None
    return np.asarray(b.x), np.asarray(b.z), ix, iz


def opt_list(v):
    return 'None' if v is None else f'(Some {zlist(as_int(v))})'


def corr_axes(ctx, nrng):
    _, _, opt = _mods()
    from pybaselines import Baseline2D
    lits = []
    orig = opt.Baseline
    opt.Baseline = FakeBaseline
    try:
        for k in range(ctx.n(120, 800)):
            M, N = int(nrng.integers(2, 6)), int(nrng.integers(2, 6))
            mx = ['sorted', 'perm'][int(nrng.integers(0, 2))]
            mz = ['sorted', 'perm'][int(nrng.integers(0, 2))]
            xs = np.sort(nrng.choice(np.arange(-20, 21), size=M, replace=False)).astype(float)
            zs = np.sort(nrng.choice(np.arange(-20, 21), size=N, replace=False)).astype(float)
            x_in, z_in = xs[rand_perm(nrng, M, mx)], zs[rand_perm(nrng, N, mz)]
            axes = [(0, 1), (1, 0), 0, 1][k % 4]
            data = nrng.integers(-9, 10, (M, N)).astype(float)
            try:
                b = Baseline2D(x_in.copy(), z_in.copy())
                got, params = quiet(b.individual_axes, data.copy(), axes=axes, method='asls')
                sx, sz, ix, iz = state_of(b)
                got = rows(got)
            except Exception as exc:  # noqa
                ctx.broke('correspondence:individual_axes-impl', f'individual_axes with the integer stand-in, shape {(M, N)} axes {axes}: {type(exc).__name__}: {exc}')
                continue
            # invariants of Baseline2D.__init__ that C20_individual_axes assumes (sampled)
            okx = np.array_equal(sx, x_in) if ix is None else np.array_equal(sx[ix], x_in)
            okz = np.array_equal(sz, z_in) if iz is None else np.array_equal(sz[iz], z_in)
            srt = (ix is not None or np.all(np.diff(x_in) > 0)) and (iz is not None or np.all(np.diff(z_in) > 0))
            if not (okx and okz and srt):
                ctx.fail('individual_axes:init-invariant', 'Baseline2D.__init__: self.x[inverted_order] != input x (or unsorted axis without sort order)',
                         {'kind': 'axes-init', 'x': x_in.tolist(), 'z': z_in.tolist()})
            al = [axes] if isinstance(axes, int) else list(axes)
            unsorted = (ix is not None) + (iz is not None)
            ctx.case(('axes', M, N, tuple(x_in), tuple(z_in), tuple(al), data.tobytes()),
                     nontrivial=(M > 1 and N > 1), kind=f'individual_axes:unsorted-axes={unsorted}:n_axes={len(al)}')
            lits.append(f'({M}%nat, {N}%nat, {zlist(as_int(sx))}, {zlist(as_int(sz))}, {opt_list(ix)}, {opt_list(iz)}, '
                        f'{zlist(al)}, {zlist2(rows(data))}, {zlist2(got)})')
    finally:
        opt.Baseline = orig
    body = """
Definition ok (cs : nat * nat * list Z * list Z * option (list Z) * option (list Z) * list Z * list (list Z) * list (list Z)) : bool :=
  let '(M, N, sx, sz, ix, iz, axes, data, exp) := cs in
  zll_eqb (tabZ M N (individual_axes Z Z.add Z.sub 0 fitZ (mk_stateZ sx sz ix iz) M N axes (of_rowsZ data))) exp.
"""
    run_shards(ctx, 'axes', 'correspondence:Baseline2D.individual_axes(axis values,assume_sorted,order,accumulation)-exact-integers',
               lits, body, 300, 'individual_axes')


# ---------------------------------------------------------------- D. eigen-pair contract (sampled)
def eigen_contract(ctx, nrng):
    wu, _, _ = _mods()
    ob = 'contract-sample:eig_banded/eigh_tridiagonal(orthonormal columns, U\'PU diagonal, first d eigenvalues ~0)'
    ctx.obligations.append(ob)
    bad = None
    zeroed = None
    raw = []
    orig = (wu.eig_banded, wu.eigh_tridiagonal)

    def eb(*a, **k):
        r = orig[0](*a, **k)
        raw.append(np.array(r[0]))
        return r

    def et(*a, **k):
        r = orig[1](*a, **k)
        raw.append(np.array(r[0]))
        return r
    wu.eig_banded, wu.eigh_tridiagonal = eb, et
    try:
        for d in (1, 2, 3, 4):
            longs = {2: [450], 3: [130, 200], 4: [80]}.get(d, [])
            for n in list(range(d + 1, 14)) + [20, 33] + longs:
                for k in sorted(({d + 1, min(n, d + 3), n} if n not in longs else {d + 1, d + 5}) if n > d else set()):
                    if k > n:
                        continue
                    obj = object.__new__(wu.WhittakerSystem2D)
                    del raw[:]
                    try:
                        vals, U = quiet(obj._calc_eigenvalues, n, d, k)
                    except Exception as exc:  # noqa
                        bad = bad or f'n={n} d={d} k={k}: _calc_eigenvalues raised {type(exc).__name__}: {exc}'
                        continue
                    D = np.diff(np.eye(n), d, axis=0)
                    P = D.T @ D
                    scale = max(1.0, np.abs(P).sum(axis=1).max())
                    e1 = np.abs(U.T @ U - np.eye(k)).max()
                    e2 = np.abs(U.T @ P @ U - np.diag(vals)).max() / scale
                    e3 = np.abs(raw[0][:d]).max() / scale if raw else np.inf
                    ref = ref_basis(n, d)[2][:k]       # SVD of D: relative accuracy also for tiny eigenvalues
                    e4 = np.abs(ref - np.where(np.arange(k) < d, 0, raw[0] if raw else np.nan)).max() / scale
                    # genuine (non-null) eigenvalues must survive, however small they are on a long axis
                    if k > d and not np.all(np.asarray(vals)[d:] >= 0.5 * ref[d:]):
                        j = d + int(np.argmin(np.asarray(vals)[d:] / ref[d:]))
                        zeroed = zeroed or (f'n={n} diff_order={d} num_eigens={k}: eigenvalue #{j} of D\'D is {ref[j]:.3e} (genuine, rank n-d) '
                                            f'but _calc_eigenvalues returns {vals[j]:.3e}')
                    ctx.case(('eig', n, d, k), nontrivial=k > d, kind=f'eigen-contract:d={d}')
                    if U.shape != (n, k) or not (e1 < 1e-9 and e2 < 1e-9 and e3 < 1e-9 and e4 < 1e-9) or np.any(vals[:d] != 0):
                        bad = bad or f'n={n} d={d} k={k}: |U\'U-I|={e1:.2e} |U\'PU-L|/|P|={e2:.2e} first-d={e3:.2e} vs eigvalsh={e4:.2e}'
    finally:
        wu.eig_banded, wu.eigh_tridiagonal = orig
    if zeroed:
        ctx.fail('eigen-contract:genuine-eigenvalue-zeroed', f'_calc_eigenvalues treats a genuine eigenvalue as null: {zeroed}',
                 {'kind': 'eigen', 'detail': zeroed})
    if bad:
        ctx.fail('eigen-contract', f'_calc_eigenvalues does not return the smallest eigen-pairs of D\'D with zeroed null eigenvalues: {bad}',
                 {'kind': 'eigen', 'detail': bad})
    elif not zeroed:
        ctx.discharged.append(ob)


# ---------------------------------------------------------------- E. direct oracle on the real code
def dpen(n, d):
    D = np.diff(np.eye(n), d, axis=0)
    return D.T @ D


_BASIS_CACHE = {}


def ref_basis(n, d):
    """(all eigenvectors of D'D in ascending order, D'D), from the SVD of D = np.diff(np.eye(n), d):
    right singular vectors, null space first.  Relative accuracy for the tiny eigenvalues of long
    axes, where eigh(D'D) only has absolute accuracy eps*|D'D|."""
    if (n, d) not in _BASIS_CACHE:
        D = np.diff(np.eye(n), d, axis=0)
        _, sv, Vt = np.linalg.svd(D, full_matrices=True)
        vals = np.concatenate([np.zeros(d), sv[::-1] ** 2])
        if len(_BASIS_CACHE) > 40:
            _BASIS_CACHE.clear()
        _BASIS_CACHE[(n, d)] = (Vt[::-1].T.copy(), D.T @ D, vals)
    return _BASIS_CACHE[(n, d)]


def galerkin_reference(y, w, lam, d, k):
    """Dense Galerkin solution in the independent SVD eigenbasis without forming (M*N)^2 arrays."""
    M, N = y.shape
    Vr, Pr, _ = ref_basis(M, d[0])
    Vc, Pc, _ = ref_basis(N, d[1])
    Ur, Uc = Vr[:, :k[0]], Vc[:, :k[1]]
    U = np.kron(Ur, Uc)
    A = (U * w.ravel()[:, None]).T @ U + lam[0] * np.kron(Ur.T @ Pr @ Ur, Uc.T @ Uc) \
        + lam[1] * np.kron(Ur.T @ Ur, Uc.T @ Pc @ Uc)
    cond = np.linalg.cond(A)
    if not np.isfinite(cond) or cond > 1e11:
        return None, np.inf
    c = np.linalg.solve(A, U.T @ (w.ravel() * y.ravel()))
    return (U @ c).reshape(M, N), cond


def dense_reference(y, w, lam, d, k=None):
    """The documented systems, built densely and independently: full (W + P) v = W y, or its
    Galerkin reduction in the eigenbasis U = kron(U_r, U_c) of the k smallest eigenvectors."""
    M, N = y.shape
    Pr, Pc = dpen(M, d[0]), dpen(N, d[1])
    P = lam[0] * np.kron(Pr, np.eye(N)) + lam[1] * np.kron(np.eye(M), Pc)
    Wd = np.diag(w.ravel())
    if k is None:
        A = Wd + P
        cond = np.linalg.cond(A)
        if not np.isfinite(cond) or cond > 1e11:
            return None, np.inf, None
        v = np.linalg.solve(A, w.ravel() * y.ravel())
        return v.reshape(M, N), cond, None
    Ur = ref_basis(M, d[0])[0][:, :k[0]]
    Uc = ref_basis(N, d[1])[0][:, :k[1]]
    U = np.kron(Ur, Uc)
    A = U.T @ (Wd + P) @ U
    cond = np.linalg.cond(A)
    if not np.isfinite(cond) or cond > 1e11:
        return None, np.inf, (U, A)
    c = np.linalg.solve(A, U.T @ (w.ravel() * y.ravel()))
    return (U @ c).reshape(M, N), cond, (U, A)


def gen_surface(nrng, M, N):
    i, j = np.meshgrid(np.linspace(-1, 1, M), np.linspace(-1, 1, N), indexing='ij')
    y = 5 + 3 * i - 2 * j + 1.5 * i * j + 4 * np.exp(-((i - 0.2) ** 2 + (j + 0.1) ** 2) / 0.05) + 0.1 * nrng.normal(size=(M, N))
    return y


def weight_kinds(nrng, M, N, kind):
    if kind.startswith('const'):
        return np.full((M, N), float(kind[5:]))
    if kind == 'nearconst':
        return 1.0 + 1e-12 * nrng.choice([-1.0, 1.0], (M, N))
    if kind == 'random':
        return nrng.uniform(0.05, 1.0, (M, N))
    if kind == 'twolevel':
        return np.where(nrng.random((M, N)) < 0.5, 0.01, 0.99)
    if kind == 'zerorowcol':      # one row and one column carry no weight at all
        w = nrng.uniform(0.3, 1.0, (M, N))
        w[int(nrng.integers(0, M)), :] = 0.0
        w[:, int(nrng.integers(0, N))] = 0.0
        return w
    w = nrng.uniform(0.2, 1.0, (M, N))     # 'rowcol': structure that distinguishes rows from columns
    w[0, :] = 0.03
    w[:, -1] = 0.9
    return w


WKINDS = ['const0.01', 'random', 'const0.25', 'twolevel', 'const1', 'zerorowcol', 'const7', 'nearconst', 'rowcol']


def whit_case(nrng, k):
    d = (int(nrng.integers(1, 4)), int(nrng.integers(1, 4)))
    mode = k % 4
    if mode == 0:      # sides as small as diff_order + 2
        M, N = d[0] + 2, d[1] + 2 + int(nrng.integers(0, 6))
    elif mode == 1:    # square grid, different diff_order per axis
        M = N = int(nrng.integers(max(d) + 2, 11))
        if d[0] == d[1]:
            d = (d[0], d[0] % 3 + 1)
            M = N = max(M, max(d) + 2)
    elif mode == 2:
        M, N = d[0] + 2 + int(nrng.integers(0, 8)), d[1] + 2
    else:
        M, N = int(nrng.integers(d[0] + 2, 13)), int(nrng.integers(d[1] + 2, 13))
    lam = (float(10.0 ** nrng.uniform(-1, 2)), float(10.0 ** nrng.uniform(-1, 2)))
    return M, N, d, lam


def call_method(b, method, y, lam, d, w, num_eigens, **extra):
    if method == 'brpls':
        extra = dict(extra, max_iter_2=0)     # brpls has a second loop; one solve only
    return quiet(getattr(b, method), y, lam=lam, diff_order=d, weights=w, max_iter=0, num_eigens=num_eigens, **extra)


def oracle_whittaker(ctx, nrng, budget):
    from pybaselines import Baseline2D
    eps = np.finfo(float).eps
    n1 = ctx.n(112, 420) * budget
    worst = 0.0
    for k in range(n1):
        M, N, d, lam = whit_case(nrng, k)
        y = gen_surface(nrng, M, N)
        wk = WKINDS[k % len(WKINDS)]
        w = weight_kinds(nrng, M, N, wk)
        method = WHIT_EIGEN[k % len(WHIT_EIGEN)]
        b = Baseline2D(np.arange(M, dtype=float), np.arange(N, dtype=float))
        case = {'kind': 'whittaker', 'method': method, 'M': M, 'N': N, 'diff_order': list(d), 'lam': list(lam),
                'weights': w.tolist(), 'y': y.tolist()}
        scale = np.abs(y).max()
        ref, cond, _ = dense_reference(y, w, lam, d)
        if not np.isfinite(cond) or cond > 1e11:
            continue      # numerically singular full system: nothing can be compared
        tol = (1e4 * eps * cond + 1e-9) * scale
        case['layout_y'], case['layout_w'] = LAYOUTS[k % len(LAYOUTS)], LAYOUTS[(k // len(LAYOUTS)) % len(LAYOUTS)]
        y, w = relayout(y, case['layout_y']), relayout(w, case['layout_w'])
        try:
            direct, _ = call_method(b, method, y, lam, d, w, None)
        except Exception as exc:  # noqa
            direct = None
            ctx.fail(f'whittaker:{method}:raises', f'{method} (max_iter=0, num_eigens=None) raised {type(exc).__name__}: {exc} on a {M}x{N} grid, diff_order={d}', case)
        try:
            full, _ = call_method(b, method, y, lam, d, w, (M, N))
        except Exception as exc:  # noqa
            full = None
            ctx.fail(f'whittaker:{method}:raises', f'{method} (max_iter=0, num_eigens=({M},{N})) raised {type(exc).__name__}: {exc} on a {M}x{N} grid, diff_order={d}', case)
        ctx.case(('full', method, M, N, d, lam, wk, y.tobytes()), nontrivial=(d[0] != d[1] or M != N), kind=f'oracle:full-vs-direct:{method}:{wk.rstrip("0123456789.")}')
        if direct is not None and full is not None:
            e_full = np.abs(full - direct).max()
            worst = max(worst, e_full / tol)
            if not e_full <= tol:
                ctx.fail(f'whittaker:full-eigen-vs-direct:{method}',
                         f'{method}: num_eigens=({M},{N}) (all eigenvectors) differs from num_eigens=None (direct solve) by {e_full:.3e} '
                         f'(tolerance {tol:.1e}) on a {M}x{N} grid, diff_order={d}, lam={lam}', case)
        # the direct solve itself against the dense documented system (method-independent for a single solve)
        if direct is not None:
            e_dir = np.abs(direct - ref).max()
            if not e_dir <= tol:
                ctx.fail(f'whittaker:direct-vs-dense:{method}',
                         f'{method}: num_eigens=None differs from the dense solve of (W + lam_r kron(D\'D, I) + lam_c kron(I, D\'D)) v = W y by {e_dir:.3e} '
                         f'on a {M}x{N} grid, diff_order={d}', case)
        # truncated: every per-axis difference at once
        kr = int(nrng.integers(d[0] + 1, M + 1))
        kc = int(nrng.integers(d[1] + 1, N + 1))
        if k % 3 == 0:
            kr, kc = d[0] + 1, d[1] + 1
        case_t = dict(case, num_eigens=[kr, kc])
        try:
            trunc, prm = call_method(b, method, y, lam, d, w, (kr, kc), return_dof=True)
        except Exception as exc:  # noqa
            ctx.fail(f'whittaker:{method}:raises', f'{method} (max_iter=0, num_eigens=({kr},{kc})) raised {type(exc).__name__}: {exc}', case_t)
            continue
        gref, gcond, (U, A) = dense_reference(y, w, lam, d, (kr, kc))
        gtol = (1e4 * eps * gcond + 1e-8) * scale
        if not np.isfinite(gcond) or gcond > 1e11:
            continue
        ctx.case(('trunc', method, M, N, d, lam, kr, kc, wk, y.tobytes()), nontrivial=(kr < M or kc < N), kind=f'oracle:truncated-vs-galerkin:{method}')
        if True:
            e_tr = np.abs(trunc - gref).max()
            worst = max(worst, e_tr / gtol)
            if not e_tr <= gtol:
                ctx.fail(f'whittaker:truncated-vs-galerkin:{method}',
                         f'{method}: num_eigens=({kr},{kc}) differs from the dense Galerkin solution U (U\'(W+P)U)^-1 U\'W y by {e_tr:.3e} '
                         f'(tolerance {gtol:.1e}) on a {M}x{N} grid, diff_order={d}, lam={lam}', case_t)
        # effective degrees of freedom: diag((U'WU + L)^-1 U'WU) with the returned weights
        if 'dof' in prm and 'weights' in prm and np.shape(prm['weights']) == (M, N):
            w2 = np.asarray(prm['weights'], dtype=float)
            if np.all(np.isfinite(w2)) and w2.min() > 1e-8:
                F = U.T @ np.diag(w2.ravel()) @ U
                L = A - U.T @ np.diag(w.ravel()) @ U
                A2 = F + L
                dref = np.diag(np.linalg.solve(A2, F)).reshape(kr, kc)
                dtol = 1e4 * eps * np.linalg.cond(A2) + 1e-8
                # the eigenvectors of the d-fold zero eigenvalue are only defined up to a rotation, so the
                # per-eigenvector values are basis independent only outside the null blocks; the total is always
                dof = np.asarray(prm['dof'], dtype=float)
                if dof.shape != (kr, kc):
                    e_d = np.inf
                else:
                    e_d = max(np.abs(dof[d[0]:, d[1]:] - dref[d[0]:, d[1]:]).max(), abs(dof.sum() - dref.sum()) / (kr * kc))
                if not e_d <= dtol:
                    ctx.fail(f'whittaker:dof:{method}', f'{method}: params[\'dof\'] differs from diag((U\'WU+L)^-1 U\'WU) (entries outside the null '
                                                        f'blocks and the total) by {e_d:.3e} (num_eigens=({kr},{kc}))', case_t)
    return worst


LAYOUT_GRIDS = [(7, 9, (2, 1), (3.0, 0.7)), (6, 6, (2, 2), (20.0, 5.0)), (5, 8, (1, 3), (0.5, 40.0))]
WHIT_DIRECT_ONLY = ['iasls', 'drpls', 'aspls']


def call_direct(b, method, y, lam, d, w, num_eigens='absent'):
    kw = dict(lam=lam, diff_order=d, weights=w, max_iter=0)
    if method == 'brpls':
        kw['max_iter_2'] = 0
    if num_eigens != 'absent':
        kw['num_eigens'] = num_eigens
    return quiet(getattr(b, method), y, **kw)[0]


def check_layout(case):
    """Same values, another memory layout of data / weights: the direct (full Kronecker) solution and the
    all-eigenvector solution must both equal the C-contiguous direct solution; that one is anchored to an
    independent dense solve where the method's single solve is the plain system.  Returns (error, tolerance, what)."""
    from pybaselines import Baseline2D
    eps = np.finfo(float).eps
    y, M, N = np.array(case['y'], dtype=float), case['M'], case['N']
    w = None if case['weights'] is None else np.array(case['weights'], dtype=float)
    d, lam, method = tuple(case['diff_order']), tuple(case['lam']), case['method']
    b = Baseline2D(np.arange(M, dtype=float), np.arange(N, dtype=float))
    wref = np.ones((M, N)) if w is None else w
    ref, cond, _ = dense_reference(y, wref, lam, d)
    tol = (1e4 * eps * cond + 1e-9) * np.abs(y).max()
    eig = method in WHIT_EIGEN
    base = call_direct(b, method, y, lam, d, w, *((None,) if eig else ()))
    worst, what = 0.0, ''
    if eig and w is not None:
        e = np.abs(base - ref).max()
        if e > worst:
            worst, what = e, 'C-contiguous direct solve vs the dense Kronecker solve'
    yl = relayout(y, case['layout_y'])
    wl = None if w is None else relayout(w, case['layout_w'])
    y0, w0 = yl.copy(), (None if wl is None else wl.copy())
    got = call_direct(b, method, yl, lam, d, wl, *((None,) if eig else ()))
    e = np.abs(got - base).max() if got.shape == base.shape else np.inf
    if e > worst:
        worst, what = e, f'direct solve with data layout {case["layout_y"]!r} / weights layout {case["layout_w"]!r} vs C-contiguous inputs'
    if eig:
        full = call_direct(b, method, yl, lam, d, wl, (M, N))
        e = np.abs(full - base).max() if full.shape == base.shape else np.inf
        if e > worst:
            worst, what = e, (f'all eigenvectors with data layout {case["layout_y"]!r} / weights layout {case["layout_w"]!r} vs the '
                              f'C-contiguous direct solve')
    if not np.array_equal(yl, y0) or (wl is not None and not np.array_equal(wl, w0)):
        worst, what = np.inf, 'the call modified its inputs'
    return worst, tol, what


def oracle_layouts(ctx, nrng, budget):
    """FIXED enumerated grid (independent of the seed): every 2-D Whittaker method x memory layouts of data and
    of weights (incl. weights=None) on three small grids with x/z that need no sorting."""
    frng = np.random.default_rng(20260)
    worst = 0.0
    grids = LAYOUT_GRIDS if (ctx.tier == 'thorough' or budget > 1) else LAYOUT_GRIDS[:2]
    for (M, N, d, lam) in grids:
        y = gen_surface(frng, M, N)
        wts = frng.uniform(0.1, 1.0, (M, N))
        for method in WHIT_EIGEN + WHIT_DIRECT_ONLY:
            if method in ('iasls', 'drpls') and min(d) < 2:
                continue          # these methods require diff_order >= 2
            pairs = [(ly, lw) for ly in LAYOUTS for lw in LAYOUTS] + [(ly, None) for ly in LAYOUTS]
            if ctx.tier != 'thorough' and budget == 1 and method not in ('asls', 'arpls', 'iasls', 'aspls'):
                # quick: all 36 + 6 combinations for four hosts, the F-type / strided diagonal for the rest
                pairs = [(ly, lw) for ly, lw in pairs if lw is None or ly == lw or 'C' in (ly, lw)]
            for ly, lw in pairs:
                case = {'kind': 'layout', 'method': method, 'M': M, 'N': N, 'diff_order': list(d), 'lam': list(lam),
                        'y': y.tolist(), 'weights': None if lw is None else wts.tolist(), 'layout_y': ly, 'layout_w': lw}
                ctx.case(('layout', method, M, N, d, ly, lw), nontrivial=(ly != 'C' or lw not in ('C', None)),
                         kind=f'oracle:layouts:{method}:data={ly}')
                try:
                    err, tol, what = check_layout(case)
                except Exception as exc:  # noqa
                    ctx.fail(f'layout:{method}:raises', f'{method} (max_iter=0) raised {type(exc).__name__}: {exc} with data layout {ly!r}, '
                                                        f'weights layout {lw!r} on a {M}x{N} grid', case)
                    continue
                worst = max(worst, err / tol)
                if not err <= tol:
                    ctx.fail(f'layout:{method}:data={"C" if ly == "C" else "nonC"}:weights={"C" if lw in ("C", None) else "nonC"}',
                             f'{method} (max_iter=0) on a {M}x{N} grid, diff_order={d}: {what} differ by {err:.3e} (tolerance {tol:.1e}); '
                             f'the same values in another memory layout must give the same full-Kronecker / all-eigenvector solution', case)
    return worst


ITER_GRIDS = [(8, 11, (2, 1), (10.0, 3.0)), (12, 7, (1, 2), (2.0, 30.0)), (9, 9, (2, 3), (50.0, 5.0)), (6, 14, (2, 2), (5.0, 5.0))]


def check_iterations(case):
    """Full run (default tol, max_iter given) of an eigen-capable host with all eigenvectors versus the direct
    branch: baseline, final weights and the whole tol_history (the host-level stop rule is computed from arrays
    that are 1-D on one branch and (M, N) on the other).  Returns (list of discrepancies, skipped?)."""
    from pybaselines import Baseline2D
    y, M, N, method = np.array(case['y'], dtype=float), case['M'], case['N'], case['method']
    kw = dict(lam=tuple(case['lam']), diff_order=tuple(case['diff_order']), max_iter=case['max_iter'])
    b = Baseline2D(np.arange(M, dtype=float), np.arange(N, dtype=float))
    r0, p0 = quiet(getattr(b, method), y, num_eigens=None, **kw)
    r1, p1 = quiet(getattr(b, method), y, num_eigens=(M, N), **kw)
    t0, t1 = np.atleast_1d(p0['tol_history']), np.atleast_1d(p1['tol_history'])
    tol = 1e-3        # the default tol of every host
    if np.any(np.abs(t0 - tol) <= 1e-6 * tol):
        return [], True       # the stop rule is decided by a tie at rounding level: not comparable
    out = []
    if t0.shape != t1.shape and method == 'brpls' and t0.ndim == 2 and t1.ndim == 2:
        # brpls leaves its loops on discrete sign counts (fewer than two negative / positive residuals), which a
        # rounding-level tie can flip in the very last sweep (observed on the unchanged tree: same baseline to 5e-11,
        # one more outer sweep).  Compare everything before the last sweep of the shorter history; the baseline
        # and weights comparisons below still apply in full.
        k = min(t0.shape[0], t1.shape[0])
        c = min(t0.shape[1], t1.shape[1])
        a0 = np.concatenate([t0[0, :max(k - 2, 0)], t0[1:k - 1, :c].ravel()])
        a1 = np.concatenate([t1[0, :max(k - 2, 0)], t1[1:k - 1, :c].ravel()])
        e = np.abs(a0 - a1).max() / max(np.abs(a0).max(), 1e-300) if a0.size else 0.0
        if abs(t0.shape[0] - t1.shape[0]) > 1 or not e <= 1e-6:
            out.append(f'tol_history has shape {t1.shape} with num_eigens=({M},{N}) but {t0.shape} with num_eigens=None and the '
                       f'common part before the last sweep differs by {e:.3e}')
    elif t0.shape != t1.shape:
        out.append(f'tol_history has shape {t1.shape} with num_eigens=({M},{N}) but {t0.shape} with num_eigens=None '
                   f'(the stop rule fires at a different iteration)')
    else:
        e = np.abs(t0 - t1).max() / max(np.abs(t0).max(), 1e-300)
        if not e <= 1e-6:
            out.append(f'tol_history differs by {e:.3e} (relative)')
    e = np.abs(r0 - r1).max() / np.abs(y).max()
    if not e <= 1e-6:
        out.append(f'baseline differs by {e:.3e} of max|y|')
    w0, w1 = np.asarray(p0['weights'], dtype=float), np.asarray(p1['weights'], dtype=float)
    if w0.shape != w1.shape or not np.abs(w0 - w1).max() <= 1e-6 * max(1.0, np.abs(w0).max()):
        out.append('final weights differ' + ('' if w0.shape != w1.shape else f' by {np.abs(w0 - w1).max():.3e}'))
    return out, False


def oracle_iterations(ctx, nrng, budget):
    """FIXED enumerated grid: every eigen-capable host run to its own stop rule (default tol, max_iter=20)."""
    frng = np.random.default_rng(7070)
    nbad = 0
    for (M, N, d, lam) in ITER_GRIDS:
        y = gen_surface(frng, M, N) * 10
        for method in WHIT_EIGEN:
            for max_iter in ((20,) if ctx.tier != 'thorough' and budget == 1 else (20, 5, 50)):
                case = {'kind': 'iter', 'method': method, 'M': M, 'N': N, 'diff_order': list(d), 'lam': list(lam),
                        'max_iter': max_iter, 'y': y.tolist()}
                ctx.case(('iter', method, M, N, d, lam, max_iter), nontrivial=True, kind=f'oracle:full-iteration:{method}')
                try:
                    bad, skipped = check_iterations(case)
                except Exception as exc:  # noqa
                    ctx.fail(f'iteration:{method}:raises', f'{method} (default tol, max_iter={max_iter}) raised {type(exc).__name__}: {exc} on a {M}x{N} grid', case)
                    continue
                if bad:
                    nbad += 1
                    ctx.fail(f'iteration:{method}:eigen-vs-direct',
                             f'{method} (default tol, max_iter={max_iter}) on a {M}x{N} grid, diff_order={d}, lam={lam}: all eigenvectors '
                             f'(num_eigens=({M},{N})) versus the direct solve (num_eigens=None): ' + '; '.join(bad), case)
    return nbad


LONG_GRIDS = [(130, 6, 3), (80, 7, 4), (450, 6, 2), (200, 5, 3)]   # (long side, short side, diff_order of the long axis)


def oracle_long(ctx, nrng, budget):
    """One long axis: the smallest genuine eigenvalues of D'D are ~ (c/N)^(2d) (below sqrt(eps) from
    N = 429 / 127 / 75 for d = 2 / 3 / 4) and must NOT be treated as null.  Tolerances: the LAPACK
    eigenvalues carry an absolute error ~ eps*4^d, which lam multiplies (observed on the unchanged tree
    <= 2.4e-6 relative at lam = 8.5e8, <= 2e-7 for lam <= 1e8; a threshold on the eigenvalue magnitude
    gives >= 4e-4)."""
    from pybaselines import Baseline2D
    eps = np.finfo(float).eps
    worst = 0.0
    reps = ctx.n(1, 3) * budget
    idx = 0
    for rep in range(reps):
        for (L, S, dl) in LONG_GRIDS:
            for long_first in ((True, False) if (L <= 200 or ctx.tier == 'thorough') else (rep % 2 == 0,)):
                idx += 1
                ds = int(nrng.integers(1, 3))
                M, N = (L, S) if long_first else (S, L)
                d = (dl, ds) if long_first else (ds, dl)
                ll, ls = float(10.0 ** nrng.uniform(6, 8)), float(10.0 ** nrng.uniform(0, 2))
                lam = (ll, ls) if long_first else (ls, ll)
                wk = ['random02', 'const0.25', 'const1'][idx % 3]
                w = nrng.uniform(0.2, 1.0, (M, N)) if wk == 'random02' else weight_kinds(nrng, M, N, wk)
                y = gen_surface(nrng, M, N)
                scale = np.abs(y).max()
                method = WHIT_EIGEN[idx % len(WHIT_EIGEN)]
                kl, ks = dl + 1 + int(nrng.integers(0, 6)), min(S, ds + 1 + int(nrng.integers(0, 3)))
                k = (kl, ks) if long_first else (ks, kl)
                b = Baseline2D(np.arange(M, dtype=float), np.arange(N, dtype=float))
                case = {'kind': 'whittaker', 'method': method, 'M': M, 'N': N, 'diff_order': list(d), 'lam': list(lam),
                        'weights': w.tolist(), 'y': y.tolist(), 'num_eigens': list(k), 'long': True}
                ctx.case(('long-trunc', method, M, N, d, lam, k, wk, y.tobytes()), nontrivial=True,
                         kind=f'oracle:long-axis:truncated-vs-galerkin:{L}x{S}:d={dl}')
                try:
                    got, _ = call_method(b, method, y, lam, d, w, k)
                except Exception as exc:  # noqa
                    ctx.fail(f'whittaker:{method}:raises', f'{method} (max_iter=0, num_eigens={k}) raised {type(exc).__name__}: {exc} on a {M}x{N} grid', case)
                    continue
                ref, cond = galerkin_reference(y, w, lam, d, k)
                if ref is not None:
                    tol = (3e-6 + 20 * ll * eps * 4 ** dl + 1e4 * eps * cond) * scale
                    e = np.abs(got - ref).max()
                    worst = max(worst, e / tol)
                    if not e <= tol:
                        ctx.fail(f'whittaker:long-axis:truncated-vs-galerkin:{method}',
                                 f'{method}: num_eigens={k} on a {M}x{N} grid (diff_order={d}, lam=({lam[0]:.3g},{lam[1]:.3g})) differs from the dense '
                                 f'Galerkin solution in the independent (SVD) eigenbasis by {e:.3e} (tolerance {tol:.1e}): the smallest genuine '
                                 f'eigenvalues of the long axis are not the ones the penalty uses', case)
                # all eigenvectors versus the direct solve (feasible up to ~800 points)
                if M * N <= 1000:
                    lamf = (1e6, ls) if long_first else (ls, 1e6)
                    casef = dict(case, lam=list(lamf))
                    casef.pop('num_eigens')
                    ctx.case(('long-full', method, M, N, d, lamf, wk, y.tobytes()), nontrivial=True,
                             kind=f'oracle:long-axis:full-vs-direct:{L}x{S}:d={dl}')
                    try:
                        direct, _ = call_method(b, method, y, lamf, d, w, None)
                        full, _ = call_method(b, method, y, lamf, d, w, (M, N))
                    except Exception as exc:  # noqa
                        ctx.fail(f'whittaker:{method}:raises', f'{method} (max_iter=0) raised {type(exc).__name__}: {exc} on a {M}x{N} grid', casef)
                        continue
                    # |W + P| / min(w) bounds the condition number without a dense (M*N)^2 decomposition
                    cbound = (1.0 + 1e6 * 4 ** dl + ls * 4 ** ds) / w.min()
                    tolf = (3e-6 + 20 * 1e6 * eps * 4 ** dl + 30 * eps * cbound) * scale
                    ef = np.abs(full - direct).max()
                    worst = max(worst, ef / tolf)
                    if not ef <= tolf:
                        ctx.fail(f'whittaker:long-axis:full-eigen-vs-direct:{method}',
                                 f'{method}: num_eigens=({M},{N}) differs from num_eigens=None by {ef:.3e} (tolerance {tolf:.1e}) on a {M}x{N} grid, '
                                 f'diff_order={d}, lam=({lamf[0]:.3g},{lamf[1]:.3g})', casef)
    return worst


def oracle_pspline(ctx, nrng, budget):
    _, su, _ = _mods()
    from pybaselines import Baseline2D
    eps = np.finfo(float).eps
    for k in range(ctx.n(40, 160) * budget):
        M, N = int(nrng.integers(6, 16)), int(nrng.integers(6, 16))
        deg = (int(nrng.integers(0, 4)), int(nrng.integers(0, 4)))
        nk = (int(nrng.integers(3, 8)), int(nrng.integers(3, 8)))
        x = np.sort(nrng.uniform(-1, 1, M)) if k % 2 else np.linspace(-1, 1, M)
        z = np.sort(nrng.uniform(0, 5, N)) if k % 3 == 0 else np.linspace(0, 5, N)
        w = weight_kinds(nrng, M, N, WKINDS[k % len(WKINDS)])
        case = {'kind': 'pspline', 'x': x.tolist(), 'z': z.tolist(), 'num_knots': list(nk), 'spline_degree': list(deg), 'weights': w.tolist()}
        try:
            sb = su.SplineBasis2D(x, z, num_knots=nk, spline_degree=deg)
            F = sb._make_btwb(w)
            F = F.toarray() if hasattr(F, 'toarray') else np.asarray(F)
            Br, Bc = sb.basis_r.toarray(), sb.basis_c.toarray()
        except Exception as exc:  # noqa
            ctx.fail('pspline:btwb:raises', f'SplineBasis2D._make_btwb raised {type(exc).__name__}: {exc}', case)
            continue
        B = np.kron(Br, Bc)
        ref = B.T @ (w.ravel()[:, None] * B)
        ctx.case(('ps-btwb', M, N, deg, nk, x.tobytes(), z.tobytes(), w.tobytes()), nontrivial=(Br.shape[1] != Bc.shape[1]), kind='oracle:pspline-btwb')
        err = np.abs(F - ref).max() if F.shape == ref.shape else np.inf
        if not err <= 1e-9 * max(1.0, np.abs(ref).max()):
            ctx.fail('pspline:btwb', f'SplineBasis2D._make_btwb differs from kron(B_r,B_c)\' diag(w) kron(B_r,B_c) by {err:.3e} '
                                     f'(bases {Br.shape[1]}x{Bc.shape[1]}, grid {M}x{N})', case)
        # pspline_asls, single solve, against the dense documented P-spline system
        d = (int(nrng.integers(1, min(3, Br.shape[1] - 1) + 1)), int(nrng.integers(1, min(3, Bc.shape[1] - 1) + 1)))
        lam = (float(10.0 ** nrng.uniform(-1, 2)), float(10.0 ** nrng.uniform(-1, 2)))
        y = gen_surface(nrng, M, N)
        case2 = dict(case, y=y.tolist(), lam=list(lam), diff_order=list(d))
        try:
            got, _ = quiet(Baseline2D(x, z).pspline_asls, y, lam=lam, num_knots=nk, spline_degree=deg, diff_order=d, weights=w, max_iter=0)
        except Exception as exc:  # noqa
            ctx.fail('pspline:asls:raises', f'pspline_asls (max_iter=0) raised {type(exc).__name__}: {exc}', case2)
            continue
        a, c = Br.shape[1], Bc.shape[1]
        P = lam[0] * np.kron(dpen(a, d[0]), np.eye(c)) + lam[1] * np.kron(np.eye(a), dpen(c, d[1]))
        A = ref + P
        pcond = np.linalg.cond(A)
        if not np.isfinite(pcond) or pcond > 1e11:
            continue
        coef = np.linalg.solve(A, B.T @ (w.ravel() * y.ravel()))
        pref = (B @ coef).reshape(M, N)
        tol = (1e4 * eps * pcond + 1e-9) * np.abs(y).max()
        e = np.abs(got - pref).max()
        ctx.case(('ps-solve', M, N, deg, nk, d, lam, y.tobytes()), nontrivial=True, kind='oracle:pspline-solve')
        if not e <= tol:
            ctx.fail('pspline:solve', f'pspline_asls (max_iter=0) differs from the dense solve of (B\'WB + P) c = B\'W y by {e:.3e} (tolerance {tol:.1e})', case2)


AXES_METHODS = [('asls', {'lam': 50.0, 'max_iter': 3}), ('poly', {'poly_order': 2}), ('modpoly', {'poly_order': 1, 'max_iter': 5}),
                ('pspline_asls', {'lam': 5.0, 'num_knots': 4, 'max_iter': 2}), ('arpls', {'lam': 20.0, 'max_iter': 3}),
                ('mor', {'half_window': 2})]


def ref_individual_axes(x, z, data, axes, method, kwargs):
    """Explicit one-dimensional loops along the requested axes in order."""
    from pybaselines import Baseline
    al = [axes] if isinstance(axes, int) else list(axes)
    kl = kwargs if isinstance(kwargs, list) else [kwargs] * len(al)
    baseline = np.zeros(data.shape)
    parts = {}
    for i, axis in enumerate(al):
        d = data - baseline
        part = np.empty(data.shape)
        if axis == 0:
            for j in range(data.shape[1]):
                part[:, j] = quiet(getattr(Baseline(x), method), d[:, j], **kl[i])[0]
        else:
            for r in range(data.shape[0]):
                part[r, :] = quiet(getattr(Baseline(z), method), d[r, :], **kl[i])[0]
        baseline = baseline + part
        parts[('baseline_rows', 'baseline_columns')[axis]] = part
    return baseline, parts


def axes_case(nrng, k):
    M, N = int(nrng.integers(8, 15)), int(nrng.integers(8, 15))
    xs = np.sort(nrng.uniform(0, 10, M)) if k % 2 else np.linspace(0, 10, M)
    zs = np.sort(nrng.uniform(-3, 3, N)) if k % 3 else np.linspace(-3, 3, N)
    mode = k % 4     # 0: both sorted, 1: x unsorted, 2: z unsorted, 3: both unsorted
    x = xs[rand_perm(nrng, M, 'perm' if mode in (1, 3) else 'sorted')]
    z = zs[rand_perm(nrng, N, 'perm' if mode in (2, 3) else 'sorted')]
    axes = [(0, 1), (1, 0), 0, 1][(k // 4) % 4]
    method, kw = AXES_METHODS[(k // 2) % len(AXES_METHODS)]
    # a smooth surface of the axis VALUES, so that pairing data with wrong axis values matters
    X, Z = np.meshgrid(x, z, indexing='ij')
    data = 2 + 0.3 * X + 0.05 * X ** 2 - 0.4 * Z + 0.2 * Z ** 2 + 3 * np.exp(-((X - 5) ** 2) / 2 - (Z ** 2) / 0.5) \
        + 0.02 * nrng.normal(size=(M, N))
    return x, z, data, axes, method, kw, mode


def check_axes(x, z, data, axes, method, kw):
    from pybaselines import Baseline2D
    got, params = quiet(Baseline2D(x, z).individual_axes, data, axes=axes, method=method, method_kwargs=kw)
    ref, parts = ref_individual_axes(x, z, data, axes, method, kw)
    scale = max(1.0, np.abs(data).max())
    err = np.abs(got - ref).max() / scale
    for key, part in parts.items():
        if key not in params:
            return np.inf, f'params has no {key}'
        err = max(err, np.abs(params[key] - part).max() / scale)
    return err, None


def oracle_axes(ctx, nrng, budget):
    worst = 0.0
    for k in range(ctx.n(96, 480) * budget):
        x, z, data, axes, method, kw, mode = axes_case(nrng, k)
        case = {'kind': 'axes', 'x': x.tolist(), 'z': z.tolist(), 'data': data.tolist(), 'axes': axes if isinstance(axes, int) else list(axes),
                'method': method, 'method_kwargs': kw}
        ctx.case(('o-axes', method, mode, str(axes), x.tobytes(), z.tobytes(), data.tobytes()), nontrivial=mode != 0,
                 kind=f'oracle:individual_axes:{["sorted", "x-unsorted", "z-unsorted", "both-unsorted"][mode]}')
        try:
            err, msg = check_axes(x, z, data, axes, method, kw)
        except Exception as exc:  # noqa
            ctx.fail(f'individual_axes:raises:{method}', f'individual_axes(method={method!r}, axes={axes}) raised {type(exc).__name__}: {exc}', case)
            continue
        worst = max(worst, err)
        if msg or not err <= 1e-8:
            which = ['sorted axes', 'unsorted x', 'unsorted z', 'unsorted x and z'][mode]
            ctx.fail(f'individual_axes:{"sorted" if mode == 0 else "unsorted"}',
                     f'Baseline2D.individual_axes(method={method!r}, axes={axes}) with {which} differs from the explicit 1-D loops along the '
                     f'requested axes by {err:.3e} (relative){"; " + msg if msg else ""}', case)
    return worst


# ---------------------------------------------------------------- driver
def gen_is_current(ctx, ok):
    """coq/gen/GenC20.v is shared state: another process translating a different tree between our translation
    and our build would make the proofs speak about the wrong source.  Re-derive the text from the tree under
    test and compare; rebuild once if it differs."""
    import os
    import sys
    from . import common
    tools = os.path.join(common.VERIF, 'tools')
    if tools not in sys.path:
        sys.path.insert(0, tools)
    ob = 'translate:GenC20-is-the-tree-under-test'
    ctx.obligations.append(ob)
    path = os.path.join(common.COQ, 'gen', 'GenC20.v')
    for attempt in range(2):
        try:
            import gen_c20
            want = gen_c20.gen_c20(common.REPO)
        except Exception as exc:  # noqa
            ctx.broke(ob, f'the generator refuses the tree under test: {type(exc).__name__}: {exc}')
            return False
        have = open(path).read() if os.path.exists(path) else None
        if have == want:
            ctx.discharged.append(ob)
            return ok
        if attempt == 0:
            # discard what was recorded for the stale build and redo translation + build
            names = set(f'theorem:{n}' for n in common.theorems_in(f'props/{ctx.prop}.v'))
            ctx.obligations[:] = [o for o in ctx.obligations if o not in names and o != 'translate:GenC20']
            ctx.discharged[:] = [o for o in ctx.discharged if o not in names and o != 'translate:GenC20']
            ctx.broken[:] = [b for b in ctx.broken if not (b[0].startswith(('C20/', 'props/C20', 'build:', 'translate:GenC20')))]
            ctx.translate(['GenC20'])
            ok = ctx.build_props()
    ctx.broke(ob, 'coq/gen/GenC20.v does not correspond to the tree under test (concurrent translation of another tree?)')
    return False


def run(ctx):
    ctx.rule = ('cases: exact-integer inputs (bases/weights in -3..3, all shapes M,N,a,c in 1..3 plus random up to 6x6x4x4) for '
                '_face_splitting/_make_btwb on both hosts; WhittakerSystem2D built with integer eigen stand-ins (lam in {1,2,3,4,8}, '
                'diff_order 1-3, num_eigens 1..size, square re-use branch forced every 10th case, weights random / uniform 2 or 3 / uniform 1, rhs_extra None and not None); individual_axes with an integer '
                'position-sensitive stand-in method on sorted/permuted integer axes; float oracle on 2-D Whittaker methods with '
                'max_iter=0 (sides from diff_order+2, per-axis lam/diff_order/num_eigens, 9 weight patterns: constant 0.01/0.25/1/7, near-constant 1+-1e-12, random, two-level, zero row+column, row/column structured), P-spline B\'WB and solve, '
                'individual_axes with 6 real methods; full runs (default tol, max_iter 20) of the 7 eigen-capable hosts on 4 fixed grids comparing baseline, weights and tol_history between num_eigens=(M,N) and None; memory layouts (C, Fortran copy, .T view, negative strides, non-contiguous C and F slices) of data and weights: enumerated grid over all 10 2-D Whittaker methods x layouts (incl. weights=None), and rotated through the integer correspondences and the random oracle; distinct = distinct canonical input; non-trivial as flagged per case kind')
    ctx.trusted += [
        'scipy.linalg.eig_banded / eigh_tridiagonal: contract (smallest eigen-pairs of D\'D, orthonormal columns, null eigenvalues ~0) '
        'sampled against numpy.linalg.eigvalsh and dense D\'D; scipy.linalg.solve / spsolve / numpy matmul: not verified',
        'scipy.sparse.kron / .multiply / @ and numpy reshape/transpose/repeat/tile semantics: modelled (C20/Model.v), tied by the exact-integer correspondence',
        'float rounding between the exact identities and the IEEE run: not proved; the float oracle uses conditioning-scaled tolerances only against library solves',
        'the 1-D Baseline methods used by individual_axes: contract (reads positions 0..n-1; assume_sorted irrelevant on sorted axes) is a Section hypothesis',
    ]
    ctx.gate()
    ctx.translate(['GenC20'])
    ok = ctx.build_props()
    ok = gen_is_current(ctx, ok)
    nrng = np.random.default_rng(ctx.rng.getrandbits(32))

    def stage(name, fn, *a):
        try:
            return fn(ctx, nrng, *a)
        except Exception:  # noqa
            ctx.broke(f'harness-exception:{name}', traceback.format_exc()[-1500:])
            return float('nan')
    stage('corr_btwb', corr_btwb)
    stage('corr_system', corr_system)
    stage('corr_axes', corr_axes)
    stage('eigen_contract', eigen_contract)
    budget = 1 if (ok and not ctx.broken) else 3
    w4 = stage('oracle_layouts', oracle_layouts, budget)      # fixed enumerated grids first
    stage('oracle_iterations', oracle_iterations, budget)
    w1 = stage('oracle_whittaker', oracle_whittaker, budget)
    stage('oracle_pspline', oracle_pspline, budget)
    w3 = stage('oracle_long', oracle_long, budget)
    w2 = stage('oracle_axes', oracle_axes, budget)
    ctx.note(f'direct oracle budget x{budget}: largest error/tolerance ratio on Whittaker cases {w1:.2e} (long-axis grids {w3:.2e}, memory-layout grid {w4:.2e}), largest relative individual_axes '
             f'difference {w2:.2e}; not covered: grids other than <=15x15 and the one-long-axis grids 130x6/80x7/450x6/200x5 (and transposes) in the float oracle, iteration beyond the first solve in the random oracles '
             f'(max_iter=0 there on purpose; full runs only on the fixed 4-grid x 7-host table), update_penalty with inexact lam ratios, pspline methods other than pspline_asls, '
             f'rhs_extra / user-supplied penalty arguments of solve')


def replay(rep):
    case = rep.get('case') or {}
    kind = case.get('kind')
    if kind == 'axes':
        kw = case['method_kwargs']
        ax = case['axes'] if isinstance(case['axes'], int) else tuple(case['axes'])
        err, msg = check_axes(np.array(case['x']), np.array(case['z']), np.array(case['data']), ax, case['method'], kw)
        bad = bool(msg) or not err <= 1e-8
        print('replay individual_axes:', f'differs from the explicit 1-D loops by {err:.3e}' if bad else 'property holds on this input')
        return 1 if bad else 0
    if kind == 'iter':
        bad, skipped = check_iterations(case)
        print(f'replay full-iteration {case["method"]}:', '; '.join(bad) if bad else 'property holds on this input')
        return 1 if bad else 0
    if kind == 'layout':
        err, tol, what = check_layout(case)
        bad = not err <= tol
        print(f'replay layout {case["method"]}: {what or "all comparisons"}: difference {err:.3e} (tolerance {tol:.1e})'
              if bad else 'replay layout: property holds on this input')
        return 1 if bad else 0
    if kind == 'whittaker':
        from pybaselines import Baseline2D
        y, w = np.array(case['y']), np.array(case['weights'])
        if 'layout_y' in case:
            y, w = relayout(y, case['layout_y']), relayout(w, case['layout_w'])
        M, N, d, lam, method = case['M'], case['N'], tuple(case['diff_order']), tuple(case['lam']), case['method']
        b = Baseline2D(np.arange(M, dtype=float), np.arange(N, dtype=float))
        eps = np.finfo(float).eps
        direct, _ = call_method(b, method, y, lam, d, w, None)
        if case.get('long') and 'num_eigens' in case:
            ke = tuple(case['num_eigens'])
            got, _ = call_method(b, method, y, lam, d, w, ke)
            ref, cond = galerkin_reference(y, w, lam, d, ke)
            if ref is None:
                print('replay whittaker: reduced system numerically singular, nothing to compare')
                return 0
            dl, ll = (d[0], lam[0]) if M > N else (d[1], lam[1])
            tol = (3e-6 + 20 * ll * eps * 4 ** dl + 1e4 * eps * cond) * np.abs(y).max()
            err = np.abs(got - ref).max()
            print(f'replay whittaker {method} (long axis): difference from the dense Galerkin solution {err:.3e} (tolerance {tol:.1e})')
            return 1 if not err <= tol else 0
        if case.get('long'):
            got, _ = call_method(b, method, y, lam, d, w, (M, N))
            dl, ds = (d[0], d[1]) if M > N else (d[1], d[0])
            cbound = (1.0 + max(lam) * 4 ** dl + min(lam) * 4 ** ds) / w.min()
            tol = (3e-6 + 20 * max(lam) * eps * 4 ** dl + 30 * eps * cbound) * np.abs(y).max()
            err = np.abs(got - direct).max()
            print(f'replay whittaker {method} (long axis): all eigenvectors vs direct solve {err:.3e} (tolerance {tol:.1e})')
            return 1 if not err <= tol else 0
        if 'num_eigens' in case:
            ke = tuple(case['num_eigens'])
            got, _ = call_method(b, method, y, lam, d, w, ke)
            ref, cond, _ = dense_reference(y, w, lam, d, ke)
            if ref is None:
                print('replay whittaker: reduced system numerically singular, nothing to compare')
                return 0
            tol = (1e4 * eps * cond + 1e-8) * np.abs(y).max()
            what = 'dense Galerkin solution'
        else:
            got, _ = call_method(b, method, y, lam, d, w, (M, N))
            ref0, cond, _ = dense_reference(y, w, lam, d)
            ref = direct
            tol = (1e4 * eps * cond + 1e-9) * np.abs(y).max()
            what = 'direct solve'
        err = np.abs(got - ref).max()
        print(f'replay whittaker {method}: difference from the {what} {err:.3e} (tolerance {tol:.1e})')
        return 1 if not err <= tol else 0
    if kind == 'pspline':
        _, su, _ = _mods()
        x, z, w = np.array(case['x']), np.array(case['z']), np.array(case['weights'])
        sb = su.SplineBasis2D(x, z, num_knots=tuple(case['num_knots']), spline_degree=tuple(case['spline_degree']))
        F = sb._make_btwb(w)
        F = F.toarray() if hasattr(F, 'toarray') else np.asarray(F)
        B = np.kron(sb.basis_r.toarray(), sb.basis_c.toarray())
        ref = B.T @ (w.ravel()[:, None] * B)
        err = np.abs(F - ref).max() if F.shape == ref.shape else np.inf
        print(f'replay pspline B\'WB: difference {err:.3e}')
        return 1 if not err <= 1e-9 * max(1.0, np.abs(ref).max()) else 0
    print('replay: nothing concrete to replay; broken obligations were:', rep.get('broken_obligations'))
    return 1
