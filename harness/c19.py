"""C19 -- LOESS gives the same fit whichever internal strategy is used.  DESIGN.md section 4 / C19.

Flow: gate -> build props/C19.v -> correspondence (model evaluated inside Coq against the implementation:
_determine_fits discrete outputs on float and integer x, _fill_skips/_interp_inplace bit-exact, the three
kernel loops through a recording solver bit-exact) -> direct oracle on _determine_fits' specification and
on the real Baseline.loess (strategy equality, compiled vs interpreted worker, delta conventions,
interpolation line, polynomial reproduction)."""
import math
import os
import pickle
import subprocess
import sys
import tempfile
import warnings
from concurrent.futures import ThreadPoolExecutor

import numpy as np

from .common import hexf, zl, zlist, zlist2, VERIF

PROP = 'C19'

HEADER = """From Coq Require Import ZArith List Bool PrimFloat.
From PB Require Import lib.CaseUtil C19.Model C19.Float.
Import ListNotations.
Open Scope Z_scope.
"""


def flist(fs):
    return '[' + '; '.join(hexf(f) for f in fs) + ']'


def fll(rows):
    return '[' + '; '.join(flist(r) for r in rows) + ']'


def mods():
    from pybaselines import polynomial as P, utils as U
    return P, U


def pyf(f):
    return getattr(f, 'py_func', f)


def quiet(fn, *a, **k):
    with warnings.catch_warnings():
        warnings.simplefilter('ignore')
        with np.errstate(all='ignore'):
            return fn(*a, **k)


# ----------------------------------------------------------------------------------------------
# generators
X_KINDS = ['uniform', 'random', 'clustered', 'repeated', 'biggap', 'intgrid', 'geometric']


def gen_x(rng, n, kind):
    """non-decreasing x of length n (strictly increasing except for kind 'repeated')"""
    if n == 1:
        return np.array([float(rng.integers(-3, 4))])
    if kind == 'uniform':
        lo = float(rng.choice([-1.0, 0.0, 3.5, 1000.0]))
        return np.linspace(lo, lo + float(rng.choice([1.0, 2.0, 7.25, 100.0])), n)
    if kind == 'random':
        x = np.sort(rng.uniform(-5, 5, n))
    elif kind == 'clustered':
        centers = np.sort(rng.uniform(0, 100, max(1, n // 6 + 1)))
        x = np.sort(rng.choice(centers, n) + rng.uniform(0, 1e-3, n))
    elif kind == 'repeated':
        return np.sort(rng.integers(0, max(2, n // 2), n)).astype(float)
    elif kind == 'biggap':
        x = np.sort(rng.uniform(0, 1, n))
        x[-1] = x[-2] + (x[-2] - x[0]) * float(rng.choice([1.0, 1.5, 10.0])) + float(rng.choice([0.0, 0.5]))
        if rng.random() < 0.3 and n > 3:
            x[-2] = x[-3] + (x[-1] - x[-3]) * 0.5
    elif kind == 'intgrid':
        x = np.cumsum(rng.integers(1, 5, n)).astype(float)
    else:
        x = np.cumsum(2.0 ** rng.integers(-3, 6, n))
    # strictly increasing (ties from rounding are vanishingly rare; repair them deterministically)
    for i in range(1, n):
        if x[i] <= x[i - 1]:
            x[i] = np.nextafter(x[i - 1], np.inf)
    return x


def gen_delta(rng, x):
    n = len(x)
    span = float(x[-1] - x[0]) if n > 1 else 1.0
    gaps = np.diff(x) if n > 1 else np.array([1.0])
    c = int(rng.integers(0, 12))
    if c == 0:
        return 0.0
    if c == 1:
        return -float(rng.choice([1e-9, 1.0, 1e9]))
    if c == 2:
        return float(min(gaps[gaps > 0].min(), 1.0) * 0.5) if (gaps > 0).any() else 1e-9
    if c == 3:
        return float(np.median(gaps))
    if c == 4:
        return float(rng.choice(gaps))                     # exactly one of the gaps (boundary of `<`)
    if c == 5:
        return float(rng.choice(gaps) * 2)
    if c == 6:
        return span
    if c == 7:
        return span * 2 + 1.0
    if c == 8:
        return float(rng.choice([math.inf, math.nan, 5e-324]))
    if c == 9:
        return 0.01 * span                                  # the driver's default
    return span * float(rng.uniform(0.02, 0.6))


def gen_tp(rng, n):
    c = int(rng.integers(0, 8))
    if c == 0:
        return n
    if c == 1:
        return 1
    if c == 2:
        return max(1, n - 1)
    if c == 3:
        return min(n, 2)
    return int(rng.integers(1, n + 1))


# ----------------------------------------------------------------------------------------------
# the specification of _determine_fits, evaluated directly on implementation outputs (oracle)
def spec_failures(x, n, tp, delta, windows, fits, skips):
    bad = []
    windows = np.asarray(windows).reshape(-1, 2)
    fits = np.asarray(fits).ravel()
    skips = np.asarray(skips).reshape(-1, 2)
    if len(fits) == 0 or fits[0] != 0 or fits[-1] != n - 1:
        bad.append('first-last')
    if np.any(np.diff(fits) <= 0) or np.any(fits < 0) or np.any(fits >= n):
        bad.append('increasing')
    if not (delta > 0) and (len(fits) != n or len(skips) != 0):
        bad.append('delta<=0-all')
    # every skip is (a, b + 1) for consecutive fitted a < b, in order; every pair of consecutive fitted
    # indices that are not adjacent has its skip (a final skip over an empty gap is a harmless no-op)
    allp = [(int(a), int(b) + 1) for a, b in zip(fits[:-1], fits[1:])]
    got = [tuple(int(v) for v in s) for s in skips]
    if any(g not in allp for g in got) or got != sorted(set(got)) or any(p not in got for p in allp if p[1] - 1 - p[0] >= 2):
        bad.append('skips-are-gaps')
    if len(windows) != len(fits):
        bad.append('window-count')
    else:
        if np.any(windows[:, 1] - windows[:, 0] != tp):
            bad.append('window-length')
        if np.any(windows[:, 0] < 0) or np.any(windows[:, 1] > n):
            bad.append('window-bounds')
        if np.any(windows[:, 0] > fits):
            bad.append('window-left-of-point')
        if n > 1 and np.all(np.diff(x) > 0) and np.any(windows[:, 1] <= fits):
            bad.append('window-contains')
        if n > 1 and np.all(np.diff(x) > 0) and not bad and not_nearest(x, n, tp, fits, windows):
            bad.append('window-not-nearest')
    return bad


def spec_determine_fits(x, tp, delta):
    """reference transcription of C19/Model.v `determine_fits` (the specification windows/fits/skips)"""
    n = len(x)
    check = delta > 0
    fits, wins, skips = [0], [(0, tp)], []
    skip_start, skip_range, left, right = 0, x[0] + delta, 0, tp
    for i in range(1, n - 1):
        if check:
            if x[i + 1] < skip_range:
                if skip_start == 0:
                    skip_start = i
                continue
            skip_range = x[i] + delta
            if skip_start:
                skips.append((skip_start - 1, i + 1))
                skip_start = 0
        fits.append(i)
        while right < n and x[i] - x[left] > x[right] - x[i]:
            left += 1
            right += 1
        wins.append((left, right))
    if skip_start:
        fits.append(n - 2)
        if tp == n or x[n - 1] - x[n - 2] < x[n - 2] - x[n - tp]:
            wins.append((n - tp, n))
        else:
            wins.append((n - tp - 1, n - 1))
        skips.append((skip_start - 1, n - 1))
    if n > 1:
        fits.append(n - 1)
        wins.append((n - tp, n))
    return wins, fits, skips


def not_nearest(x, n, tp, fits, windows):
    """fitted points whose window is not a nearest-neighbour window (C19_nearest), the coded exception of the
    second-to-last branch excluded"""
    out = []
    for i, (l, r) in zip(fits, windows):
        i, l, r = int(i), int(l), int(r)
        if not (0 <= l <= i < r <= n):
            continue
        if i == n - 2 and (l, r) == (n - tp - 1, n - 1):
            continue
        if (l > 0 and x[i] - x[l - 1] < x[r - 1] - x[i]) or (r < n and x[r] - x[i] < x[i] - x[l]):
            out.append((i, l, r))
    return out


def df_case_dict(x, tp, delta):
    return {'kind': 'determine_fits', 'x': [float(v) for v in x], 'total_points': int(tp), 'delta': repr(float(delta))}


def run_df(P, x, tp, delta, ctx, tag):
    """compiled _determine_fits (what loess calls) + the interpreted original; spec oracle on both"""
    n = len(x)
    res = quiet(P._determine_fits, x, n, tp, float(delta))
    case = df_case_dict(x, tp, delta)
    for name, r in (('compiled', res),):
        badc = spec_failures(x, n, tp, delta, *r)
        for b in badc:
            ctx.fail(f'fits:{b}', f'_determine_fits ({name}) violates "{b}": N={n} total_points={tp} delta={delta} '
                     f'windows={np.asarray(r[0]).tolist()} fits={np.asarray(r[1]).tolist()} skips={np.asarray(r[2]).tolist()}', case)
    if hasattr(P._determine_fits, 'py_func'):
        try:
            r2 = quiet(P._determine_fits.py_func, x, n, tp, float(delta))
            same = all(np.array_equal(np.asarray(a).reshape(-1), np.asarray(b).reshape(-1)) for a, b in zip(res, r2))
            if not same:
                ctx.fail('fits:compiled-vs-interpreted', f'_determine_fits compiled and interpreted disagree: N={n} total_points={tp} delta={delta}', case)
        except Exception as e:                                  # noqa: BLE001
            ctx.fail('fits:interpreted-raises', f'_determine_fits raises {type(e).__name__} without numba: N={n} total_points={tp} delta={delta}: {e}', case)
    return res


def pairs(a):
    return zlist2(np.asarray(a).reshape(-1, 2).tolist())


def eval_shards(ctx, name, typ, okfn, lits, per=250):
    """bad-count evaluation of literal lists in parallel shards; returns list of failing global indices
    or None when coqc failed"""
    shards = [lits[s:s + per] for s in range(0, len(lits), per)]

    def one(k):
        sh = shards[k]
        body = ';\n'.join('  ' + l for l in sh)
        text = HEADER + f"\nDefinition cases : list {typ} := [\n{body}\n].\nEval vm_compute in (bad {okfn} cases).\n"
        return ctx.coq_eval(f'{name}{k}', text)
    with ThreadPoolExecutor(max_workers=min(8, max(1, len(shards)))) as ex:
        outs = list(ex.map(one, range(len(shards))))
    failing = []
    import re
    for k, vals in enumerate(outs):
        if vals is None:
            return None
        if not vals:
            return None
        m = re.match(r'\((\d+)(?:%nat)?,\s*\[(.*)\]\)', vals[0])
        if not m:
            return None
        if int(m.group(1)) != 0:
            toks = [t for t in m.group(2).split(';') if t.strip()]
            failing += [k * per + int(t.replace('%nat', '')) for t in toks] or [k * per]
    return failing


# ----------------------------------------------------------------------------------------------
def correspondence_fits(ctx):
    P, U = mods()
    rng = np.random.default_rng(ctx.seed * 1000 + 19)
    ncase = ctx.n(700, 6000)
    lits, cases, zl_lits, zcases = [], [], [], []
    for c in range(ncase):
        kind = X_KINDS[c % len(X_KINDS)]
        n = int(rng.choice([1, 2, 3, 4, 5, 6, 7, 9, 12, 17, 25, 40, 60])) if c % 3 else int(rng.integers(1, 14))
        x = gen_x(rng, n, kind)
        tp = gen_tp(rng, n)
        delta = gen_delta(rng, x)
        if kind == 'biggap' and c % 2 == 0:
            tp, delta = n, float(x[-1] - x[0]) * float(rng.choice([0.5, 1.0, 3.0]))     # the f7472e9 corner
        w, f, s = run_df(P, x, tp, delta, ctx, 'corr')
        lits.append(f'({flist(x)}, {tp}, {hexf(delta)}, {pairs(w)}, {zlist(f)}, {pairs(s)})')
        cases.append((x, tp, delta))
        nontriv = n >= 3 and delta > 0 and 1 < len(f) < n
        ctx.case(('df', kind, n, tp, repr(delta), x.tobytes()), nontrivial=nontriv or (n >= 3 and c % 5 == 0),
                 kind=f'fits:{kind}:{"skip" if nontriv else "all"}')
        if kind in ('repeated', 'intgrid') or c % 7 == 0:
            # the same through the integer instance Num_Z (the instance the order theorems are about)
            xi = np.round(x * (1 if kind in ('repeated', 'intgrid') else 8)).astype(np.int64)
            xi = np.sort(xi)
            di = int(rng.choice([0, -2, 1, 2, 3, 5, 17, int(xi[-1] - xi[0]) + 1, 10 ** 6]))
            wz, fz, sz = run_df(P, xi.astype(float), tp, float(di), ctx, 'corrz')
            zl_lits.append(f'({zlist(xi.tolist())}, {tp}, {zl(di)}, {pairs(wz)}, {zlist(fz)}, {pairs(sz)})')
            zcases.append((xi.astype(float), tp, float(di)))
            ctx.case(('dz', n, tp, di, xi.tobytes()), nontrivial=n >= 3, kind='fits:integer-instance')
    ctx.sample({'kind': 'determine_fits-case', 'coq_literal': lits[min(5, len(lits) - 1)][:400]})
    for ob, name, typ, okfn, ll, cs in (
            ('correspondence:_determine_fits(Num_F model = implementation, windows/fits/skips exact)', 'df', 'df_case', 'df_ok', lits, cases),
            ('correspondence:_determine_fits(Num_Z model = implementation on integer x)', 'dz', 'dz_case', 'dz_ok', zl_lits, zcases)):
        ctx.obligations.append(ob)
        failing = eval_shards(ctx, name, typ, okfn, ll)
        if failing is None:
            ctx.broke(ob, 'coqc evaluation of the generated cases failed')
        elif failing:
            x, tp, delta = cs[failing[0]]
            ctx.broke(ob, f'{len(failing)} case(s) differ, first: x={x.tolist()} total_points={tp} delta={delta}')
            for i in failing[:3]:
                x, tp, delta = cs[i]
                # a model mismatch is not by itself a property violation: the spec oracle (run_df) decides
                ctx.note(f'model mismatch determine_fits N={len(x)} tp={tp} delta={delta} x={x.tolist()}')
        else:
            ctx.discharged.append(ob)


def correspondence_fill(ctx):
    P, U = mods()
    rng = np.random.default_rng(ctx.seed * 1000 + 191)
    lits, ip = [], []
    ncase = ctx.n(160, 1500)
    for c in range(ncase):
        kind = [k for k in X_KINDS if k != 'repeated'][c % (len(X_KINDS) - 1)]
        n = int(rng.integers(3, 40))
        x = gen_x(rng, n, kind)
        delta = float((x[-1] - x[0]) * rng.uniform(0.05, 1.2))
        w, f, s = quiet(P._determine_fits, x, n, gen_tp(rng, n), delta)
        xs = np.polynomial.polyutils.mapdomain(x, np.array([x[0], x[-1]]), np.array([-1., 1.]))
        b0 = rng.normal(0, 1, n) * 10.0 ** rng.integers(-3, 4)
        b1 = b0.copy()
        quiet(P._fill_skips, xs, b1, s)
        lits.append(f'({flist(xs)}, {flist(b0)}, {pairs(s)}, {flist(b1)})')
        ctx.case(('fill', n, x.tobytes(), b0.tobytes(), delta), nontrivial=len(s) > 0, kind='fill_skips')
        if hasattr(P._fill_skips, 'py_func'):
            b2 = b0.copy()
            # interpreted original of the same two functions
            for l, r in np.asarray(s).reshape(-1, 2):
                pyf(U._interp_inplace)(xs[l:r], b2[l:r], b2[l], b2[r - 1])
            if b2.tobytes() != b1.tobytes():
                ctx.fail('fill:compiled-vs-interpreted', '_fill_skips compiled and interpreted differ bitwise',
                         {'kind': 'fill', 'x': xs.tolist(), 'baseline': b0.tolist(), 'skips': np.asarray(s).tolist()})
        m = int(rng.integers(2, 12))
        xx = gen_x(rng, m, kind)
        yy = rng.normal(0, 1, m)
        a, b = float(rng.normal()), float(rng.normal())
        out = quiet(U._interp_inplace, xx, yy.copy(), a, b)
        ip.append(f'({flist(xx)}, {flist(yy)}, {hexf(a)}, {hexf(b)}, {flist(out)})')
        ctx.case(('interp', m, xx.tobytes(), yy.tobytes(), a, b), nontrivial=m > 2, kind='interp_inplace')
    for ob, name, typ, okfn, ll in (
            ('correspondence:_fill_skips(bit-exact, PrimFloat)', 'fs', 'fs_case', 'fs_ok', lits),
            ('correspondence:_interp_inplace(bit-exact, PrimFloat)', 'ip', 'ip_case', 'ip_ok', ip)):
        ctx.obligations.append(ob)
        failing = eval_shards(ctx, name, typ, okfn, ll)
        if failing is None:
            ctx.broke(ob, 'coqc evaluation of the generated cases failed')
        elif failing:
            ctx.broke(ob, f'{len(failing)} case(s) differ bit-for-bit, first literal: {ll[failing[0]][:600]}')
        else:
            ctx.discharged.append(ob)


def correspondence_kernels(ctx):
    """The three loop kernels (interpreted originals) with _loess_solver replaced by a recorder that
    returns a token: arguments of every solver call compared bit-for-bit with the model's local_fit
    arguments; the token shows at which x-index each result was stored."""
    P, U = mods()
    rng = np.random.default_rng(ctx.seed * 1000 + 192)
    ob = 'correspondence:kernel-loops(local_fit arguments bit-exact; cache rows; result slots)'
    ctx.obligations.append(ob)
    lits, metas = [], []
    ncase = ctx.n(90, 700)
    orig = P._loess_solver
    calls = []

    def recorder(AT, b):
        calls.append((np.array(AT, dtype=float), np.array(b, dtype=float)))
        coef = np.zeros(AT.shape[0])
        coef[0] = len(calls)
        return coef
    slot_bad = None
    try:
        P._loess_solver = recorder
        for c in range(ncase):
            kind = [k for k in X_KINDS if k != 'repeated'][c % (len(X_KINDS) - 1)]
            n = int(rng.integers(2, 13))
            p = int(rng.integers(0, 3))
            tp = int(rng.integers(1, n + 1))
            xr = gen_x(rng, n, kind)
            delta = float(rng.choice([0.0, (xr[-1] - xr[0]) * rng.uniform(0.05, 1.5)]))
            w, f, s = quiet(P._determine_fits, xr, n, tp, delta)
            x = np.polynomial.polyutils.mapdomain(xr, np.array([xr[0], xr[-1]]), np.array([-1., 1.]))
            y = rng.normal(0, 1, n)
            sw = np.sqrt(rng.uniform(0.01, 1, n))
            vander = np.ascontiguousarray(np.polynomial.polynomial.polyvander(x, p))
            res = {}
            for mode in ('low', 'first', 'cached'):
                calls.clear()
                coefs = np.zeros((n, p + 1))
                if mode == 'low':
                    base = quiet(pyf(P._loess_low_memory), x, y, sw, coefs, vander, n, w, f)
                elif mode == 'first':
                    kernels, base = quiet(pyf(P._loess_first_loop), x, y, sw, coefs, vander, tp, n, w, f)
                else:
                    base = quiet(pyf(P._loess_nonfirst_loops), y, sw, coefs, vander, kernels, w, n, f)
                res[mode] = list(calls)
                # results stored at x-index fits[idx] (token idx + 1), nothing else touched
                exp = np.zeros(n)
                exp[np.asarray(f)] = np.arange(1, len(f) + 1)
                if len(calls) != len(f) or not np.array_equal(coefs[:, 0], exp) or not np.array_equal(base[np.asarray(f)], exp[np.asarray(f)]):
                    slot_bad = slot_bad or (mode, n, tp, delta, xr.tolist())

            def clit(cl):
                return '[' + '; '.join(f'({fll(a)}, {flist(b)})' for a, b in cl) + ']'
            rows = [kernels[i] for i in np.asarray(f)]
            lits.append(f'({flist(x)}, {flist(y)}, {flist(sw)}, {fll(vander)}, {p + 1}%nat, {pairs(w)}, {zlist(f)}, '
                        f'{clit(res["low"])}, {clit(res["first"])}, {clit(res["cached"])}, {fll(rows)})')
            metas.append((n, p, tp, delta))
            ctx.case(('kern', n, p, tp, delta, x.tobytes(), y.tobytes()), nontrivial=len(f) < n, kind=f'kernels:{"skip" if len(f) < n else "all"}')
            ctx.traces += 3
    finally:
        P._loess_solver = orig
    if slot_bad:
        ctx.broke(ob, f'a kernel loop stored results at other indices than fits[idx]: {slot_bad}')
    failing = eval_shards(ctx, 'kl', 'kl_case', 'kl_ok', lits, per=30)
    if failing is None:
        ctx.broke(ob, 'coqc evaluation of the generated cases failed')
    elif failing:
        ctx.broke(ob, f'{len(failing)} case(s): solver arguments / cached kernels differ from the model, first (N, poly_order, total_points, delta) = {metas[failing[0]]}')
    elif not slot_bad:
        ctx.discharged.append(ob)


# ----------------------------------------------------------------------------------------------
# oracle on the real loess
def gen_y(rng, x, kind):
    n = len(x)
    t = (x - x[0]) / (x[-1] - x[0]) if n > 1 and x[-1] > x[0] else np.zeros(n)
    base = 3 + 2 * t - 4 * t * t
    if kind == 'peaks':
        y = base + sum(rng.uniform(2, 20) * np.exp(-0.5 * ((t - rng.uniform(0, 1)) / rng.uniform(0.01, 0.1)) ** 2) for _ in range(3))
        return y + rng.normal(0, 0.05, n)
    if kind == 'noise':
        return rng.normal(0, 1, n)
    if kind == 'big':
        return (base + rng.normal(0, 0.1, n)) * 1e6
    return base + rng.normal(0, 0.02, n)


def gen_configs(seed, count):
    rng = np.random.default_rng(seed)
    cfgs = []
    for c in range(count):
        kind = [k for k in X_KINDS if k != 'repeated'][c % (len(X_KINDS) - 1)]
        n = int(rng.choice([4, 5, 7, 10, 16, 30, 55, 120]))
        if c % 11 == 0:
            n = int(rng.integers(1, 5))
        x = gen_x(rng, n, kind)
        p = int(rng.choice([0, 1, 1, 2, 2, 3]))
        p = min(p, n - 1)
        lo = min(n, p + 1)
        # total_points = poly_order + 1 is always singular (the tricube weight of the farthest point is 0): keep it rare
        lo2 = min(n, p + 2)
        tp = int(rng.choice([lo, lo2, min(n, p + 3), min(n, p + 3), n, n, int(rng.integers(lo2, n + 1)), int(rng.integers(lo2, n + 1)),
                             max(lo2, math.ceil(0.2 * n)), max(lo2, math.ceil(0.5 * n))]))
        span = float(x[-1] - x[0]) if n > 1 else 1.0
        dsel = int(rng.integers(0, 8))
        delta = [None, 0, -1.0, 0.03 * span, 0.2 * span, span, 2 * span + 1, float(np.median(np.diff(x))) if n > 1 else 1.0][dsel]
        kw = dict(total_points=tp, poly_order=p, max_iter=int(rng.integers(0, 11)), delta=delta,
                  symmetric_weights=bool(rng.integers(0, 2)), tol=float(rng.choice([1e-3, 1e-12, 0.0])),
                  scale=float(rng.choice([3.0, 1.5, 4.05])))
        if rng.random() < 0.35:
            kw.update(use_threshold=True, num_std=float(rng.choice([1.0, 0.5, 2.0])), use_original=bool(rng.integers(0, 2)))
        if rng.random() < 0.3:
            kw['weights'] = rng.uniform(0.05, 1, n)
        y = gen_y(rng, x, ['smooth', 'peaks', 'noise', 'big'][int(rng.integers(0, 4))])
        cfgs.append({'x': x, 'y': y, 'kw': kw})
    return cfgs


def run_loess(x, y, kw, conserve):
    from pybaselines import Baseline
    try:
        with warnings.catch_warnings():
            warnings.simplefilter('ignore')
            with np.errstate(all='ignore'):
                b, p = Baseline(x).loess(y, conserve_memory=conserve, return_coef=True, **kw)
        return ('ok', np.asarray(b, dtype=float), np.asarray(p['weights'], dtype=float), np.asarray(p['coef'], dtype=float),
                np.asarray(p['tol_history'], dtype=float))
    except Exception as e:                                      # noqa: BLE001
        return ('exc', type(e).__name__, str(e)[:200])


def same_bits(a, b):
    if a[0] != b[0]:
        return False
    if a[0] == 'exc':
        return a[1] == b[1]
    return all(u.shape == v.shape and u.tobytes() == v.tobytes() for u, v in zip(a[1:], b[1:]))


def max_ulp(a, b):
    out = 0.0
    for u, v in zip(a[1:], b[1:]):
        if u.shape != v.shape:
            return math.inf
        nan = np.isnan(u) | np.isnan(v)
        if np.any(np.isnan(u) != np.isnan(v)):
            return math.inf
        if u.size and (~nan).any():
            uu, vv = u[~nan], v[~nan]
            scale = np.spacing(np.maximum(np.max(np.abs(uu)), np.max(np.abs(vv))))     # array-scale ulps
            with np.errstate(all='ignore'):
                d = np.abs(uu - vv) / scale
            d = d[np.isfinite(uu) & np.isfinite(vv)]
            if d.size:
                out = max(out, float(np.max(d)))
    return out


def cfg_case(cfg, extra=None):
    kw = {k: (v.tolist() if isinstance(v, np.ndarray) else v) for k, v in cfg['kw'].items()}
    d = {'kind': 'loess', 'x': cfg['x'].tolist(), 'y': cfg['y'].tolist(), 'kw': kw}
    if extra:
        d.update(extra)
    return d


def key_of(kw):
    return ('threshold' if kw.get('use_threshold') else ('symmetric' if kw.get('symmetric_weights') else 'asymmetric')) + \
        (':delta>0' if (kw.get('delta') is None or kw.get('delta') > 0) else ':delta<=0')


def worker_results(cfgs, disable_jit):
    """runs the configurations in a fresh interpreter (NUMBA_DISABLE_JIT=1: the interpreted originals)"""
    with tempfile.TemporaryDirectory() as td:
        fin, fout = os.path.join(td, 'in.pkl'), os.path.join(td, 'out.pkl')
        with open(fin, 'wb') as f:
            pickle.dump(cfgs, f)
        env = dict(os.environ)
        if disable_jit:
            env['NUMBA_DISABLE_JIT'] = '1'
        p = subprocess.run([sys.executable, '-m', 'harness.c19', 'worker', fin, fout], cwd=VERIF, env=env,
                           stdout=subprocess.PIPE, stderr=subprocess.STDOUT, text=True, timeout=900)
        if p.returncode or not os.path.exists(fout):
            return None, p.stdout[-800:]
        with open(fout, 'rb') as f:
            return pickle.load(f), ''


def oracle_loess(ctx, budget):
    P, U = mods()
    count = ctx.n(110, 900) * budget
    cfgs = gen_configs(ctx.seed * 1000 + 193, count)
    results = []
    for cfg in cfgs:
        x, y, kw = cfg['x'], cfg['y'], cfg['kw']
        n = len(x)
        rt = run_loess(x, y, kw, True)
        rf = run_loess(x, y, kw, False)
        results.append((rt, rf))
        delta = kw['delta']
        nontriv = rt[0] == 'ok' and len(rt[4]) >= 2 and n >= 4
        ctx.case(('loess', n, repr(sorted((k, repr(v)) for k, v in kw.items() if k != 'weights')), x.tobytes(), y.tobytes()),
                 nontrivial=nontriv, kind=f'loess:{key_of(kw)}:iters={min(len(rt[4]), 3) if rt[0] == "ok" else "exc"}')
        if not same_bits(rt, rf):
            what = 'conserve_memory=True and False give different results (baseline/weights/coef/tol_history compared bitwise)'
            if rt[0] == 'ok' and rf[0] == 'ok':
                what += f'; max difference {max_ulp(rt, rf):.3g} array-ulps'
            else:
                what += f'; outcomes {rt[:2] if rt[0] == "exc" else "ok"} vs {rf[:2] if rf[0] == "exc" else "ok"}'
            ctx.fail(f'memory:{key_of(kw)}', what, cfg_case(cfg))
        if rt[0] != 'ok':
            continue
        base, coef = rt[1], rt[3]
        dl = 0.01 * (x[-1] - x[0]) if delta is None else float(delta)
        w, f, s = quiet(P._determine_fits, x, n, kw['total_points'], float(dl))
        f = np.asarray(f)
        # delta <= 0: every point fitted; identical to any other non-positive delta and to a positive delta
        # below the smallest gap
        if not (dl > 0) and n > 1:
            for alt in (0, -3.5, float(np.min(np.diff(x))) * 0.5):
                if alt == delta:
                    continue
                ra = run_loess(x, y, dict(kw, delta=alt), True)
                if not same_bits(rt, ra):
                    ctx.fail('delta:nonpositive-fits-all', f'delta={delta} and delta={alt} (no point can be skipped) give different results',
                             cfg_case(cfg, {'alt_delta': alt}))
            if np.any(np.all(coef == 0, axis=1)) and np.all(np.isfinite(coef)) and kw['poly_order'] == 0 and np.all(base != 0):
                ctx.fail('delta:nonpositive-unfitted-row', 'delta <= 0 but a coefficient row is all zero (point not fitted)', cfg_case(cfg))
        # skipped points: on the straight line between the neighbouring fitted points (scaled x as in the code)
        if len(f) < n and np.all(np.isfinite(base)):
            xs = np.polynomial.polyutils.mapdomain(x, np.array([x.min(), x.max()]), np.array([-1., 1.]))
            worst = 0.0
            for a, b in zip(f[:-1], f[1:]):
                if b - a < 2:
                    continue
                j = np.arange(a + 1, b)
                line = base[a] + (xs[j] - xs[a]) * ((base[b] - base[a]) / (xs[b] - xs[a]))
                tol = 8 * np.spacing(max(abs(base[a]), abs(base[b]), 1e-300))
                worst = max(worst, float(np.max(np.abs(base[j] - line)) / tol))
                if np.any(coef[j] != 0):
                    ctx.fail('skips:coef-not-zero', 'coefficients of a skipped point are not all zero (documented as 0)', cfg_case(cfg))
            if worst > 1:
                ctx.fail('skips:straight-line', f'a skipped point is off the straight line between its fitted neighbours by {worst * 8:.3g} ulp', cfg_case(cfg))
    # compiled kernels vs the interpreted originals in a NUMBA_DISABLE_JIT=1 worker: single pass (max_iter=0),
    # so that the comparison is not amplified by the data-dependent conditioning of later reweighted passes
    ob = 'oracle:compiled-vs-interpreted-worker'
    # fixed witness of the recorded finding (total_points = 1: the tricube kernel is 0/0)
    sub = [{'x': np.arange(5.0), 'y': np.array([1.0, 2.0, 1.0, 3.0, 2.0]), 'cond': math.inf,
            'kw': dict(total_points=1, poly_order=0, max_iter=0, delta=0.0)}]
    for cfg in cfgs[:ctx.n(60, 500) * budget]:
        kw = cfg['kw']
        if kw['total_points'] == 1:
            sub.append({'x': cfg['x'], 'y': cfg['y'], 'kw': dict(kw, max_iter=0), 'cond': math.inf})
        elif well_conditioned(cfg):
            kw0 = dict(kw, max_iter=0)
            kw0.pop('weights', None)
            cond = local_cond(P, cfg['x'], kw['total_points'], kw['poly_order'], kw['delta'])
            if cond <= 1e8:
                sub.append({'x': cfg['x'], 'y': cfg['y'], 'kw': kw0, 'cond': cond})
    wres, err = worker_results(sub, True)
    if wres is None:
        ctx.note(f'interpreted worker did not run: {err}')
        ctx.broke(ob, f'worker failed: {err}')
    else:
        worst = 0.0
        for cfg, wr in zip(sub, wres):
            kw = cfg['kw']
            for strat, there in (('conserve', wr[0]), ('cached', wr[1])):
                here = run_loess(cfg['x'], cfg['y'], kw, strat == 'conserve')
                ctx.case(('jit', strat, cfg['x'].tobytes(), cfg['y'].tobytes(), kw['total_points'], kw['poly_order']),
                         nontrivial=here[0] == 'ok', kind='loess:compiled-vs-interpreted')
                if here[0] != there[0] or (here[0] == 'exc' and here[1] != there[1]):
                    key = 'numba:outcome:total_points=1' if kw['total_points'] == 1 else f'numba:outcome:{key_of(kw)}'
                    ctx.fail(key, f'total_points={kw["total_points"]} poly_order={kw["poly_order"]}: with the compiled kernels loess '
                             f'{"raises " + here[1] + " (" + here[2] + ")" if here[0] == "exc" else "returns"}; with NUMBA_DISABLE_JIT=1 it '
                             f'{"raises " + there[1] if there[0] == "exc" else "returns" + (" an all-NaN baseline" if np.all(np.isnan(there[1])) else "")}',
                             cfg_case(cfg, {'strategy': strat}))
                elif here[0] == 'ok' and kw['total_points'] > 1:
                    u = max(max_ulp(('ok', here[1]), ('ok', there[1])), max_ulp(('ok', here[3]), ('ok', there[3])) / 100)
                    u = u / max(1.0, cfg['cond'])
                    worst = max(worst, u) if math.isfinite(u) else worst
                    if u > ULP_BUDGET:
                        ctx.fail(f'numba:values:{key_of(kw)}', f'compiled and interpreted (NUMBA_DISABLE_JIT=1) single-pass results differ by {u:.3g} array-ulps x condition number {cfg["cond"]:.3g}', cfg_case(cfg, {'strategy': strat}))
        ctx.extra['compiled_vs_interpreted_max_array_ulps_per_condition_number'] = worst
    return results


ULP_BUDGET = 2e3     # array-scale ulps per unit of condition number of the local normal matrices (coefficients 100x)


def local_cond(P, x, tp, p, delta, weights=None):
    """largest condition number of the kernel-weighted local normal matrices (unit data weights), computed
    independently of the kernels under test"""
    n = len(x)
    dl = 0.01 * (x[-1] - x[0]) if delta is None else float(delta)
    w, f, s = quiet(P._determine_fits, x, n, tp, float(dl))
    xs = np.polynomial.polyutils.mapdomain(x, np.array([x[0], x[-1]]), np.array([-1., 1.]))
    V = np.polynomial.polynomial.polyvander(xs, p)
    cond = 1.0
    with np.errstate(all='ignore'):
        for i, (l, r) in zip(np.asarray(f), np.asarray(w).reshape(-1, 2)):
            if not (0 <= l < r <= n):
                return math.inf
            d = np.abs(xs[l:r] - xs[i])
            d = d / max(d[0], d[-1])
            k = np.sqrt((1 - d ** 3) ** 3)
            if weights is not None:
                k = k * np.sqrt(weights[l:r])
            A = (k[:, None] * V[l:r])
            c = np.linalg.cond(A.T @ A)
            cond = max(cond, c if np.isfinite(c) else math.inf)
    return cond


def well_conditioned(cfg):
    """compiled-vs-interpreted values are compared only where the local systems are far from singular:
    total_points >= poly_order + 3 and poly_order <= 2 (normal equations square the condition number)"""
    kw = cfg['kw']
    return kw['poly_order'] <= 2 and kw['total_points'] >= kw['poly_order'] + 3


def oracle_poly(ctx, budget):
    """data exactly on a polynomial of degree <= poly_order: reproduced at every fitted point (tolerance from
    the condition number of the local normal matrices, computed independently here)"""
    P, U = mods()
    rng = np.random.default_rng(ctx.seed * 1000 + 194)
    for c in range(ctx.n(60, 500) * budget):
        kind = ['uniform', 'random', 'intgrid', 'geometric'][c % 4]
        n = int(rng.choice([6, 9, 15, 30, 60]))
        x = gen_x(rng, n, kind)
        p = int(rng.integers(0, 3))
        tp = int(rng.integers(p + 3, n + 1))
        xs = np.polynomial.polyutils.mapdomain(x, np.array([x[0], x[-1]]), np.array([-1., 1.]))
        cs = rng.integers(-4, 5, p + 1).astype(float)
        y = np.polynomial.polynomial.polyval(xs, cs)
        delta = float(rng.choice([0.0, 0.1, 0.3])) * float(x[-1] - x[0])
        kw = dict(total_points=tp, poly_order=p, max_iter=0, delta=delta)
        w, f, s = quiet(P._determine_fits, x, n, tp, delta)
        cond = local_cond(P, x, tp, p, delta)
        ctx.case(('poly', n, p, tp, delta, x.tobytes(), cs.tobytes()), nontrivial=p >= 1, kind=f'poly-exact:p={p}')
        if not np.isfinite(cond) or cond > 1e10:
            continue
        for cm in (True, False):
            r = run_loess(x, y, kw, cm)
            if r[0] != 'ok':
                ctx.fail('poly:raises', f'loess raises {r[1]} on exact polynomial data (cond {cond:.3g})', cfg_case({'x': x, 'y': y, 'kw': kw}))
                continue
            tol = 64 * np.finfo(float).eps * cond * max(1.0, np.max(np.abs(y)), np.sum(np.abs(cs)))
            err = np.max(np.abs(r[1][np.asarray(f)] - y[np.asarray(f)]))
            if not err <= tol:
                ctx.fail('poly:not-reproduced', f'polynomial data of degree {p} not reproduced at fitted points: error {err:.3g} > {tol:.3g} (cond {cond:.3g})',
                         cfg_case({'x': x, 'y': y, 'kw': kw}))


def oracle_fits(ctx, budget):
    """spec of _determine_fits on larger inputs than the Coq-side cases"""
    P, U = mods()
    rng = np.random.default_rng(ctx.seed * 1000 + 195)
    for c in range(ctx.n(400, 4000) * budget):
        kind = X_KINDS[c % len(X_KINDS)]
        n = int(rng.choice([1, 2, 3, 4, 5, 8, 20, 100, 400, 1500]))
        x = gen_x(rng, n, kind)
        tp = gen_tp(rng, n)
        delta = gen_delta(rng, x)
        if kind == 'biggap' and c % 2 == 0:
            tp, delta = n, float(x[-1] - x[0]) * float(rng.choice([0.5, 1.0, 3.0]))
        w, f, s = run_df(P, x, tp, delta, ctx, 'oracle')
        ctx.case(('dfo', kind, n, tp, repr(delta), x.tobytes()), nontrivial=n >= 3 and 1 < len(f), kind=f'fits-oracle:{kind}')


def brute_worst(x, y, kw, conserve, cond):
    """largest |loess value - brute-force lstsq fit through the specified window| / tolerance over the fitted points"""
    tp, p, delta = kw['total_points'], kw['poly_order'], kw['delta']
    wins, fits, skips = spec_determine_fits(x, tp, delta)
    xs = np.polynomial.polyutils.mapdomain(x, np.array([x[0], x[-1]]), np.array([-1., 1.]))
    V = np.polynomial.polynomial.polyvander(xs, p)
    r = run_loess(x, y, kw, conserve)
    if r[0] != 'ok':
        return None
    worst = 0.0
    for i, (l, rr) in zip(fits, wins):
        d = np.abs(xs[l:rr] - xs[i])
        d = d / max(d[0], d[-1])
        k = np.sqrt((1 - d ** 3) ** 3)
        if kw.get('weights') is not None:
            k = k * np.sqrt(kw['weights'][l:rr])
        k = k / (np.max(k) or 1.0)          # the least-squares solution does not depend on a common factor
        coef = np.linalg.lstsq(k[:, None] * V[l:rr], k * y[l:rr], rcond=None)[0]
        ref = float(V[i] @ coef)
        tol = 256 * np.finfo(float).eps * cond * (float(np.max(np.abs(y))) or 1.0)
        worst = max(worst, abs(r[1][i] - ref) / tol)
    return worst


def oracle_bruteforce(ctx, budget):
    """single-pass loess value at every fitted point = brute-force weighted least squares (lstsq, no normal
    equations) through the window the SPECIFICATION (C19/Model.v, transcribed above) assigns to that point; a change
    that picks other windows gives a concrete failing loess input here"""
    P, U = mods()
    rng = np.random.default_rng(ctx.seed * 1000 + 196)
    for c in range(ctx.n(90, 700) * budget):
        kind = ['uniform', 'random', 'intgrid', 'geometric', 'biggap'][c % 5]
        n = int(rng.choice([4, 5, 6, 8, 12, 20, 40]))
        x = gen_x(rng, n, kind)
        p = int(rng.integers(0, 3))
        if p + 3 > n:
            p = 0
        tp = int(rng.integers(p + 3, n + 1)) if c % 3 else min(n, p + 3)
        span = float(x[-1] - x[0])
        delta = float(rng.choice([0.0, 0.15, 0.4, 1.0, 3.0])) * span
        if kind == 'biggap' and c % 2:
            delta = 2 * span          # forces the second-to-last branch
        y = gen_y(rng, x, ['smooth', 'peaks', 'noise'][c % 3])
        cond = local_cond(P, x, tp, p, delta)
        wins, fits, skips = spec_determine_fits(x, tp, delta)
        ctx.case(('brute', n, p, tp, delta, x.tobytes(), y.tobytes()), nontrivial=len(fits) < n, kind=f'bruteforce:{kind}')
        if not np.isfinite(cond) or cond > 1e8:
            continue
        kw = dict(total_points=tp, poly_order=p, max_iter=0, delta=delta)
        worst = brute_worst(x, y, kw, bool(c % 2), cond)
        if worst is None:
            ctx.fail('brute:raises', f'loess raises on a well-conditioned configuration (cond {cond:.3g})', cfg_case({'x': x, 'y': y, 'kw': kw}))
            continue
        ctx.extra['bruteforce_max_difference_over_tolerance'] = max(ctx.extra.get('bruteforce_max_difference_over_tolerance', 0.0), worst)
        if worst > 1:
            ctx.fail('brute:fitted-value', f'a fitted value differs from the brute-force local fit through the specified window by {worst:.3g} x tolerance '
                     f'(N={n} total_points={tp} poly_order={p} delta={delta})', cfg_case({'x': x, 'y': y, 'kw': kw}))


def observation_second_last(ctx):
    """C19_nearest_second_last_refuted replayed on the implementation (an observation, not a finding)"""
    P, U = mods()
    x = np.array([0.0, 5.0, 10.0, 11.0])
    w, f, s = quiet(P._determine_fits, x, 4, 2, 100.0)
    pick = [tuple(int(v) for v in ww) for ii, ww in zip(np.asarray(f), np.asarray(w).reshape(-1, 2)) if ii == 2]
    ctx.extra['observation_second_last_nonnearest_window'] = {
        'x': x.tolist(), 'total_points': 2, 'delta': 100.0, 'window_of_point_2': pick,
        'reproduces': pick == [(1, 3)],
        'meaning': 'point x=10 is fitted on {5, 10} although 11 is strictly closer than 5 (second-to-last branch compares with x[N-tp] instead of x[N-tp-1])'}
    ctx.note('observation (not a finding): second-to-last branch picks the non-nearest window (1,3) for x=[0,5,10,11], total_points=2, delta=100: '
             + ('reproduces on the implementation' if pick == [(1, 3)] else f'NO LONGER reproduces (implementation picks {pick})'))


# ----------------------------------------------------------------------------------------------
# call HISTORIES on one fitter object
def gen_history(rng, kind=None):
    """one x, one Baseline object, 3..6 loess calls with varying delta / total_points / strategy / mode / weights / data"""
    kind = kind or ['uniform', 'random', 'clustered', 'intgrid', 'geometric', 'biggap'][int(rng.integers(0, 6))]
    n = int(rng.choice([8, 12, 20, 35, 60]))
    x = gen_x(rng, n, kind)
    span = float(x[-1] - x[0])
    gaps = np.diff(x)
    tps = sorted({int(rng.integers(4, n + 1)), int(rng.integers(4, n + 1))})      # few values: repeats are likely
    deltas = [None, 0.0, -1.0, float(gaps.min()) * 0.5, float(np.median(gaps)) * 1.5, 0.1 * span, 0.3 * span, span, 2 * span + 1]
    calls = []
    for k in range(int(rng.integers(3, 7))):
        p = int(rng.choice([0, 1, 1, 2]))
        kw = dict(total_points=int(rng.choice(tps)), poly_order=p, max_iter=int(rng.integers(0, 6)),
                  delta=deltas[int(rng.integers(0, len(deltas)))], symmetric_weights=bool(rng.integers(0, 2)),
                  tol=float(rng.choice([1e-3, 0.0])))
        if kw['total_points'] < p + 3:
            kw['total_points'] = min(n, p + 3)
        if rng.random() < 0.3:
            kw.update(use_threshold=True, use_original=bool(rng.integers(0, 2)))
        if rng.random() < 0.25:
            kw['weights'] = rng.uniform(0.05, 1, n)
        y = gen_y(rng, x, ['smooth', 'peaks', 'noise'][int(rng.integers(0, 3))])
        # REJECTED calls inside the history: raised up front (parameter / shape checks) or deep inside a kernel loop
        rej = int(rng.integers(0, 12))
        if rej == 0:
            kw['total_points'] = n + 3                      # ValueError before anything is computed
        elif rej == 1:
            kw['total_points'] = p + 1                      # singular local systems: LinAlgError inside the first kernel loop
        elif rej == 2:
            kw['weights'] = np.ones(n + 1)                  # ValueError in the setup
        elif rej == 3:
            y = y[:-1]                                      # data of the wrong length
        # strategy: biased towards the cached one, whose state could leak
        calls.append({'y': y, 'kw': kw, 'conserve': bool(rng.random() < 0.3)})
    return x, calls


def call_on(fitter, y, kw, conserve):
    try:
        with warnings.catch_warnings():
            warnings.simplefilter('ignore')
            with np.errstate(all='ignore'):
                b, p = fitter.loess(y, conserve_memory=conserve, return_coef=True, **kw)
        return ('ok', np.asarray(b, dtype=float), np.asarray(p['weights'], dtype=float), np.asarray(p['coef'], dtype=float),
                np.asarray(p['tol_history'], dtype=float))
    except Exception as e:                                      # noqa: BLE001
        return ('exc', type(e).__name__, str(e)[:200])


def history_case(x, calls, upto=None):
    cs = calls if upto is None else calls[:upto + 1]
    return {'kind': 'history', 'x': x.tolist(),
            'calls': [{'y': c['y'].tolist(), 'conserve': c['conserve'],
                       'kw': {k: (v.tolist() if isinstance(v, np.ndarray) else v) for k, v in c['kw'].items()}} for c in cs]}


def check_history(x, calls):
    """runs the calls on ONE object; returns (index, what, key) of the first call whose result differs bitwise from the
    same call on a fresh object or from the other strategy on a fresh object, else None"""
    from pybaselines import Baseline
    shared = Baseline(x)
    for k, c in enumerate(calls):
        got = call_on(shared, c['y'], c['kw'], c['conserve'])
        fresh = call_on(Baseline(x), c['y'], c['kw'], c['conserve'])
        other = call_on(Baseline(x), c['y'], c['kw'], not c['conserve'])
        strat = 'conserve' if c['conserve'] else 'cached'
        if not same_bits(got, fresh):
            return k, (f'call {k + 1} of a history on one object (conserve_memory={c["conserve"]}, delta={c["kw"]["delta"]}, '
                       f'total_points={c["kw"]["total_points"]}) differs from the same call on a fresh object: '
                       f'{got[:3] if got[0] == "exc" else "ok"} vs {fresh[:3] if fresh[0] == "exc" else "ok"}'), f'history:{strat}:differs-from-fresh'
        if not same_bits(got, other):
            return k, (f'call {k + 1} of a history on one object (conserve_memory={c["conserve"]}) differs from the other strategy: '
                       f'{got[:3] if got[0] == "exc" else "ok"} vs {other[:3] if other[0] == "exc" else "ok"}'), f'history:{strat}:strategies-differ'
    return None


def oracle_histories(ctx, budget):
    rng = np.random.default_rng(ctx.seed * 1000 + 197)
    for h in range(ctx.n(45, 400) * budget):
        x, calls = gen_history(rng)
        nontriv = len({(c['kw']['delta'], c['kw']['total_points']) for c in calls if not c['conserve']}) >= 2
        ctx.case(('hist', x.tobytes(), repr([(c['conserve'], sorted((k, repr(v)) for k, v in c['kw'].items() if k != 'weights')) for c in calls])),
                 nontrivial=nontriv, kind=f'history:calls={len(calls)}')
        bad = check_history(x, calls)
        if bad:
            k, what, key = bad
            ctx.fail(key, what, history_case(x, calls, upto=k))


def correspondence_driver(ctx):
    """trace validation of the driver's dispatch over call histories: which loop kernel runs in which iteration and
    which kernel array it is given, against mode_schedule of C19/HistoryProofs.v"""
    P, U = mods()
    from pybaselines import Baseline
    ob = 'correspondence:driver-dispatch(mode_schedule over call histories; cache produced in the same call)'
    ctx.obligations.append(ob)
    rng = np.random.default_rng(ctx.seed * 1000 + 198)
    names = {'_loess_low_memory': 0, '_loess_first_loop': 1, '_loess_nonfirst_loops': 2}
    orig = {n: getattr(P, n) for n in names}
    trace = []

    def wrap(name):
        fn = orig[name]

        def inner(*a):
            out = fn(*a)
            if name == '_loess_first_loop':
                trace.append((1, id(out[0])))
            elif name == '_loess_nonfirst_loops':
                trace.append((2, id(a[4])))
            else:
                trace.append((0, None))
            return out
        return inner
    lits, metas = [], []
    try:
        for n_ in names:
            setattr(P, n_, wrap(n_))
        for h in range(ctx.n(30, 250)):
            x, calls = gen_history(rng)
            shared = Baseline(x)
            for c in calls:
                trace.clear()
                r = call_on(shared, c['y'], c['kw'], c['conserve'])
                modes = [m for m, _ in trace]
                made = [i for m, i in trace if m == 1]
                used = [i for m, i in trace if m == 2]
                same_call_cache = all(u == made[0] for u in used) if made else not used
                iters_ok = r[0] != 'ok' or len(r[4]) == len(modes)
                if r[0] == 'ok':
                    th, tol_ = r[4], c['kw'].get('tol', 1e-3)
                    # the stop rule of `drive`: no pass before the last is below tol; the last is, or the budget is exhausted
                    iters_ok = iters_ok and not np.any(th[:-1] < tol_) and (bool(th[-1] < tol_) or len(th) == c['kw']['max_iter'] + 1)
                lits.append(f'({"true" if c["conserve"] else "false"}, {"[" + "; ".join(str(m) + "%nat" for m in modes) + "]"}, '
                            f'{"true" if (same_call_cache and iters_ok) else "false"})')
                metas.append(history_case(x, [c]))
                ctx.case(('drv', x.tobytes(), c['y'].tobytes(), repr(modes)), nontrivial=len(modes) >= 2 and not c['conserve'], kind='driver-dispatch')
                ctx.traces += 1
    finally:
        for n_ in names:
            setattr(P, n_, orig[n_])
    header = HEADER.replace('C19.Model C19.Float.', 'C19.Model C19.Float C19.HistoryProofs.')
    failing = []
    per = 400
    for s0 in range(0, len(lits), per):
        sh = lits[s0:s0 + per]
        text = header + '\nDefinition cases : list (bool * list nat * bool) := [\n' + ';\n'.join('  ' + l for l in sh) + '\n].\n' + \
            'Definition ok (c : bool * list nat * bool) : bool := let \'(cm, modes, same) := c in\n' \
            '  same && (fix eqb (a b : list nat) : bool := match a, b with nil, nil => true | cons u a\', cons v b\' => Nat.eqb u v && eqb a\' b\' | _, _ => false end)\n' \
            '            modes (mode_schedule cm (length modes)).\nEval vm_compute in (bad ok cases).\n'
        vals = ctx.coq_eval(f'drv{s0 // per}', text)
        import re
        m = re.match(r'\((\d+)(?:%nat)?,\s*\[(.*)\]\)', vals[0]) if vals else None
        if not m:
            ctx.broke(ob, f'coqc evaluation failed: {vals}')
            return
        if int(m.group(1)):
            failing += [s0 + int(t.replace('%nat', '')) for t in m.group(2).split(';') if t.strip()]
    if failing:
        ctx.broke(ob, f'{len(failing)} call(s): the kernels run by the driver differ from mode_schedule, first: {lits[failing[0]]}')
    else:
        ctx.discharged.append(ob)


WEIGHT_CLASSES = ['none', 'ones', 'random', 'zeros', 'decades']


def make_weights(rng, n, cls):
    if cls == 'none':
        return None
    if cls == 'ones':
        return np.ones(n)
    if cls == 'random':
        return rng.uniform(0.05, 1.0, n)
    if cls == 'zeros':
        w = rng.uniform(0.2, 1.0, n)
        w[rng.choice(n, max(1, n // 6), replace=False)] = 0.0
        return w
    return 10.0 ** rng.uniform(-6, 3, n)


def oracle_strategy_grid(ctx, budget):
    """deterministic grid for the single-call strategy comparison: user weights {None, ones, random, with zeros, many
    decades} x max_iter {0, 1, 3} x use_threshold x delta {0, skipping}; conserve_memory True vs False bitwise"""
    rng = np.random.default_rng(ctx.seed * 1000 + 199)
    for rep in range(ctx.n(2, 12) * budget):
        kind = ['uniform', 'random', 'geometric', 'intgrid', 'clustered', 'biggap'][rep % 6]
        n = int(rng.choice([14, 25, 40]))
        x = gen_x(rng, n, kind)
        y = gen_y(rng, x, ['peaks', 'smooth', 'noise'][rep % 3])
        p = rep % 3
        tp = int(rng.integers(max(p + 4, n // 3), n + 1))
        span = float(x[-1] - x[0])
        for cls in WEIGHT_CLASSES:
            wts = make_weights(rng, n, cls)
            for max_iter in (0, 1, 3):
                for thr in (False, True):
                    for delta in (0.0, 0.25 * span):
                        kw = dict(total_points=tp, poly_order=p, max_iter=max_iter, delta=delta, tol=0.0, weights=wts)
                        if thr:
                            kw.update(use_threshold=True, use_original=bool(max_iter % 2))
                        else:
                            kw['symmetric_weights'] = bool(max_iter == 1)
                        rt = run_loess(x, y, kw, True)
                        rf = run_loess(x, y, kw, False)
                        ctx.case(('grid', rep, cls, max_iter, thr, delta, x.tobytes()), nontrivial=cls not in ('none', 'ones') and rt[0] == 'ok',
                                 kind=f'grid:weights={cls}:{"threshold" if thr else "robust"}')
                        if max_iter == 1 and not thr:
                            # the same call with non-default memory layouts of every array argument
                            y2 = np.repeat(y, 2)[::2]                               # strided view
                            y3 = np.asfortranarray(np.stack([y, y], axis=1))[:, 0]    # column of a Fortran-ordered matrix
                            w2 = None if wts is None else wts[::-1].copy()[::-1]      # negative strides
                            x2 = np.repeat(x, 3)[::3]
                            for lay, (xx, yy) in (('strided', (x2, y2)), ('fortran-column', (x, y3))):
                                rl = run_loess(xx, yy, dict(kw, weights=w2), bool(rep % 2))
                                if not same_bits(rl, rt):
                                    ctx.fail(f'layout:{lay}', f'loess with {lay} views of x/data and negatively strided weights differs bitwise from the contiguous call '
                                             f'(weights class "{cls}", delta={delta})', cfg_case({'x': x, 'y': y, 'kw': kw}, {'layout': lay}))
                        if not same_bits(rt, rf):
                            what = (f'conserve_memory=True and False differ (bitwise) with user weights of class "{cls}", max_iter={max_iter}, '
                                    f'use_threshold={thr}, delta={delta}, total_points={tp}, poly_order={p}')
                            if rt[0] == 'ok' and rf[0] == 'ok':
                                what += f'; max difference {max_ulp(rt, rf):.3g} array-ulps'
                            else:
                                what += f'; outcomes {rt[:2] if rt[0] == "exc" else "ok"} vs {rf[:2] if rf[0] == "exc" else "ok"}'
                            ctx.fail(f'memory:grid:weights={cls}', what, cfg_case({'x': x, 'y': y, 'kw': kw}))


DATA_SCALES = [1e-200, 1e-100, 1e-30, 1e-8, 1.0, 1e8, 1e30, 1e100, 1e200]
WEIGHT_SCALES = [1e-30, 1e-20, 1e-12, 1e-8, 1e-4, 1.0, 1e4, 1e8, 1e12, 1e20, 1e30]


def oracle_magnitude(ctx, budget):
    """FIXED grid over the magnitude of the user weights (uniform and non-uniform, 1e-30 .. 1e30) and of the data
    (1e-200 .. 1e200): (A) data exactly on a polynomial of degree <= poly_order is reproduced at every fitted point,
    max_iter 0 and default; (B) single-pass fitted values equal the brute-force weighted lstsq fit through the specified
    window.  A weighted least-squares fit does not depend on a common factor of the weights or of the data, so the
    condition-scaled RELATIVE tolerance is the same at every magnitude."""
    P, U = mods()
    rng = np.random.default_rng(1900 + ctx.seed)          # only the non-uniform weight pattern and the noise are drawn
    for rep in range(ctx.n(2, 6) * budget):
        kind = ['uniform', 'random', 'geometric', 'intgrid'][rep % 4]
        n = [12, 30, 21, 45][rep % 4]
        x = gen_x(np.random.default_rng(77 + rep), n, kind)
        p = rep % 3
        tp = max(p + 4, n // 2)
        span = float(x[-1] - x[0])
        xs = np.polynomial.polyutils.mapdomain(x, np.array([x[0], x[-1]]), np.array([-1., 1.]))
        ypoly = np.polynomial.polynomial.polyval(xs, np.array([3.0, -2.0, 1.5][:p + 1]))
        ynoisy = gen_y(rng, x, 'peaks')
        pattern = rng.uniform(0.5, 1.0, n)
        cells = [('data', ds, None, 0) for ds in DATA_SCALES]
        for ws in WEIGHT_SCALES:
            for shape in ('uniform', 'nonuniform'):
                for mi in (0, 10):
                    cells.append(('weights', 1.0, (ws, shape), mi))
        for ci, (what, ds, wspec, mi) in enumerate(cells):
            wts = None if wspec is None else (np.full(n, wspec[0]) if wspec[1] == 'uniform' else pattern * wspec[0])
            delta = 0.0 if ci % 2 else 0.2 * span
            kw = dict(total_points=tp, poly_order=p, max_iter=mi, delta=delta, weights=wts)
            cond = local_cond(P, x, tp, p, delta, wts)
            label = f'data x{ds:g}' if what == 'data' else f'weights {wspec[1]} x{wspec[0]:g}'
            ctx.case(('mag', rep, what, ds, repr(wspec), mi), nontrivial=(ds != 1.0 or (wspec is not None and wspec[0] != 1.0)),
                     kind=f'magnitude:{what}')
            if not np.isfinite(cond) or cond > 1e8:
                continue
            y = ypoly * ds
            w_, f_, s_ = spec_determine_fits(x, tp, delta)
            r = run_loess(x, y, kw, bool(ci % 3))
            if r[0] != 'ok':
                ctx.fail(f'magnitude:{what}:raises', f'loess raises {r[1]} ({r[2]}) on exact polynomial data with {label}, max_iter={mi} (cond {cond:.3g})',
                         cfg_case({'x': x, 'y': y, 'kw': kw}))
                continue
            fi = np.asarray(f_)
            err = float(np.max(np.abs(r[1][fi] - y[fi]))) / float(np.max(np.abs(y)))
            tol = 64 * np.finfo(float).eps * cond
            if not err <= tol:
                ctx.fail(f'magnitude:{what}:poly-not-reproduced',
                         f'polynomial data of degree {p} not reproduced at the fitted points with {label}, max_iter={mi}: relative error {err:.3g} > {tol:.3g} (cond {cond:.3g})',
                         cfg_case({'x': x, 'y': y, 'kw': kw}))
            if mi == 0:
                yb = ynoisy * ds
                kwb = dict(kw)
                worst = brute_worst(x, yb, kwb, bool(ci % 2), cond)
                if worst is None:
                    ctx.fail(f'magnitude:{what}:raises', f'loess raises on noisy data with {label} (cond {cond:.3g})', cfg_case({'x': x, 'y': yb, 'kw': kwb}))
                elif worst > 1:
                    ctx.fail(f'magnitude:{what}:brute-fitted-value',
                             f'a fitted value differs from the brute-force weighted local fit by {worst:.3g} x tolerance with {label}', cfg_case({'x': x, 'y': yb, 'kw': kwb}))


def build_all(ctx):
    """ONE make for props/C19.v and the two translator-obligation files (the build lock is shared with the other
    properties); each file's theorems are discharged iff its own .vo was produced by this build"""
    import time
    from .common import COQ, theorems_in
    rels = ['props/C19.v', 'props/C19_state.v', 'props/C19_solver.v', 'props/C19_driver.v', 'props/C19_poly.v']
    t0 = time.time() - 1
    for rel in rels[1:]:
        try:
            os.remove(os.path.join(COQ, rel + 'o'))
        except OSError:
            pass
    n_ob = len(ctx.obligations)
    ok = ctx.build_props(extra=['C19/Float.vo', 'C19/HistoryProofs.vo'] + [r + 'o' for r in rels[1:]])
    all_ok = True
    for rel in rels:
        vo = os.path.join(COQ, rel + 'o')
        built = os.path.exists(vo) and os.path.getmtime(vo) >= t0
        names = [f'theorem:{n}' for n in theorems_in(rel)]
        for nm in names:
            if nm not in ctx.obligations[n_ob:]:
                ctx.obligations.append(nm)
            if built and nm not in ctx.discharged:
                ctx.discharged.append(nm)
        all_ok = all_ok and built
        if not built and ok:
            ctx.broke(f'build:{rel}', 'not built')
    return all_ok


def exact_cells():
    """FIXED cells of the full-iteration exactness grid"""
    cells = []
    for kind in ('uniform', 'random', 'clustered'):
        for p in (0, 1, 2):
            for tp_off in (2, 3, 4, 5, 6, 7, 8, None):            # total_points = poly_order + off; None = default fraction
                for data in ('zero', 'constant', 'degree-p'):
                    for sym in (False, True):
                        for thr in (False, True):
                            cells.append((kind, p, tp_off, data, sym, thr))
    return cells


def oracle_exact_full(ctx, budget):
    """data EXACTLY on a polynomial of degree <= poly_order (incl. all-zero and constant), DEFAULT tol and max_iter (the
    full robust iteration), small windows total_points = poly_order+2 .. poly_order+8 and the default fraction,
    symmetric / asymmetric weighting, threshold mode, uniform / random / clustered x: reproduced at every fitted point;
    and C19_first_pass_exit observed: a first recorded difference below tol ends the iteration after one pass"""
    P, U = mods()
    xcache = {}
    for ci, (kind, p, tp_off, data, sym, thr) in enumerate(exact_cells()):
        n = 24
        if kind not in xcache:
            xcache[kind] = gen_x(np.random.default_rng({'uniform': 5, 'random': 6, 'clustered': 7}[kind]), n, kind)
        x = xcache[kind]
        xs = np.polynomial.polyutils.mapdomain(x, np.array([x[0], x[-1]]), np.array([-1., 1.]))
        if data == 'zero':
            y = np.zeros(n)
        elif data == 'constant':
            y = np.full(n, 2.5)
        else:
            y = np.polynomial.polynomial.polyval(xs, np.array([1.0, -2.0, 3.0][:p + 1]))
        kw = dict(poly_order=p, symmetric_weights=sym)
        if tp_off is not None:
            kw['total_points'] = p + tp_off
        if thr:
            kw['use_threshold'] = True
        if ci % 2:
            kw['delta'] = 0.0
        tp = kw.get('total_points', math.ceil(0.2 * n))
        if tp < p + 1:
            continue
        dl = kw.get('delta')
        dl = 0.01 * float(x[-1] - x[0]) if dl is None else dl
        cond = local_cond(P, x, tp, p, dl)
        ctx.case(('exact', ci), nontrivial=data != 'zero', kind=f'exact-full:{kind}:{data}')
        if not np.isfinite(cond) or cond > 1e8:
            continue
        conserve = bool(ci % 3)
        r = run_loess(x, y, kw, conserve)
        desc = f'x {kind}, poly_order={p}, total_points={tp}, data {data}, symmetric_weights={sym}, use_threshold={thr}, default tol/max_iter'
        case = cfg_case({'x': x, 'y': y, 'kw': kw}, {'conserve': conserve})
        if r[0] != 'ok':
            ctx.fail('exact-full:raises', f'loess raises {r[1]} ({r[2]}) on exact polynomial data: {desc} (cond {cond:.3g})', case)
            continue
        w_, f_, s_ = spec_determine_fits(x, tp, dl)
        fi = np.asarray(f_)
        scale = float(np.max(np.abs(y)))
        err = float(np.max(np.abs(r[1][fi] - y[fi])))
        tol = 64 * np.finfo(float).eps * cond * scale
        if not err <= tol:
            ctx.fail('exact-full:not-reproduced', f'exact polynomial data not reproduced at the fitted points by the full iteration: error {err:.3g} > {tol:.3g}; {desc}', case)
        th = r[4]
        if th[0] < 1e-3 and len(th) != 1:
            ctx.fail('exact-full:first-pass-exit', f'first recorded difference {th[0]:.3g} is below tol=1e-3 but the iteration ran {len(th)} passes; {desc}', case)


LARGE_CELLS = [
    # (N, total_points or None for the default fraction, x kind, max_iter, use_threshold, delta as a fraction of the span or None)
    (600, 500, 'uniform', 2, False, 0.02),
    (600, 500, 'random', 3, True, 0.05),
    (1200, None, 'uniform', 2, False, None),
    (1200, None, 'random', 3, True, 0.02),
    (2500, None, 'uniform', 2, False, None),
    (2500, None, 'geometric', 2, False, 0.01),
]


def oracle_large_cells(ctx, budget):
    """FIXED large cells of the strategy grid (kernel caches of 3e5 .. 1.25e6 entries, at least one pass after the first,
    delta > 0 so that few points are fitted): conserve_memory True vs False bitwise, as for the small cells"""
    for ci, (n, tp, kind, max_iter, thr, dfrac) in enumerate(LARGE_CELLS):
        rng = np.random.default_rng(4000 + ci)
        x = gen_x(rng, n, kind)
        y = gen_y(rng, x, 'peaks')
        kw = dict(poly_order=1 + ci % 2, max_iter=max_iter, tol=0.0)
        if tp is not None:
            kw['total_points'] = tp
        if dfrac is not None:
            kw['delta'] = dfrac * float(x[-1] - x[0])
        if thr:
            kw['use_threshold'] = True
        if ci % 3 == 1:
            kw['weights'] = rng.uniform(0.2, 1.0, n)
        rt = run_loess(x, y, kw, True)
        rf = run_loess(x, y, kw, False)
        ctx.case(('large', ci), nontrivial=rt[0] == 'ok' and len(rt[4]) >= 2, kind=f'large:N={n}')
        if not same_bits(rt, rf):
            what = (f'conserve_memory=True and False differ (bitwise) for N={n}, total_points={tp or "default fraction"}, max_iter={max_iter}, '
                    f'use_threshold={thr} (kernel cache of {n * (tp or math.ceil(0.2 * n))} entries)')
            if rt[0] == 'ok' and rf[0] == 'ok':
                what += f'; max difference {max_ulp(rt, rf):.3g} array-ulps'
            else:
                what += f'; outcomes {rt[:2] if rt[0] == "exc" else "ok"} vs {rf[:2] if rf[0] == "exc" else "ok"}'
            ctx.fail(f'memory:large:N={n}', what, cfg_case({'x': x, 'y': y, 'kw': kw}))


def stage(ctx, name, fn, *a):
    """one stage of the run; an exception (e.g. a private kernel whose signature changed) is a broken obligation and
    must not stop the search for a concrete failing input in the later stages"""
    try:
        return fn(ctx, *a)
    except Exception:                                           # noqa: BLE001
        import traceback
        ctx.broke(f'stage:{name}', traceback.format_exc()[-1200:])
        return None


def run(ctx):
    ctx.rule = ('_determine_fits cases: x uniform/random/clustered/repeated/big-last-gap/integer/geometric, N 1..60 (oracle to 1500), '
                'total_points 1..N (N, 1, N-1, 2 over-represented), delta 0, <0, below the smallest gap, a gap exactly, median gap, span, '
                'beyond the span, inf/nan/denormal, default 1%; loess configurations: N 1..120, poly_order 0..3, total_points poly_order+1..N, '
                'max_iter 0..10, symmetric/asymmetric/threshold(use_original), delta None/0/<0/>0/beyond span, tol 1e-3/1e-12/0; '
                'distinct = distinct (x, parameters, data) byte strings; non-trivial = at least one point skipped (fits/kernels/fill), '
                'at least two driver iterations (loess), degree >= 1 (polynomial)')
    ctx.trusted += [
        'np.linalg.solve inside _loess_solver (LAPACK gesv) and BLAS dot: the local weighted least-squares solve is a Section variable `local_fit` '
        '(no contract is needed for strategy equality; polynomial exactness is NOT proved, only tested by the oracle)',
        'relative_difference, np.std, np.median, _tukey_square enter the driver model as abstract functions `reldiff`, `update` (same function in both strategies)',
        'np.empty contents are an explicit `garbage` argument of the model; C19_no_garbage proves the returned baseline does not depend on it',
        'NumPy broadcasting errors when a cached kernel row and a window differ in length are not modelled (lengths are equal by C19_fits_spec)',
        'IEEE rounding: order/containment theorems are over Z (instance Num_Z, tied on integer x); structure theorems hold for every Num instance including binary64',
    ]
    ctx.gate()
    ctx.translate(['GenLoessState'])
    ctx.translate(['GenLoessSolver'])
    ctx.translate(['GenLoessDriver'])
    ok = build_all(ctx)
    stage(ctx, 'correspondence_fits', correspondence_fits)
    stage(ctx, 'correspondence_fill', correspondence_fill)
    stage(ctx, 'correspondence_kernels', correspondence_kernels)
    stage(ctx, 'correspondence_driver', correspondence_driver)
    budget = 1 if (ok and not ctx.broken) else 4
    stage(ctx, 'oracle_strategy_grid', oracle_strategy_grid, budget)
    stage(ctx, 'oracle_large_cells', oracle_large_cells, budget)
    stage(ctx, 'oracle_magnitude', oracle_magnitude, budget)
    stage(ctx, 'oracle_exact_full', oracle_exact_full, budget)
    stage(ctx, 'oracle_fits', oracle_fits, budget)
    stage(ctx, 'oracle_loess', oracle_loess, budget)
    stage(ctx, 'oracle_poly', oracle_poly, budget)
    stage(ctx, 'oracle_bruteforce', oracle_bruteforce, budget)
    stage(ctx, 'oracle_histories', oracle_histories, budget)
    stage(ctx, 'observation_second_last', observation_second_last)
    ctx.note(f'oracle budget x{budget}; not covered: 2-D, unsorted x (C02), non-finite data, N > 1500, poly_order > 3; '
             'compiled-vs-interpreted values compared within an array-ulp budget only for well-conditioned local systems '
             '(total_points >= poly_order + 3, poly_order <= 2), outcomes (exception kinds, iteration counts) for all')


def replay(rep):
    case = rep.get('case') or {}
    P, U = mods()
    if case.get('kind') == 'determine_fits':
        x = np.array(case['x'], dtype=float)
        tp, delta = case['total_points'], float(case['delta'])
        r = P._determine_fits(x, len(x), tp, delta)
        bad = spec_failures(x, len(x), tp, delta, *r)
        print('windows', np.asarray(r[0]).tolist(), 'fits', np.asarray(r[1]).tolist(), 'skips', np.asarray(r[2]).tolist())
        print('spec failures:', bad)
        return 1 if bad else 0
    if case.get('kind') == 'history':
        x = np.array(case['x'])
        calls = []
        for c in case['calls']:
            kw = dict(c['kw'])
            if kw.get('weights') is not None:
                kw['weights'] = np.array(kw['weights'])
            calls.append({'y': np.array(c['y']), 'kw': kw, 'conserve': c['conserve']})
        bad = check_history(x, calls)
        print('history of', len(calls), 'loess calls on one object:', bad[1] if bad else 'every call equals the fresh-object result and the other strategy')
        return 1 if bad else 0
    if case.get('kind') == 'loess':
        x, y = np.array(case['x']), np.array(case['y'])
        kw = dict(case['kw'])
        if 'weights' in kw and kw['weights'] is not None:
            kw['weights'] = np.array(kw['weights'])
        rt, rf = run_loess(x, y, kw, True), run_loess(x, y, kw, False)
        if str(rep.get('key', '')).startswith('exact-full:'):
            n = len(x)
            tp = kw.get('total_points', math.ceil(0.2 * n))
            dl = kw.get('delta')
            dl = 0.01 * float(x[-1] - x[0]) if dl is None else dl
            cond = local_cond(P, x, tp, kw['poly_order'], dl)
            r = run_loess(x, y, kw, bool(case.get('conserve', True)))
            if r[0] != 'ok':
                print('loess raises', r[1:])
                return 1
            w_, f_, s_ = spec_determine_fits(x, tp, dl)
            fi = np.asarray(f_)
            err = float(np.max(np.abs(r[1][fi] - y[fi])))
            tol = 64 * np.finfo(float).eps * cond * float(np.max(np.abs(y)))
            print(f'error at the fitted points {err:.3g}, tolerance {tol:.3g}; tol_history {r[4].tolist()}')
            return 0 if (err <= tol and not (r[4][0] < 1e-3 and len(r[4]) != 1)) else 1
        if str(rep.get('key', '')).startswith('magnitude:'):
            cond = local_cond(P, x, kw['total_points'], kw['poly_order'], kw['delta'], kw.get('weights'))
            if 'brute' in rep['key']:
                worst = brute_worst(x, y, kw, True, cond)
                print('fitted values vs brute-force weighted fit: worst difference / tolerance =', worst)
                return 0 if (worst is not None and worst <= 1) else 1
            w_, f_, s_ = spec_determine_fits(x, kw['total_points'], kw['delta'])
            r = run_loess(x, y, kw, True)
            if r[0] != 'ok':
                print('loess raises', r[1:])
                return 1
            fi = np.asarray(f_)
            err = float(np.max(np.abs(r[1][fi] - y[fi]))) / float(np.max(np.abs(y)))
            tol = 64 * np.finfo(float).eps * cond
            print(f'relative error at the fitted points {err:.3g}, tolerance {tol:.3g}')
            return 0 if err <= tol else 1
        if str(rep.get('key', '')).startswith('brute:'):
            cond = local_cond(P, x, kw['total_points'], kw['poly_order'], kw['delta'])
            worst = brute_worst(x, y, kw, True, cond)
            print('fitted values vs brute-force fit through the specified windows: worst difference / tolerance =', worst)
            return 0 if (worst is not None and worst <= 1) else 1
        if str(rep.get('key', '')).startswith('numba:'):
            wres, err = worker_results([{'x': x, 'y': y, 'kw': kw}], True)
            if wres is None:
                print('interpreted worker failed:', err)
                return 1
            agree = all(h[0] == t[0] and (h[0] != 'exc' or h[1] == t[1]) for h, t in zip((rt, rf), wres[0]))
            print('compiled outcome:', rt[:3] if rt[0] == 'exc' else 'ok', '| NUMBA_DISABLE_JIT=1 outcome:',
                  wres[0][0][:3] if wres[0][0][0] == 'exc' else ('ok, baseline all NaN' if np.all(np.isnan(wres[0][0][1])) else 'ok'))
            if agree and rt[0] == 'ok':
                u = max_ulp(('ok', rt[1]), ('ok', wres[0][0][1]))
                print('baseline difference (array-ulps):', u)
            return 0 if agree else 1
        same = same_bits(rt, rf)
        print('conserve_memory True/False bitwise identical:', same, rt[:2] if rt[0] == 'exc' else '', rf[:2] if rf[0] == 'exc' else '')
        return 0 if same else 1
    print('replay: broken obligations', rep.get('broken_obligations'))
    return 1


if __name__ == '__main__':
    if len(sys.argv) == 4 and sys.argv[1] == 'worker':
        with open(sys.argv[2], 'rb') as fh:
            cfgs_ = pickle.load(fh)
        out_ = [(run_loess(c_['x'], c_['y'], c_['kw'], True), run_loess(c_['x'], c_['y'], c_['kw'], False)) for c_ in cfgs_]
        with open(sys.argv[3], 'wb') as fh:
            pickle.dump(out_, fh)
