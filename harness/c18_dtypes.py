"""C18 -- the element-type dimension: input dtypes, containers, memory layouts and magnitudes for every
helper of the property (pad_edges, _get_edges, padded_convolve, pad_edges2d, gaussian_kernel,
optimize_window).  All grids are FIXED and ENUMERATED; values are judged against rationals, the output
dtype against the rule stated in coq/C18/DType.v (typed correspondence evaluated inside Coq)."""
from fractions import Fraction

import numpy as np

from . import c18 as B
from .common import zl, zlist

HEADER = """From Coq Require Import ZArith QArith Qabs List Bool.
From PB Require Import lib.PySlice lib.CaseUtil C18.Model C18.Model2D C18.Cmp C18.DType C18.CmpD.
Import ListNotations.
Open Scope Z_scope.
"""

DT_NAMES = ['bool', 'int8', 'int16', 'int32', 'int64', 'uint8', 'uint16', 'uint32', 'uint64',
            'float16', 'float32', 'float64']
DCODE = {n: i for i, n in enumerate(DT_NAMES)}
NP_MODELLED = B.NP_MODELLED
NP_MODES = B.NP_MODES

COUNTS = [3, 4, 4, 6, 5, 9, 8, 8, 11, 10, 13, 12]
BOOLS = [1, 0, 1, 1, 0, 1, 0, 0, 1, 1, 0, 1]


def dname(dt):
    return 'bool' if np.dtype(dt) == np.bool_ else np.dtype(dt).name


def values_for(dt_name, n, pattern):
    """exact rational data of length n that the dtype holds exactly"""
    if dt_name == 'bool':
        return [Fraction(v) for v in (BOOLS[:n] if pattern == 'counts' else [1] * n)]
    if pattern == 'linear':
        return [Fraction(3 * i + 2) for i in range(n)]
    if pattern == 'dyadic' and dt_name.startswith('float'):
        return [Fraction(v, 8) + Fraction(i, 4) for i, v in enumerate(COUNTS[:n])]
    return [Fraction(v) for v in COUNTS[:n]]


# containers: (label, container code for Coq, builder(values) -> python object handed to the helper)
def containers(include_f16=True):
    out = []
    out.append(('list:int', 12, 'int64', lambda vs: [int(v) for v in vs]))
    for name in ['int64', 'int32'] + [n for n in DT_NAMES if n not in ('int64', 'int32')]:
        if name == 'float16' and not include_f16:
            continue
        dt = np.bool_ if name == 'bool' else np.dtype(name).type
        out.append((f'ndarray:{name}', DCODE[name], name, (lambda vs, dt=dt: np.array([float(v) for v in vs]).astype(dt))))
    out.append(('tuple:int', 12, 'int64', lambda vs: tuple(int(v) for v in vs)))
    out.append(('list:bool', 13, 'bool', lambda vs: [bool(v) for v in vs]))
    out.append(('list:float', 14, 'float64', lambda vs: [float(v) for v in vs]))
    # non-default memory layouts of the same values
    for name in ('int64', 'float64', 'float32', 'int16'):
        dt = np.dtype(name).type
        out.append((f'reversed-view:{name}', DCODE[name], name,
                    (lambda vs, dt=dt: np.array([float(v) for v in vs][::-1]).astype(dt)[::-1])))
        out.append((f'strided-view:{name}', DCODE[name], name,
                    (lambda vs, dt=dt: np.repeat(np.array([float(v) for v in vs]).astype(dt), 3)[::3])))
    return out


def usable(label, dt_name, vs):
    """bool containers only with 0/1 data, integer containers with integers"""
    if dt_name == 'bool':
        return all(v in (0, 1) for v in vs)
    if not dt_name.startswith('float') or label == 'list:int':
        return all(v.denominator == 1 for v in vs)
    return True


def expect_pad_dtype(mode, p, dt_name):
    return 'float64' if (mode == 'extrapolate' and p != 0) else dt_name


def pad_grid():
    """(N, p, mode, ew, pattern) -- fixed"""
    g = []
    for n in (3, 7):
        for p in (0, 1, n + 1):
            for ew in (None, 1, 2, 3, [2, n + 2]):
                for pat in ('linear', 'counts'):
                    g.append((n, p, 'extrapolate', ew, pat))
            for mode in NP_MODELLED:
                g.append((n, p, mode, None, 'counts'))
    g.append((5, 2, 'extrapolate', 3, 'dyadic'))
    g.append((5, 2, 'reflect', None, 'dyadic'))
    return g


def fail_case(kind, label, vs, **kw):
    c = {'kind': kind, 'container': label, 'values': [str(v) for v in vs]}
    c.update(kw)
    return c


def rebuild(label, vs):
    for lab, _cc, _dn, build in containers():
        if lab == label:
            return build(vs)
    raise KeyError(label)


# ---------------------------------------------------------------- result_type / asarray (library rule, exhaustive)
def corr_result_type(ctx):
    lits = []
    for a in DT_NAMES:
        for b in DT_NAMES:
            da = np.bool_ if a == 'bool' else np.dtype(a)
            db = np.bool_ if b == 'bool' else np.dtype(b)
            r = dname(np.result_type(da, db))
            lits.append(f'({DCODE[a]}, {DCODE[b]}, {DCODE[r]})')
            ctx.case(('rt', a, b), nontrivial=a != b, kind='dtype:result_type')
    for cc, obj in ((12, [1, 2]), (12, (1, 2)), (13, [True, False]), (14, [1.0, 2.0])):
        lits.append(f'(100, {cc}, {DCODE[dname(np.asarray(obj).dtype)]})')
    okdef = """Definition ok (c : Z * Z * Z) : bool :=
  let '(a, b, e) := c in
  if a =? 100 then dcode (asarray_dtype (container_of_code b)) =? e
  else dcode (result_type (dtype_of_code a) (dtype_of_code b)) =? e."""
    return B.run_cases(ctx, 'dtype_result_type', 'Z * Z * Z', okdef, lits, header=HEADER)


# ---------------------------------------------------------------- pad_edges / _get_edges, typed
TP_DECL = 'Z * Z * list Q * Z * Z * option (list Z) * option (Z * list Q) * option (Z * list Q * list Q) * Q'
TP_OK = """Definition ok (c : Z * Z * list Q * Z * Z * option (list Z) * option (Z * list Q) * option (Z * list Q * list Q) * Q) : bool :=
  let '(what, cc, data, p, code, ew, expected, eedges, tol) := c in
  let y := of_list data in
  let n := Z.of_nat (length data) in
  if what =? 0 then check_typed p n tol (pad_edges_typed y (container_of_code cc) p (mode_of code ew)) expected
  else
    match get_edges_typed y (container_of_code cc) p (mode_of code ew), eedges with
    | Ok (l, r, od), Some (ed, el, er) =>
        (dcode od =? ed) && (vlen l =? Z.of_nat (length el)) && (vlen r =? Z.of_nat (length er))
        && cmp_tol tol (vtab l) el && cmp_tol tol (vtab r) er
    | Err _, None => true
    | _, _ => false
    end."""


def corr_pad_typed(ctx):
    utils = B.U()
    lits = []
    for (label, cc, dt_name, build) in containers():
        for (n, p, mode, ew, pat) in pad_grid():
            vs = values_for(dt_name, n, pat)
            if not usable(label, dt_name, vs):
                continue
            if dt_name == 'float16' and mode == 'extrapolate' and p != 0 and ew != 1:
                continue        # np.linalg does not support float16: the library raises TypeError
            st, out = B.call(utils.pad_edges, build(vs), p, **B.pad_kwargs(mode, ew))
            ctx.case(('tpad', label, n, p, mode, repr(ew), pat), nontrivial=p > 0 and dt_name != 'float64',
                     kind=f'typed:pad:{dt_name}')
            if st == 'err':
                exp, tol = 'None', Fraction(0)
            else:
                tol = B.tol_for(out, [float(v) for v in vs]) if mode == 'extrapolate' else Fraction(0)
                exp = f'Some ({DCODE[dname(out.dtype)]}, {B.qlist(B.fr_list(out))})'
            lits.append(f'(0, {cc}, {B.qlist(vs)}, {zl(p)}, {B.MODE_CODE[mode]}, {B.ew_lit(ew)}, {exp}, None, {B.ql(tol)})')
        # _get_edges
        for (n, p, mode, ew) in ((4, 0, 'extrapolate', None), (4, 2, 'extrapolate', None), (4, 2, 'extrapolate', 1),
                                 (4, 2, 'extrapolate', 3), (4, 2, 'edge', None), (4, 3, 'reflect', None),
                                 (4, 0, 'edge', None)):
            vs = values_for(dt_name, n, 'counts')
            if not usable(label, dt_name, vs):
                continue
            if dt_name == 'float16' and mode == 'extrapolate' and p != 0 and ew != 1:
                continue
            st, out = B.call(utils._get_edges, build(vs), p, **B.pad_kwargs(mode, ew))
            ctx.case(('tedges', label, n, p, mode, repr(ew)), nontrivial=p > 0, kind=f'typed:get_edges:{dt_name}')
            if st == 'err':
                exp, tol = 'None', Fraction(0)
            else:
                l, r = np.asarray(out[0]), np.asarray(out[1])
                tol = B.tol_for(np.concatenate((l.astype(float), r.astype(float), [0.0])), [float(v) for v in vs]) if mode == 'extrapolate' else Fraction(0)
                if l.dtype != r.dtype:
                    ctx.fail('get_edges:dtype', f'_get_edges({label}, {p}, {mode!r}) returns edges of different dtypes {l.dtype}, {r.dtype}',
                             fail_case('edges-typed', label, vs, pad_length=p, mode=mode, extrapolate_window=ew))
                exp = f'Some ({DCODE[dname(l.dtype)]}, {B.qlist(B.fr_list(l))}, {B.qlist(B.fr_list(r))})'
            lits.append(f'(1, {cc}, {B.qlist(vs)}, {zl(p)}, {B.MODE_CODE[mode]}, {B.ew_lit(ew)}, None, {exp}, {B.ql(tol)})')
    ctx.sample({'kind': 'typed pad_edges', 'container': 'list:int', 'data': [3, 4, 4], 'pad_length': 1, 'mode': 'extrapolate',
                'extrapolate_window': 3, 'expected_dtype': 'float64'})
    return B.run_cases(ctx, 'typed_pad_edges', TP_DECL, TP_OK, lits, per=450, header=HEADER)


# ---------------------------------------------------------------- padded_convolve, typed
TC_DECL = 'Z * Z * list Q * list Q * Z * option (list Z) * option (Z * list Q) * Q'
TC_OK = """Definition ok (c : Z * Z * list Q * list Q * Z * option (list Z) * option (Z * list Q) * Q) : bool :=
  let '(cc, kc, data, ker, code, ew, expected, tol) := c in
  match padded_convolve_typed (of_list data) (of_list ker) (container_of_code cc) (container_of_code kc) (mode_of code ew), expected with
  | Ok (out, od), Some (ed, ev) => (dcode od =? ed) && (vlen out =? Z.of_nat (length ev)) && cmp_tol tol (vtab out) ev
  | Err _, None => true
  | _, _ => false
  end."""


def kernels_for(dt_name):
    ks = [('int64', 4, [Fraction(1), Fraction(2), Fraction(1)], lambda v: np.array([int(x) for x in v], dtype=np.int64)),
          ('float64', 11, [Fraction(1, 4), Fraction(1, 2), Fraction(1, 4)], lambda v: np.array([float(x) for x in v])),
          ('list:int', 12, [Fraction(x) for x in (1, 2, 1, 1, 1, 2, 1, 1, 1)], lambda v: [int(x) for x in v])]
    if dt_name != 'bool':
        dt = np.dtype(dt_name).type
        ks.append((dt_name, DCODE[dt_name], [Fraction(x) for x in (1, 1, 0, 1)],
                   lambda v, dt=dt: np.array([float(x) for x in v]).astype(dt)))
    return ks


def corr_conv_typed(ctx):
    utils = B.U()
    lits = []
    for (label, cc, dt_name, build) in containers():
        for n in (4, 7):
            vs = values_for(dt_name, n, 'counts')
            if not usable(label, dt_name, vs):
                continue
            for (klabel, kc, kv, kbuild) in kernels_for(dt_name):
                for (mode, ew) in (('reflect', None), ('edge', None), ('extrapolate', None), ('extrapolate', 2)):
                    if dt_name == 'float16' and mode == 'extrapolate':
                        continue
                    kw = dict(mode=mode) if ew is None else dict(mode=mode, extrapolate_window=ew)
                    st, out = B.call(utils.padded_convolve, build(vs), kbuild(kv), **kw)
                    ctx.case(('tconv', label, n, klabel, mode, repr(ew)), nontrivial=st == 'ok', kind=f'typed:conv:{dt_name}')
                    if st == 'err':
                        exp, tol = 'None', Fraction(0)
                    else:
                        tol = B.tol_for(out, [float(v) for v in vs]) if mode == 'extrapolate' else Fraction(0)
                        exp = f'Some ({DCODE[dname(out.dtype)]}, {B.qlist(B.fr_list(out))})'
                    lits.append(f'({cc}, {kc}, {B.qlist(vs)}, {B.qlist(kv)}, {B.MODE_CODE[mode]}, {B.ew_lit(ew)}, {exp}, {B.ql(tol)})')
    return B.run_cases(ctx, 'typed_padded_convolve', TC_DECL, TC_OK, lits, per=450, header=HEADER)


# ---------------------------------------------------------------- pad_edges2d, typed
T2_DECL = 'Z * list (list Q) * Z * Z * option (list Z) * option (Z * list (list Q)) * Q'
T2_OK = """Definition ok (c : Z * list (list Q) * Z * Z * option (list Z) * option (Z * list (list Q)) * Q) : bool :=
  let '(cc, rows, a, b, ew, expected, tol) := c in
  match extrapolate2d (mat_of_rows rows) a b ew, expected with
  | Ok out, Some (ed, e) => (dcode (pad2d_dtype true (asarray_dtype (container_of_code cc))) =? ed) && cmp_otab tol (otab out) e
  | Err _, None => true
  | _, _ => false
  end."""


def containers2d():
    out = []
    for name in ['int64'] + [n for n in DT_NAMES if n != 'int64']:
        dt = np.bool_ if name == 'bool' else np.dtype(name).type
        out.append((f'ndarray:{name}', DCODE[name], name, (lambda rows, dt=dt: np.array([[float(v) for v in r] for r in rows]).astype(dt))))
    out.append(('nested-list:int', 12, 'int64', lambda rows: [[int(v) for v in r] for r in rows]))
    for name in ('int32', 'float64'):
        dt = np.dtype(name).type
        out.append((f'fortran:{name}', DCODE[name], name,
                    (lambda rows, dt=dt: np.asfortranarray(np.array([[float(v) for v in r] for r in rows]).astype(dt)))))
        out.append((f'transposed-view:{name}', DCODE[name], name,
                    (lambda rows, dt=dt: np.array([[float(v) for v in r] for r in rows]).astype(dt).T.copy().T)))
        out.append((f'negative-strides:{name}', DCODE[name], name,
                    (lambda rows, dt=dt: np.array([[float(v) for v in r][::-1] for r in rows][::-1]).astype(dt)[::-1, ::-1])))
    return out


def rows_for(dt_name, r, c):
    if dt_name == 'bool':
        return [[Fraction(BOOLS[(i * c + j) % len(BOOLS)]) for j in range(c)] for i in range(r)]
    return [[Fraction(COUNTS[(i * 2 + j) % len(COUNTS)] + i) for j in range(c)] for i in range(r)]


def corr_2d_typed(ctx):
    utils = B.U()
    lits = []
    found = 0
    for (label, cc, dt_name, build) in containers2d():
        for (r, c) in ((2, 3), (4, 4)):
            rows = rows_for(dt_name, r, c)
            data = build(rows)
            for ew in (None, 2, [1, 3]):
                st, out = B.call(utils.pad_edges2d, data, [1, 2], mode='extrapolate', extrapolate_window=ew)
                ctx.case(('t2d', label, r, c, repr(ew)), nontrivial=st == 'ok', kind=f'typed:pad2d:{dt_name}')
                ecase = {'kind': 'pad2d-typed', 'container': label, 'rows': [[str(v) for v in row] for row in rows],
                         'pad_length': [1, 2], 'mode': 'extrapolate', 'extrapolate_window': ew}
                if st == 'err':
                    exp, tol = 'None', Fraction(0)
                    ctx.fail('pad_edges2d:raises:extrapolate', f'pad_edges2d({label} shape {(r, c)}, [1, 2], extrapolate, window={ew}) raised {out}', ecase)
                    found += 1
                else:
                    tol = B.tol_for(out, [[float(v) for v in row] for row in rows])
                    exp = f'Some ({DCODE[dname(out.dtype)]}, {B.qrows([B.fr_list(row) for row in out])})'
                    # direct oracle: float64 output, data in the centre, least-squares continuation in rationals
                    if out.dtype != np.float64:
                        ctx.fail('pad_edges2d:dtype:extrapolate', f'pad_edges2d({label} shape {(r, c)}, [1, 2], extrapolate, window={ew}) returns dtype '
                                 f'{out.dtype}; the fitted values need float64', ecase)
                        found += 1
                    ref = B.ref_extrapolate2d(rows, 1, 2, ew)
                    scale = max([Fraction(1)] + [abs(v) for row in ref for v in row])
                    if out.shape != (r + 2, c + 4) or any(not rel_close(out[i, j], ref[i][j], scale) for i in range(r + 2) for j in range(c + 4)):
                        ctx.fail('pad_edges2d:extrapolate:value', f'pad_edges2d({label} shape {(r, c)}, [1, 2], extrapolate, window={ew}) (output dtype {out.dtype}) '
                                 'differs from the least-squares continuation computed in rationals', ecase)
                        found += 1
                lits.append(f'({cc}, {B.qrows(rows)}, 1, 2, {B.ew_lit(ew)}, {exp}, {B.ql(tol)})')
            # numpy modes: dtype of the input, shape, interior (oracle)
            for mode in NP_MODES:
                st, out = B.call(utils.pad_edges2d, data, [2, 1], mode=mode)
                ctx.case(('t2d-np', label, r, c, mode), nontrivial=True, kind=f'oracle:typed:pad2d:{mode}')
                case = {'kind': 'pad2d-typed', 'container': label, 'rows': [[str(v) for v in row] for row in rows],
                        'pad_length': [2, 1], 'mode': mode, 'extrapolate_window': None}
                ref = np.asarray(data)
                if st == 'err':
                    ctx.fail(f'pad_edges2d:raises:{mode}', f'pad_edges2d({label} shape {(r, c)}, [2, 1], {mode!r}) raised {out}', case)
                    found += 1
                elif out.dtype != ref.dtype or out.shape != (r + 4, c + 2) or not np.array_equal(out[2:2 + r, 1:1 + c], ref):
                    ctx.fail('pad_edges2d:dtype-shape-interior', f'pad_edges2d({label} shape {(r, c)}, [2, 1], {mode!r}) -> dtype {out.dtype} '
                             f'(input {ref.dtype}), shape {out.shape}, or interior changed', case)
                    found += 1
    ok = B.run_cases(ctx, 'typed_extrapolate2d', T2_DECL, T2_OK, lits, per=80, header=HEADER)
    return ok, found


# ---------------------------------------------------------------- gaussian_kernel: scalar types of the arguments
def corr_kernels_typed(ctx):
    utils = B.U()
    lits = []
    ws_objs = [('int', 5), ('int', 0), ('np.int8', np.int8(6)), ('np.int16', np.int16(3)), ('np.int32', np.int32(4)),
               ('np.int64', np.int64(7)), ('np.uint8', np.uint8(5)), ('np.uint8', np.uint8(0)), ('np.uint64', np.uint64(4)),
               ('bool', True), ('float', 5.0), ('np.float32', np.float32(4.0)), ('np.int64', np.int64(-3))]
    sg_objs = [('int', 2, Fraction(2)), ('float', 1.5, Fraction(3, 2)), ('np.float32', np.float32(1.5), Fraction(3, 2)),
               ('np.int64', np.int64(2), Fraction(2)), ('np.float16', np.float16(0.5), Fraction(1, 2)), ('np.uint8', np.uint8(3), Fraction(3))]
    for (wl, ws) in ws_objs:
        for (sl, sg, sq) in sg_objs:
            st, g = B.call(utils.gaussian_kernel, ws, sg)
            ctx.case(('tk', wl, repr(ws), sl), nontrivial=True, kind='typed:gaussian_kernel')
            case = {'kind': 'gauss-typed', 'window_size': repr(ws), 'sigma': repr(sg)}
            if st == 'err':
                ctx.fail('gaussian_kernel:raises', f'gaussian_kernel({ws!r}, {sg!r}) raised {g}', case)
                continue
            n = max(1, int(ws))
            if g.dtype != np.float64:
                ctx.fail('gaussian_kernel:dtype', f'gaussian_kernel({ws!r}, {sg!r}) returns dtype {g.dtype}, not float64', case)
            args = [-Fraction(1, 2) * (Fraction(i) - Fraction(n - 1, 2)) ** 2 / (sq * sq) for i in range(n)]
            lits.append(f'({zl(int(ws))}, {B.ql(sq)}, {B.exp_table(args)}, {DCODE[dname(g.dtype)]}, {B.qlist(B.fr_list(g))})')
    okdef = B.KER_OK.split('Definition ok')[0] + """Definition ok (c : Z * Q * list (Q * Q) * Z * list Q) : bool :=
  let '(ws, sigma, table, ed, expected) := c in
  let g := gaussian_kernel (lookupQ table) ws sigma in
  (dcode kernel_dtype =? ed) && (vlen g =? Z.of_nat (length expected)) && cmp_tol (1 # 1000000000000) (vtab g) expected."""
    return B.run_cases(ctx, 'typed_gaussian_kernel', 'Z * Q * list (Q * Q) * Z * list Q', okdef, lits, per=100, header=HEADER)


# ---------------------------------------------------------------- direct oracle on the implementation
def rel_close(a, b, scale, rel=1e-8):
    return abs(Fraction(float(a)) - b) <= Fraction(rel) * scale


def oracle_pad_typed(ctx):
    """Every container x fixed (N, p) x all eleven numpy modes + 'extrapolate' windows: dtype, length,
    interior, and the added points against the least-squares continuation computed in rationals."""
    utils = B.U()
    found = 0
    for (label, cc, dt_name, build) in containers():
        for n in (2, 3, 6, 10):
            for pat in ('linear', 'counts'):
                vs = values_for(dt_name, n, pat)
                if not usable(label, dt_name, vs):
                    continue
                for p in (0, 1, 4, 3 * n):
                    specs = [(m, None) for m in NP_MODES] + [('extrapolate', ew) for ew in (None, 1, 2, 3, n, [n + 1, 2])]
                    for (mode, ew) in specs:
                        if dt_name == 'float16' and mode == 'extrapolate' and p != 0 and ew != 1:
                            continue
                        data = build(vs)
                        st, out = B.call(utils.pad_edges, data, p, **B.pad_kwargs(mode, ew))
                        ctx.case(('o-tpad', label, n, pat, p, mode, repr(ew)), nontrivial=p > 0, kind=f'oracle:typed:pad:{mode}')
                        case = fail_case('pad-typed', label, vs, pad_length=p, mode=mode, extrapolate_window=ew)
                        mclass = 'extrapolate' if mode == 'extrapolate' else 'numpy-mode'
                        if st == 'err':
                            ctx.fail(f'pad_edges:raises:{mclass}:typed', f'pad_edges({label} N={n}, {p}, {mode!r}, window={ew}) raised {out}', case)
                            found += 1
                            continue
                        want = expect_pad_dtype(mode, p, dname(np.asarray(data).dtype))
                        if dname(out.dtype) != want:
                            ctx.fail(f'pad_edges:dtype:{mclass}', f'pad_edges({label} N={n}, pad_length={p}, {mode!r}, window={ew}) returns dtype '
                                     f'{out.dtype}; the documented result is {want} (float64 line values for extrapolate, input dtype for numpy.pad modes)', case)
                            found += 1
                        if out.shape != (n + 2 * p,) or any(Fraction(float(a)) != b for a, b in zip(out[p:p + n], vs)):
                            ctx.fail(f'pad_edges:len-interior:{mclass}:typed', f'pad_edges({label} N={n}, {p}, {mode!r}): shape {out.shape} or interior changed', case)
                            found += 1
                            continue
                        if mode == 'extrapolate' and p > 0:
                            ref = B.ref_pad_extrapolate(vs, p, ew)
                            scale = max([Fraction(1)] + [abs(v) for v in ref])
                            bad = [i for i, (a, b) in enumerate(zip(out, ref)) if not rel_close(a, b, scale)]
                            if bad:
                                i = bad[0]
                                ctx.fail('pad_edges:extrapolate:not-least-squares-line',
                                         f'pad_edges({label} N={n}, pad_length={p}, extrapolate_window={ew}): added point {i} is {out[i]!r} '
                                         f'(output dtype {out.dtype}), the least-squares continuation is {float(ref[i])!r}', case)
                                found += 1
    return found


def oracle_magnitudes(ctx):
    """float64 data at extreme but finite magnitudes: relative judgement against rationals."""
    utils = B.U()
    found = 0
    for sc in (1e-300, 1e-150, 1e-30, 1e30, 1e150, 1e300):
        for n in (3, 9):
            y = np.array(COUNTS[:n], dtype=float) * sc
            vs = [Fraction(float(v)) for v in y]
            for p in (1, n + 2, 3 * n):
                for ew in (None, 1, 2, [3, 2 * n]):
                    st, out = B.call(utils.pad_edges, y, p, mode='extrapolate', extrapolate_window=ew)
                    ctx.case(('o-mag', sc, n, p, repr(ew)), nontrivial=True, kind='oracle:magnitude:pad')
                    case = {'kind': 'pad', 'data': y.tolist(), 'pad_length': p, 'mode': 'extrapolate', 'extrapolate_window': ew}
                    if st == 'err' or out.shape != (n + 2 * p,) or not np.array_equal(out[p:p + n], y):
                        ctx.fail('pad_edges:len-interior:extrapolate', f'pad_edges(scale {sc}, N={n}, {p}, window={ew}) -> {out if st == "err" else out.shape}', case)
                        found += 1
                        continue
                    ref = B.ref_pad_extrapolate(vs, p, ew)
                    scale = max(abs(v) for v in ref)
                    if any(not rel_close(a, b, scale) for a, b in zip(out, ref)):
                        ctx.fail('pad_edges:extrapolate:not-least-squares-line',
                                 f'pad_edges(data of magnitude {sc}, N={n}, pad_length={p}, window={ew}) leaves the least-squares line (relative 1e-8)', case)
                        found += 1
                for mode in NP_MODES:
                    st, out = B.call(utils.pad_edges, y, p, mode=mode)
                    ctx.case(('o-mag-np', sc, n, p, mode), nontrivial=True, kind='oracle:magnitude:pad')
                    if st == 'err' or out.shape != (n + 2 * p,) or not np.array_equal(out[p:p + n], y):
                        ctx.fail(f'pad_edges:len-interior:{mode}', f'pad_edges(scale {sc}, N={n}, {p}, {mode!r}) -> {out if st == "err" else out.shape}',
                                 {'kind': 'pad', 'data': y.tolist(), 'pad_length': p, 'mode': mode, 'extrapolate_window': None})
                        found += 1
        k = np.array([0.25, 0.5, 0.25])
        c = np.full(6, 3.0 * sc)
        for mode in ('reflect', 'edge', 'extrapolate'):
            st, out = B.call(utils.padded_convolve, c, k, mode=mode)
            ctx.case(('o-mag-conv', sc, mode), nontrivial=True, kind='oracle:magnitude:conv')
            if st == 'err' or out.shape != (6,) or not np.allclose(out / sc, 3.0, rtol=1e-9, atol=0):
                ctx.fail('padded_convolve:constant-changed', f'padded_convolve(constant {3.0 * sc}, normalised kernel, {mode!r}) -> {out}',
                         {'kind': 'conv', 'data': c.tolist(), 'kernel': k.tolist(), 'mode': mode})
                found += 1
        y2 = np.array([COUNTS[0:4], COUNTS[2:6], COUNTS[4:8]], dtype=float) * sc
        rows = [[Fraction(float(v)) for v in r] for r in y2]
        for layout, arr in (('C', y2), ('F', np.asfortranarray(y2)), ('neg', y2[::-1, ::-1][::-1, ::-1])):
            for ew in (None, 2, [1, 3]):
                st, out = B.call(utils.pad_edges2d, arr, [2, 3], mode='extrapolate', extrapolate_window=ew)
                ctx.case(('o-mag-2d', sc, layout, repr(ew)), nontrivial=True, kind='oracle:magnitude:pad2d')
                case = {'kind': 'pad2d', 'data': y2.tolist(), 'pad_length': [2, 3], 'mode': 'extrapolate', 'extrapolate_window': ew}
                if st == 'err' or out.shape != (7, 10):
                    ctx.fail('pad_edges2d:raises:extrapolate', f'pad_edges2d(magnitude {sc}, layout {layout}) -> {out if st == "err" else out.shape}', case)
                    found += 1
                    continue
                ref = B.ref_extrapolate2d(rows, 2, 3, ew)
                scale = max(abs(v) for r in ref for v in r)
                if any(not rel_close(out[i, j], ref[i][j], scale) for i in range(7) for j in range(10)):
                    ctx.fail('pad_edges2d:extrapolate:value', f'pad_edges2d(data of magnitude {sc}, layout {layout}, window={ew}) leaves the least-squares continuation', case)
                    found += 1
    return found


def oracle_conv_typed(ctx):
    """constant data in every dtype, normalised float kernel with M <= N: unchanged, float64, length N."""
    utils = B.U()
    found = 0
    k = [0.25, 0.5, 0.25]
    for (label, cc, dt_name, build) in containers():
        for n in (3, 8):
            vs = [Fraction(1)] * n if dt_name == 'bool' else [Fraction(5)] * n
            if not usable(label, dt_name, vs):
                continue
            for kobj in (np.array(k), k, tuple(k), np.array(k, dtype=np.float32)):
                for mode in ('reflect', 'edge', 'extrapolate', 'mean'):
                    if dt_name == 'float16' and mode == 'extrapolate':
                        continue
                    st, out = B.call(utils.padded_convolve, build(vs), kobj, mode=mode)
                    ctx.case(('o-tconv', label, n, type(kobj).__name__, str(getattr(kobj, 'dtype', '')), mode), nontrivial=True,
                             kind=f'oracle:typed:conv:{dt_name}')
                    case = fail_case('conv-typed', label, vs, kernel=k, kernel_type=type(kobj).__name__ + ':' + str(getattr(kobj, 'dtype', '')), mode=mode)
                    if st == 'err' or out.shape != (n,):
                        ctx.fail('padded_convolve:length', f'padded_convolve({label} N={n}, normalised kernel, {mode!r}) -> {out if st == "err" else out.shape}', case)
                        found += 1
                        continue
                    rtol = 1e-3 if out.dtype == np.float16 else 1e-6 if out.dtype == np.float32 else 1e-9
                    if out.dtype.kind != 'f' or not np.allclose(out.astype(float), float(vs[0]), rtol=rtol, atol=0):
                        ctx.fail('padded_convolve:constant-changed', f'padded_convolve({label} N={n}, constant {float(vs[0])}, normalised kernel of length 3, '
                                 f'{mode!r}) -> dtype {out.dtype}, values {out.tolist()}', case)
                        found += 1
    return found


def oracle_ow_typed(ctx):
    utils = B.U()
    found = 0
    x = np.arange(60)
    base = np.round(20 * np.exp(-0.5 * ((x - 30) / 3.0) ** 2) + 30)
    objs = [(n, base.astype(np.dtype(n))) for n in DT_NAMES if n not in ('bool', 'float16')]
    objs += [('list:int', [int(v) for v in base]), ('tuple:float', tuple(float(v) for v in base)),
             ('reversed-view:int32', base[::-1].astype(np.int32)[::-1]), ('2d:int16', np.tile(base.astype(np.int16), (5, 1))),
             ('2d:fortran:float32', np.asfortranarray(np.tile(base.astype(np.float32), (5, 1)))),
             ('const:uint8', np.full(40, 7, dtype=np.uint8)), ('tiny:int64', np.array([1, 2], dtype=np.int64))]
    for (label, data) in objs:
        for kw in ({}, {'increment': 2, 'max_hits': 1}, {'min_half_window': 2, 'max_half_window': 9}):
            st, out = B.call(utils.optimize_window, data, **kw)
            ctx.case(('o-tow', label, tuple(sorted(kw.items()))), nontrivial=True, kind='oracle:typed:optimize_window')
            case = {'kind': 'ow-typed', 'label': label, 'kwargs': kw}
            two_d = np.asarray(data).ndim == 2
            if st == 'err':
                ctx.fail('optimize_window:raises', f'optimize_window({label}, {kw}) raised {out}', case)
                found += 1
                continue
            o = np.asarray(out)
            okay = o.shape == ((2,) if two_d else ()) and np.issubdtype(o.dtype, np.integer) and np.all(o >= 1)
            if not two_d:
                okay = okay and isinstance(out, (int, np.integer))
            if not okay:
                ctx.fail('optimize_window:not-int-ge-1', f'optimize_window({label}, {kw}) returned {out!r}', case)
                found += 1
    return found


def run_all(ctx):
    """correspondences first (model tie), then the typed oracles; returns number of failing inputs."""
    corr_result_type(ctx)
    corr_pad_typed(ctx)
    corr_conv_typed(ctx)
    _ok, found = corr_2d_typed(ctx)
    corr_kernels_typed(ctx)
    found += oracle_pad_typed(ctx) + oracle_magnitudes(ctx) + oracle_conv_typed(ctx) + oracle_ow_typed(ctx)
    return found


def replay(case):
    utils = B.U()
    kind = case.get('kind')
    if kind in ('pad-typed', 'edges-typed', 'conv-typed'):
        vs = [Fraction(v) for v in case['values']]
        data = rebuild(case['container'], vs)
        if kind == 'conv-typed':
            st, out = B.call(utils.padded_convolve, data, np.array(case['kernel']), mode=case['mode'])
            print('replay padded_convolve', case['container'], '->', st, out if st == 'err' else (str(out.dtype), out.tolist()))
            return 1
        fn = utils.pad_edges if kind == 'pad-typed' else utils._get_edges
        st, out = B.call(fn, data, case['pad_length'], **B.pad_kwargs(case['mode'], case.get('extrapolate_window')))
        if st == 'err' or kind == 'edges-typed':
            print('replay', fn.__name__, case['container'], '->', st, out)
            return 1
        print('replay pad_edges', case['container'], '-> dtype', out.dtype, out.tolist())
        bad = dname(out.dtype) != expect_pad_dtype(case['mode'], case['pad_length'], dname(np.asarray(data).dtype))
        if case['mode'] == 'extrapolate' and case['pad_length'] > 0:
            ref = B.ref_pad_extrapolate(vs, case['pad_length'], case.get('extrapolate_window'))
            print('least-squares reference (rationals):', [float(v) for v in ref])
            scale = max([Fraction(1)] + [abs(v) for v in ref])
            bad = bad or any(not rel_close(a, b, scale) for a, b in zip(out, ref))
        print('property', 'VIOLATED' if bad else 'holds', 'on this input')
        return 1 if bad else 0
    if kind == 'pad2d-typed':
        for lab, _cc, _dn, build in containers2d():
            if lab == case['container']:
                data = build([[Fraction(v) for v in r] for r in case['rows']])
                st, out = B.call(utils.pad_edges2d, data, case['pad_length'], **B.pad_kwargs(case['mode'], case.get('extrapolate_window')))
                print('replay pad_edges2d', lab, '->', st, out if st == 'err' else (str(out.dtype), out.tolist()))
        return 1
    print('replay (typed): case', case)
    return 1
