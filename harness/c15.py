"""C15 -- invalid inputs are rejected with ValueError/TypeError.  See DESIGN.md section 4 / C15."""
import json
import math
import os
import re
import warnings
from fractions import Fraction

import numpy as np

from . import c15_oracle as O
from .common import COQ, coqbool, zl

PROP = 'C15'

HEADER = """From Coq Require Import ZArith QArith List Bool String.
From PB Require Import lib.CaseUtil C15.Model.
Import ListNotations.
Open Scope Z_scope.
Definition exc_eqb (a b : exc) : bool :=
  match a, b with VErr, VErr | TErr, TErr | OErr, OErr => true | _, _ => false end.
Definition oexc_eqb (a b : option exc) : bool :=
  match a, b with None, None => true | Some x, Some y => exc_eqb x y | _, _ => false end.
"""

NAN, INF = float('nan'), float('inf')


# ---------------------------------------------------------------- Coq literals
def coq_sc(v):
    if isinstance(v, (bool, np.bool_)):
        return f'(Bl {coqbool(bool(v))})'
    if isinstance(v, (int, np.integer)):
        return f'(Int {zl(int(v))})'
    v = float(v)
    if math.isnan(v):
        return 'NaN'
    if math.isinf(v):
        return 'PosInf' if v > 0 else 'NegInf'
    fr = Fraction(v)
    return f'(Frac ({zl(fr.numerator)} # {fr.denominator}))'


def coq_value(v):
    if v is None:
        return 'NoneV'
    if isinstance(v, str):
        return 'Str'
    if isinstance(v, np.ndarray):
        return '(Arr [' + '; '.join(coq_sc(e) for e in v.ravel().tolist()) + '])'
    if isinstance(v, (list, tuple)):
        return '(Lst [' + '; '.join(coq_sc(e) for e in v) + '])'
    return f'(Sc {coq_sc(v)})'


def exc_name(exc):
    if isinstance(exc, OverflowError):
        return 'Some OErr'
    if isinstance(exc, TypeError):
        return 'Some TErr'
    if isinstance(exc, ValueError):
        return 'Some VErr'
    return 'other:' + type(exc).__name__


# ---------------------------------------------------------------- implementation side of one guard
def impl_guard(g, v):
    from pybaselines import _validation as V
    kind = g[0]
    with warnings.catch_warnings():
        warnings.simplefilter('ignore')
        try:
            if kind == 'csv':
                _, az, td, dt = g
                kw = {'dtype': {'int': int, 'intp': np.intp, 'float': float}[dt]}
                V._check_scalar_variable(v, allow_zero=az, two_d=td, **kw)
            elif kind == 'lam':
                V._check_lam(v, g[1], g[2])
            elif kind == 'hw':
                V._check_half_window(v, allow_zero=g[1], two_d=g[2])
            elif kind == 'range':
                lo = (lambda a, b: a < b) if g[1] else (lambda a, b: a <= b)
                hi = (lambda a, b: a < b) if g[2] else (lambda a, b: a <= b)
                if not (lo(0, v) and hi(v, 1)):
                    raise ValueError('range')
            elif kind == 'lt':
                if v < g[1]:
                    raise ValueError('lt')
            elif kind == 'nplessany':
                if np.less(v, g[1]).any():
                    raise ValueError('np.less')
            elif kind == 'notin':
                if v not in set(g[1]):
                    raise ValueError('not in')
            elif kind == 'bs':
                from pybaselines import Baseline
                Baseline().banded_solver = v
        except Exception as exc:  # noqa
            return exc_name(exc)
    return 'None'


def coq_guard(g):
    kind = g[0]
    if kind == 'csv':
        return f'(GCSV {coqbool(g[1])} {coqbool(g[2])} {"DtFloat" if g[3] == "float" else "DtInt"})'
    if kind == 'lam':
        return f'(GCSV {coqbool(g[1])} {coqbool(g[2])} DtFloat)'
    if kind == 'hw':
        return f'(GHalfWindow {coqbool(g[1])} {coqbool(g[2])})'
    if kind == 'range':
        return f'(GRange01 {coqbool(g[1])} {coqbool(g[2])})'
    if kind == 'lt':
        return f'(GLt {zl(g[1])})'
    if kind == 'nplessany':
        return f'(GNpLessAny {zl(g[1])})'
    if kind == 'notin':
        return '(GNotIn [' + '; '.join(zl(k) for k in g[1]) + '])'
    raise ValueError(kind)


GUARDS = ([('csv', az, td, dt) for az in (False, True) for td in (False, True) for dt in ('int', 'intp', 'float')]
          + [('lam', az, td) for az in (False, True) for td in (False, True)]
          + [('hw', az, td) for az in (False, True) for td in (False, True)]
          + [('range', a, b) for a in (False, True) for b in (False, True)]
          + [('lt', c) for c in (0, 1, 2)] + [('nplessany', 2)] + [('notin', [2, 4, 6, 8])])

FMAX = 2 ** 1024 - 2 ** 970


def value_grid(rng, n_random):
    ints = [-3, -2, -1, 0, 1, 2, 3, 4, 5, 8, 2 ** 62, -2 ** 62, 2 ** 63 - 1, 2 ** 63, -2 ** 63, -2 ** 63 - 1,
            10 ** 30, -10 ** 30, FMAX - 1, FMAX, -FMAX, 2 ** 1024]
    floats = [0.0, -0.0, 0.5, 1.0, 1.5, 2.0, 2.5, 3.0, -0.5, -1.0, -2.5, 1e-300, 0.9999999999999999,
              1.0000000000000002, 4.0, 6.0, 9.2e18, 9.3e18, -9.2e18, -9.3e18, 1e30, -1e30, 1e308, NAN, INF, -INF]
    for _ in range(n_random):
        ints.append(rng.randint(-50, 50))
        floats.append(rng.choice([rng.uniform(-3, 3), round(rng.uniform(-6, 6)) + 0.0, rng.uniform(-1e6, 1e6)]))
    scalars = ints + floats + [True, False]
    vals = list(scalars) + [None, 'abc']
    small_i = [-1, 0, 1, 2, 3, 4]
    small_f = [-0.5, 0.0, 0.5, 1.0, 2.0, 2.5, NAN]
    # lists (Python semantics per element) and arrays (homogeneous, in-range elements)
    for k in (0, 1, 2, 3):
        for _ in range(6 if k else 1):
            vals.append([rng.choice(small_i + small_f + [INF, -INF, True, 10 ** 30]) for _ in range(k)])
            vals.append(np.array([rng.choice(small_i) for _ in range(k)], dtype=int))
            vals.append(np.array([rng.choice(small_f) for _ in range(k)], dtype=float))
    vals += [np.array([True]), np.array([False]), np.array(2.5), np.array(3), [True], [2 ** 63]]
    return vals


def nontrivial_value(v):
    return not (isinstance(v, (int, float)) and not isinstance(v, bool) and v == v and 1 <= v <= 5)


def correspondence(ctx):
    vals = value_grid(ctx.rng, ctx.n(40, 400))
    lits = []
    for g in GUARDS:
        for v in vals:
            if g[0] == 'csv' and g[3] == 'intp' and False:
                continue
            exp = impl_guard(g, v)
            canon = (g, repr(v))
            ctx.case(canon, nontrivial=nontrivial_value(v), kind=f'guard:{g[0]}')
            if exp.startswith('other:'):
                # the model has ValueError/TypeError/OverflowError only
                ctx.broke('correspondence:validators', f'guard {g} on {v!r} raised {exp[6:]}, which the model cannot express')
                continue
            lits.append(f'({coq_guard(g)}, {coq_value(v)}, {exp})')
    ctx.sample({'kind': 'guard-case', 'guard': list(GUARDS[14]), 'value': repr(vals[30])})
    # banded_solver setter
    bs = []
    for v in vals:
        if isinstance(v, np.ndarray) and v.size != 1:
            pass
        exp = impl_guard(('bs',), v)
        ctx.case(('bs', repr(v)), nontrivial=True, kind='guard:banded_solver')
        if exp.startswith('other:'):
            ctx.broke('correspondence:banded_solver', f'banded_solver={v!r} raised {exp[6:]}')
            continue
        bs.append(f'({coq_value(v)}, {exp})')
    bad_any = False
    per = 450
    shards = [lits[k:k + per] for k in range(0, len(lits), per)]

    def eval_shard(ks):
        k, sh = ks
        text = HEADER + f"""
Definition cases : list (guard * value * option exc) := [
{chr(10).join('  ' + l + (';' if i + 1 < len(sh) else '') for i, l in enumerate(sh))}
].
Definition ok (c : guard * value * option exc) : bool :=
  let '(g, v, e) := c in oexc_eqb (run_guard g v) e.
Eval vm_compute in (bad ok cases).
"""
        return k, sh, ctx.coq_eval(f'guards{k}', text)

    from concurrent.futures import ThreadPoolExecutor
    with ThreadPoolExecutor(max_workers=6) as pool:
        results = list(pool.map(eval_shard, list(enumerate(shards))))
    for k, sh, vals_out in sorted(results, key=lambda r: r[0]):
        if vals_out is None:
            bad_any = True
        elif not vals_out or not (vals_out[0].startswith('(0%nat, [])') or vals_out[0].startswith('(0, [])')):
            bad_any = True
            idx = re.findall(r'\d+', vals_out[0] if vals_out else '')
            first = sh[int(idx[1])] if len(idx) > 1 and int(idx[1]) < len(sh) else ''
            ctx.broke(f'correspondence:validators-shard{k}',
                      f'model and implementation disagree on a validator decision: {vals_out} first={first[:200]}')
    ctx.obligations.append('correspondence:validator-decisions(_check_scalar_variable,_check_lam,_check_half_window,inline guards)')
    if not bad_any and not any(n.startswith('correspondence:validators') for n, _ in ctx.broken):
        ctx.discharged.append('correspondence:validator-decisions(_check_scalar_variable,_check_lam,_check_half_window,inline guards)')
    text = HEADER + f"""
Definition cases : list (value * option exc) := [
{chr(10).join('  ' + l + (';' if i + 1 < len(bs) else '') for i, l in enumerate(bs))}
].
Definition ok (c : value * option exc) : bool :=
  let '(v, e) := c in oexc_eqb (of_res (banded_solver_set v)) e.
Eval vm_compute in (bad ok cases).
"""
    out = ctx.coq_eval('banded_solver', text)
    ctx.obligations.append('correspondence:banded_solver-setter')
    if out is not None:
        if out and (out[0].startswith('(0%nat, [])') or out[0].startswith('(0, [])')):
            ctx.discharged.append('correspondence:banded_solver-setter')
        else:
            ctx.broke('correspondence:banded_solver', f'model and setter disagree: {out}')
    # shape decisions of _check_array
    from pybaselines import _validation as V
    shapes = [()] + [(a,) for a in (1, 2, 3)] + [(a, b) for a in (1, 2, 3) for b in (1, 2, 3)] + \
             [(a, b, c) for a in (1, 2) for b in (1, 2, 3) for c in (1, 2)] + [(2, 1, 1, 2)]
    sl = []
    for shp in shapes:
        for e1, e2, td in ((True, False, False), (False, True, True), (False, False, True), (False, False, False),
                           (False, True, False)):
            try:
                r = V._check_array(np.zeros(shp), ensure_1d=e1, ensure_2d=e2, two_d=td).shape
                exp = '(Some [' + '; '.join(str(k) for k in r) + '])'
            except Exception as exc:  # noqa
                exp = 'None'
                en = exc_name(exc)
            ctx.case(('shape', shp, e1, e2, td), nontrivial=len(shp) > 0, kind='guard:_check_array')
            sl.append(f'({coqbool(e1)}, {coqbool(e2)}, {coqbool(td)}, [{"; ".join(str(k) for k in shp)}], {exp})')
    text = HEADER + f"""
Definition cases : list (bool * bool * bool * list Z * option (list Z)) := [
{chr(10).join('  ' + l + (';' if i + 1 < len(sl) else '') for i, l in enumerate(sl))}
].
Definition ok (c : bool * bool * bool * list Z * option (list Z)) : bool :=
  let '(e1, e2, td, shp, e) := c in
  match check_array_shape e1 e2 td shp, e with
  | Ok s, Some s' => zl_eqb s s'
  | Raise _, None => true
  | _, _ => false
  end.
Eval vm_compute in (bad ok cases).
"""
    out = ctx.coq_eval('shapes', text)
    ctx.obligations.append('correspondence:_check_array-shape-decisions')
    if out is not None:
        if out and (out[0].startswith('(0%nat, [])') or out[0].startswith('(0, [])')):
            ctx.discharged.append('correspondence:_check_array-shape-decisions')
        else:
            ctx.broke('correspondence:shapes', f'model and _check_array disagree: {out}')


# ---------------------------------------------------------------- routing table vs oracle scope
def routing_entries():
    path = os.path.join(COQ, 'gen', 'GenRouting.v')
    if not os.path.exists(path):
        return None
    text = open(path).read()
    ents = re.findall(r'e_two_d := (\w+); e_module := "(\w+)"; e_method := "(\w+)"; e_param := "(\w+)";\s+'
                      r'e_chain := \[(.*?)\] \|\}', text)
    return {(('2d' if td == 'true' else '1d'), m, p): (mod, ch) for td, mod, m, p, ch in ents}


def table_in_claim(key, mod):
    dim, m, p = key
    if mod == 'optimizers':
        return False
    if p in ('max_half_window', 'min_half_window'):
        return mod in O.HW_MODULES
    if p == 'half_window':
        return mod in O.HW_MODULES or m == 'pspline_mpls'
    return True


# every failure is keyed per method + parameter + value class + outcome
def finding_key(t, outcome):
    return O.task_key(t, outcome)


def describe(t, outcome):
    if t.get('kind') == 'history':
        return (f"{'Baseline2D' if t['dim'] == '2d' else 'Baseline'}.{t['method']} with the invalid input [{t['vclass']}] on an "
                f"object with the history {t['param']} ({t.get('history')}): "
                + ('outcome differs from the same call on a fresh object' if outcome == 'differs'
                   else ('returned a baseline silently' if outcome == 'returned' else f'raised {outcome}')))
    val = t.get('value', t.get('vclass'))
    comp = f" together with the valid optional argument [{t['comp']}]" if t.get('comp') else ''
    return (f"{'Baseline2D' if t['dim'] == '2d' else 'Baseline'}.{t['method']} with exactly one invalid argument{comp} "
            f"{t['param']}={val!r} ({t['vclass']}) "
            + ('returned a baseline silently' if outcome == 'returned' else f'raised {outcome}')
            + (' instead of ValueError/TypeError' if t['kind'] != 'unknown_method' else ' instead of AttributeError'))


def oracle(ctx, tasks=None):
    seed = ctx.rng.randint(0, 10 ** 6)
    valid_comps, n_probes = O.valid_companions(seed)
    ctx.extra['companion_probes'] = {'probed': n_probes, 'valid': len(valid_comps)}
    tasks = tasks or O.build_tasks(seed, ctx.tier, valid_comps)
    res = O.run_all(tasks)
    table = routing_entries()
    n_fail = 0
    control_bad = []
    scope_mismatch = []
    seen_pairs = set()
    for t in tasks:
        outcome, detail = res.get(t['id'], ('harness-error', 'no result'))
        vc = t['vclass']
        ctx.case((t['dim'], t['method'], t['kind'], t['param'], vc), nontrivial=True,
                 kind=f"oracle:{t['kind']}:{'claimed' if t['claimed'] else 'observed'}")
        if outcome == 'harness-error':
            ctx.broke('oracle:harness-error', f'{t}: {detail}')
            continue
        if t['kind'] == 'scalar' and table is not None:
            key = (t['dim'], t['method'], t['param'])
            if key not in seen_pairs:
                seen_pairs.add(key)
                if key not in table:
                    scope_mismatch.append(f'{key} tested by the oracle but absent from GenRouting')
        if t['kind'] == 'control_nocheck' and outcome == 'validation-raised':
            control_bad.append(f"{t['dim']}:{t['method']}:{t['path']}: {detail}")
        if not t['claimed']:
            ctx.hist[f"observed:{t['param']}:{vc.split('@')[0]}:{outcome}"] = \
                ctx.hist.get(f"observed:{t['param']}:{vc.split('@')[0]}:{outcome}", 0) + 1
            continue
        if not O.expected_ok(t, outcome):
            n_fail += 1
            case = {k: v for k, v in t.items()}
            case['outcome'] = outcome
            ctx.fail(finding_key(t, outcome), describe(t, outcome) + (f' [{detail}]' if detail else ''), case)
    ctx.obligations.append('control:check_finite=False-objects-are-not-rejected-by-the-validation')
    if control_bad:
        ctx.broke('control:check_finite=False', '; '.join(control_bad[:5]))
    else:
        ctx.discharged.append('control:check_finite=False-objects-are-not-rejected-by-the-validation')
    ctx.obligations.append('cross-validation:oracle-scope-within-routing-table')
    if scope_mismatch:
        ctx.broke('cross-validation:routing-table', '; '.join(scope_mismatch[:5]))
    else:
        ctx.discharged.append('cross-validation:oracle-scope-within-routing-table')
    ctx.sample({'kind': 'oracle-task', **{k: v for k, v in tasks[len(tasks) // 3].items() if k != 'id'}})
    ctx.sample({'kind': 'oracle-task', **{k: v for k, v in tasks[len(tasks) // 2].items() if k != 'id'}})
    return len(tasks), n_fail


def run(ctx):
    ctx.rule = ('correspondence cases: (guard, value) pairs over ints (incl. +-2^63, 2^1024 boundaries), floats, nan, +-inf, '
                'bools, lists, arrays, str, None; oracle cases: (dim, method, kind, parameter, value class / non-finite '
                'kind @ position / wrong length, on sorted and unsorted x) with exactly one invalid argument per call; distinct = distinct '
                'canonical case; non-trivial = value is not a plain valid number in 1..5 (correspondence), every oracle case')
    ctx.trusted += [
        'np.asarray_chkfinite / np.asarray conversions (NumPy 2.1 semantics modelled: truth value of arrays, '
        'float->int casts of Python scalars raise, empty-array truth value False)',
        'hand-written table `expected` (documented domain per parameter) in coq/C15/Routing.v, from the docstrings',
        'translator call-chain recognition tools/gen_routing.py (fail-closed: unknown use => `Use`)',
        'float rounding of huge Python ints when cast to float is monotone (model keeps the exact integer)',
        'ndarray -> int casts of nan/inf/out-of-range elements are platform-defined in NumPy (model uses the '
        'Python-scalar semantics; such values are outside `regular`)',
    ]
    ctx.gate()
    ctx.translate(['GenRouting'])
    ok = ctx.build_props()
    correspondence(ctx)
    ntasks, nfail = oracle(ctx)
    ctx.note(f'direct oracle: {ntasks} calls with one invalid argument, {nfail} claimed cases not rejected with '
             'ValueError/TypeError (all matched against known_findings keys or reported)')
    ctx.note('outside the statement, recorded only (input_distribution observed:*): lam=nan/inf (accepted), positive non-integer '
             'diff_order/poly_order/num_knots/spline_degree (truncated or other exception), half_window of the '
             'classification methods (golotvin/std_distribution/fastchrom do not call _check_half_window; '
             'smooth_half_window=0 is documented valid), boolean-mask weights of classification methods, '
             'lam/diff_order of custom_bc (optional smoothing), parameters forwarded through method_kwargs by the optimizers '
             '(covered dynamically for poly_order/method only), max_half_window/min_half_window/smooth_half_window')
    ctx.note('not covered: nested (>1-D) array-valued scalar parameters (ravelled by _check_scalar, model is flat); '
             'x_data validation beyond non-finite values; interactions of two invalid arguments')


def replay(rep):
    case = rep.get('case') or {}
    if 'kind' in case and 'method' in case:
        outcome, detail = O.run_task(case)
        okay = O.expected_ok(case, outcome)
        print(f'replay {case.get("dim")}:{case.get("method")}:{case.get("param")}:{case.get("vclass")}: outcome={outcome} '
              f'{detail} -> ' + ('property holds on this input' if okay else 'VIOLATES the property'))
        return 0 if okay else 1
    print('replay: nothing concrete to replay; broken obligations were:', rep.get('broken_obligations'))
    return 1
