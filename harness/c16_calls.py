"""C16 -- functional interface versus method with SEVERAL non-default keywords at once (round 6).

`_class_wrapper` forwards the leading bound arguments of the module-level function POSITIONALLY (BoundArguments.args), so the
order of the function's parameters matters as soon as a call binds a whole leading run of them.  Calls that pass one keyword
(or only the catalogue's) never bind such a run.  Fixed, enumerated grid per function:
  * every PREFIX of the function's own parameter list (all parameters up to position k given explicitly),
  * every PAIR of parameters (adjacent pairs only for slow methods in the quick tier), and the FULL set,
each parameter with a legal value that differs from its default and from the values of the other parameters of the call, compared
with the method called on Baseline(x) with the same keywords: equal results bit for bit, or the same exception type.
"""
import inspect
import itertools
import time
import warnings

import numpy as np

from . import methods as M


def _C():
    from . import c16
    return c16


def alt_values(name, fpars, N, nrng):
    """{param: legal non-default value}, distinct across parameters where possible."""
    vals = {}
    used = set()
    variants = {}
    for d in M.param_variants(name):
        (p, v), = d.items()
        variants.setdefault(p, []).append(v)
    for p in fpars:
        if p.name in ('data', 'x_data'):
            continue
        if p.name in ('weights',) or (p.name == 'alpha' and name in ('aspls', 'pspline_aspls')):
            vals[p.name] = np.round(0.5 + nrng.random(N), 3)
            continue
        for v in variants.get(p.name, []):
            try:
                differs = not (v == p.default)
            except Exception:  # noqa
                differs = True
            if isinstance(differs, np.ndarray):
                differs = bool(differs.any())
            key = repr(v)
            if differs and key not in used:
                vals[p.name] = v
                used.add(key)
                break
    return vals


def outcome(fn):
    with warnings.catch_warnings():
        warnings.simplefilter('ignore')
        try:
            return fn(), None
        except Exception as exc:  # noqa
            return None, exc


def oracle_call_shapes(ctx, orc, budget, only=None):
    C = _C()
    from pybaselines import Baseline
    full = budget > 1
    N = 47
    x = np.linspace(-2.0, 11.0, N)
    n_cmp = 0
    for name in M.method_names(False):
        if only and name != only:
            continue
        func = C.find_func(name)
        if func is None:
            continue
        nrng = np.random.default_rng([ctx.seed, 63, len(name)])
        y = M.make_y(nrng, x, 'noise')
        data, base_kw = C.setup_1d(name, x, y)
        fpars = [p for p in inspect.signature(func).parameters.values() if p.kind == p.POSITIONAL_OR_KEYWORD]
        order = [p.name for p in fpars if p.name not in ('data', 'x_data')]
        defaults = {p.name: p.default for p in fpars}
        alts = alt_values(name, fpars, N, nrng)
        t0 = time.time()
        want0, e0 = outcome(lambda: getattr(Baseline(x), name)(data, **base_kw))
        slow = time.time() - t0 > 0.04
        if e0 is not None:
            continue

        def value(p):
            if p in alts:
                return alts[p]
            if p in base_kw:
                return base_kw[p]
            return defaults[p]          # no alternative known: the default, given explicitly (it is still bound)
        subsets = []
        for k in range(1, len(order) + 1):
            subsets.append(('prefix%d' % k, order[:k]))
        have = [p for p in order if p in alts]
        pairs = list(itertools.combinations(have, 2))
        if slow and not full:
            pairs = [pr for pr in pairs if abs(order.index(pr[0]) - order.index(pr[1])) == 1]
        subsets += [('pair:%s+%s' % pr, list(pr)) for pr in pairs]
        subsets.append(('full', have))
        seen = set()
        for tag, sub in subsets:
            kws = dict(base_kw)
            for p in sub:
                kws[p] = value(p)
            sig = tuple(sorted((k, repr(v) if not isinstance(v, np.ndarray) else 'arr') for k, v in kws.items()))
            if sig in seen:
                continue
            seen.add(sig)
            want, ew = outcome(lambda: getattr(Baseline(x), name)(data, **kws))
            got, eg = outcome(lambda: func(data=data, x_data=x, **kws))
            n_cmp += 1
            orc.n_cmp += 1
            key = f'1d:{name}:function-keywords:{tag}'
            case = {'kind': 'oracle-call-shape', 'method': name, 'tag': tag,
                    'keywords': {k: (repr(v) if not isinstance(v, np.ndarray) else 'array') for k, v in kws.items()}}
            ctx.case(('call-shape', name, tag), nontrivial=len(sub) > 1, kind=f'oracle:1d:function-keywords:{tag.split(":")[0].rstrip("0123456789")}')
            if (ew is None) != (eg is None) or (ew is not None and type(ew) is not type(eg)):
                ctx.fail(key, f'1d {name}: function called with keywords {sorted(sub)} '
                         f'{"raises " + type(eg).__name__ + ": " + str(eg)[:80] if eg is not None else "returns"} but the method with the same '
                         f'keywords {"raises " + type(ew).__name__ if ew is not None else "returns"}', case)
            elif ew is None and not C.same(got[0], want[0]):
                with warnings.catch_warnings():
                    warnings.simplefilter('ignore')
                    dev = float(np.nanmax(np.abs(np.asarray(got[0], dtype=float) - np.asarray(want[0], dtype=float))))
                ctx.fail(key, f'1d {name}: function called with keywords {sorted(sub)} gives a baseline different from the method '
                         f'called with the same keywords (max abs difference {dev:.3g})', case)
            elif ew is None and not C.deep_same(got[1], want[1]):
                ctx.fail(key, f'1d {name}: function called with keywords {sorted(sub)}: params differ from the method call', case)
    return n_cmp
