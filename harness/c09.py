"""C09 -- reweighting rules and the stop rule.  DESIGN.md section 4 / C09."""
import math
import warnings

import numpy as np

from . import c01
from .common import coqbool, hexf

PROP = 'C09'

HEADER = """From Coq Require Import List Bool PrimFloat.
From PB Require Import lib.CaseUtil C09.Rules C09.Float.
Import ListNotations.
"""


def flist(fs):
    return '[' + '; '.join(hexf(f) for f in fs) + ']'


def gen_residual(rng, n, kind):
    mag = 10.0 ** rng.choice([-100, -20, -3, 0, 0, 0, 2, 20, 100])
    r = rng.normal(0, 1, n) * mag
    if kind == 'allpos':
        r = np.abs(r) + mag * 1e-3
    elif kind == 'allneg':
        r = -np.abs(r) - mag * 1e-3
    elif kind == 'ties':
        r[rng.random(n) < 0.4] = 0.0
    elif kind == 'oneneg':
        r = np.abs(r) + mag * 1e-3
        r[rng.integers(n)] *= -1
    elif kind == 'wide':
        r = r * 10.0 ** rng.integers(-8, 8, n)
    elif kind == 'equalneg':
        # every negative residual identical: their standard deviation is exactly 0 (the _safe_std path)
        r = np.where(r < 0, -mag, np.abs(r) + mag * 1e-3)
        if (r < 0).sum() < 2:
            r[:2] = -mag
    return r


KINDS = ['mixed', 'allpos', 'allneg', 'ties', 'oneneg', 'wide', 'equalneg']
FIT_KINDS = ['allneg', 'negdom', 'posdom', 'allpos', 'zero', 'negzero', 'maxzero']
C1EM6 = 1e-6


def gen_fit(rng, n, kind):
    """Fits of every sign pattern for the default-eps path of _quantile (documented:
    eps = (1e-6 * max(abs(fit)))**2)."""
    mag = 10.0 ** rng.choice([-30, -8, -3, 0, 0, 2, 4, 9, 60])
    f = rng.normal(0, 1, n) * mag
    if kind == 'allneg':
        f = -np.abs(f) - mag * 1e-3
    elif kind == 'negdom':          # mixed signs, the largest magnitude is negative
        f[rng.integers(n)] = -(np.abs(f).max() * rng.choice([1.5, 10.0, 1e3]) + mag)
    elif kind == 'posdom':
        f[rng.integers(n)] = np.abs(f).max() * rng.choice([1.5, 10.0, 1e3]) + mag
    elif kind == 'allpos':
        f = np.abs(f) + mag * 1e-3
    elif kind == 'zero':
        f = np.zeros(n)
    elif kind == 'negzero':
        f = -np.zeros(n)
    elif kind == 'maxzero':         # non-positive fit touching zero: max(fit) = 0, max(abs(fit)) > 0
        f = -np.abs(f)
        f[rng.integers(n)] = 0.0
    return f


def indep_std(neg):
    """Standard deviation (ddof=1) of the negative residuals, computed WITHOUT the implementation's
    _safe_std: the model applies the `== 0 -> _MIN_FLOAT` protection itself."""
    return float(np.std(neg, ddof=1))


def impl():
    from pybaselines import _weighting as W
    return W


def call(fn, *a, **k):
    with warnings.catch_warnings():
        warnings.simplefilter('ignore')
        with np.errstate(all='ignore'):
            return fn(*a, **k)


def correspondence(ctx):
    """Bit-exact comparison of the float instance of C09/Rules.v with _weighting.py."""
    W = impl()
    rng = np.random.default_rng(ctx.seed)
    lits = []
    meta = []
    ncase = ctx.n(336, 2688)
    from pybaselines.utils import _MIN_FLOAT
    RULES = ['asls', 'drpls', 'lsrpls', 'iarpls', 'quantile', 'exit', 'quantile_default', 'quantile_default']
    for c in range(ncase):
        n = int(rng.choice([3, 4, 5, 8, 17, 40]))
        kind = KINDS[(c // len(RULES)) % len(KINDS)]
        r = gen_residual(rng, n, kind)
        base = rng.normal(0, 1, n) * (np.abs(r).max() + 1e-300) * rng.choice([0.0, 1.0, 1e3])
        y = base + r
        r = y - base            # the residual exactly as the implementation computes it
        rule = RULES[c % len(RULES)]
        it = int(rng.choice([1, 2, 5, 50, 100, 101, 200]))
        neg = r[r < 0]
        nontriv = (neg.size >= 2) and (r > 0).any()
        if rule == 'asls':
            p = float(rng.choice([0.001, 0.01, 0.5, 0.9, 0.999]))
            got = call(W._asls, y, base, p)
            lits.append(f'(0%nat, [{hexf(p)}], {flist(y)}, {flist(base)}, {flist(got)}, false)')
        elif rule in ('drpls', 'lsrpls', 'iarpls'):
            fn = {'drpls': W._drpls, 'lsrpls': W._lsrpls, 'iarpls': W._iarpls}[rule]
            got, early = call(fn, y, base, it)
            if neg.size < 2:
                # early exit: zero weights, flag set; the flag itself is compared by the `exit` cases
                if not early or np.any(got != 0):
                    ctx.fail(f'rule:{rule}:early-exit', f'{rule}: fewer than 2 negative residuals but exit_early={early} / weights not zero',
                             {'kind': 'rule', 'rule': rule, 'y': y.tolist(), 'baseline': base.tolist(), 'iteration': it})
                lits.append(f'(5%nat, [], {flist(y)}, {flist(base)}, [], {coqbool(bool(early))})')
            else:
                std = indep_std(neg)        # raw; the model applies the == 0 protection (safe_std)
                mean = np.mean(neg)
                mf = hexf(_MIN_FLOAT)
                if rule == 'drpls':
                    scale = np.exp(min(it, 100))
                    lits.append(f'(1%nat, [{hexf(scale)}; {hexf(std)}; {hexf(mean)}; {mf}], {flist(y)}, {flist(base)}, {flist(got)}, {coqbool(bool(early))})')
                elif rule == 'lsrpls':
                    scale = float(10 ** min(it, 100))
                    lits.append(f'(1%nat, [{hexf(scale)}; {hexf(std)}; {hexf(mean)}; {mf}], {flist(y)}, {flist(base)}, {flist(got)}, {coqbool(bool(early))})')
                else:
                    scale = np.exp(min(it, 100))
                    lits.append(f'(2%nat, [{hexf(scale)}; {hexf(std)}; {mf}], {flist(y)}, {flist(base)}, {flist(got)}, {coqbool(bool(early))})')
        elif rule == 'quantile':
            # explicit eps, including values below the floor max(eps, _MIN_FLOAT) and eps <= 0
            q = float(rng.choice([0.01, 0.05, 0.5, 0.95]))
            eps = float(rng.choice([1e-12, 1e-6, 1.0, 0.0, 1e-30, -1.0])) * (np.abs(r).max() ** 2 + 1e-300)
            got = call(W._quantile, y, base, q, eps)
            lits.append(f'(3%nat, [{hexf(q)}; {hexf(C1EM6)}; {hexf(_MIN_FLOAT)}; {hexf(0.0)}; {hexf(eps)}], '
                        f'{flist(y)}, {flist(base)}, {flist(got)}, true)')
        elif rule == 'quantile_default':
            # eps=None: the default must be (1e-6 * max(abs(fit)))**2 for fits of EVERY sign pattern; the
            # reduction max(abs(fit)) is computed here, independently of the implementation
            fkind = FIT_KINDS[(c // len(RULES)) % len(FIT_KINDS)]
            kind = 'fit-' + fkind
            q = float(rng.choice([0.01, 0.05, 0.5, 0.95]))
            base = gen_fit(rng, n, fkind)
            mx = float(np.max(np.abs(base)))
            rr = rng.normal(0, 1, n) * (mx * float(rng.choice([1e-9, 1e-6, 1e-3, 1.0])) + 1e-300)
            rr[rng.random(n) < 0.2] = 0.0
            y = base + rr
            r = y - base
            t = np.float64(mx) * C1EM6
            if float(t ** 2) != float(t * t):
                continue    # libm pow(t, 2) not equal to the rounded product (about 1 input in 10^4): not modelled
            got = call(W._quantile, y, base, q)
            nontriv = bool((base < 0).any())
            lits.append(f'(3%nat, [{hexf(q)}; {hexf(C1EM6)}; {hexf(_MIN_FLOAT)}; {hexf(mx)}], '
                        f'{flist(y)}, {flist(base)}, {flist(got)}, false)')
        else:
            # early-exit flags of every rule that has one
            flags = []
            for fn, args in ((W._airpls, (it, True)), (W._arpls, ()), (W._drpls, (it,)), (W._iarpls, (it,)),
                             (W._aspls, (0.5,)), (W._lsrpls, (it,))):
                flags.append(bool(call(fn, y, base, *args)[-1]))
            if len(set(flags)) != 1:
                ctx.fail('rule:early-exit-inconsistent', f'early-exit flags differ between rules on the same residual: {flags}',
                         {'kind': 'rule', 'rule': 'exit', 'y': y.tolist(), 'baseline': base.tolist()})
            lits.append(f'(5%nat, [], {flist(y)}, {flist(base)}, [], {coqbool(flags[0])})')
            b_flag = bool(call(W._brpls, y, base, 0.5)[-1])
            lits.append(f'(6%nat, [], {flist(y)}, {flist(base)}, [], {coqbool(b_flag)})')
            meta.append((rule, kind, n))
        meta.append((rule, kind, n))
        ctx.case((rule, kind, n, it, r.tobytes()), nontrivial=nontriv, kind=f'rule:{rule}:{kind}')
    ctx.sample({'kind': 'rule-case', 'coq_literal': lits[1][:300]})
    ob = 'correspondence:weighting-rules-bit-exact(asls,drpls,lsrpls,iarpls incl. _safe_std,quantile incl. eps=None default and floor,early-exit flags)'
    ctx.obligations.append(ob)
    bad = False
    per = 400
    for s in range(0, len(lits), per):
        sh = lits[s:s + per]
        text = HEADER + f"""
Definition cases : list (nat * list float * list float * list float * list float * bool) := [
{chr(10).join('  ' + l + (';' if i + 1 < len(sh) else '') for i, l in enumerate(sh))}
].
Definition par (ps : list float) (i : nat) : float := nth i ps nan.
Definition ok (c : nat * list float * list float * list float * list float * bool) : bool :=
  let '(rule, ps, ys, bs, exp, flag) := c in
  let rs := residuals Num_F ys bs in
  match rule with
  | 0%nat => fl_eqb (map (fun yb => asls_w Num_F (par ps 0) (fst yb) (snd yb)) (combine ys bs)) exp
  | 1%nat => fl_eqb (map (drpls_full_w Num_F (par ps 3) (par ps 0) (par ps 1) (par ps 2)) rs) exp && Bool.eqb (exit_early Num_F rs) flag
  | 2%nat => fl_eqb (map (iarpls_full_w Num_F (par ps 2) (par ps 0) (par ps 1)) rs) exp && Bool.eqb (exit_early Num_F rs) flag
  | 3%nat => (* flag = explicit eps given (5th parameter) / eps=None *)
             fl_eqb (map (quantile_full_w Num_F (par ps 1) (par ps 2) (par ps 0) (par ps 3)
                                          (if flag then Some (par ps 4) else None)) rs) exp
  | 5%nat => Bool.eqb (exit_early Num_F rs) flag
  | 6%nat => Bool.eqb (exit_early_brpls Num_F rs) flag
  | _ => false
  end.
Eval vm_compute in (bad ok cases).
"""
        vals = ctx.coq_eval(f'rules{s // per}', text)
        if vals is None:
            bad = True
        elif not vals or not vals[0].startswith('(0'):
            bad = True
            ctx.broke(ob, f'float model and _weighting.py disagree bit-for-bit: {vals}')
            import re
            m = re.match(r'\((\d+)(?:%nat)?, \[(.*)\]\)', vals[0]) if vals else None
            for tok in (m.group(2).split(';') if m else [])[:4]:
                if tok.strip():
                    i = int(tok.replace('%nat', ''))
                    ctx.fail(f'rule:model-mismatch:{sh[i].split(",")[0].strip("(")}',
                             'the implementation differs bit-for-bit from the documented rule as transcribed in C09/Rules.v '
                             '(Coq literal: rule id, parameters, y, baseline, implementation output, exit flag)',
                             {'kind': 'rule-literal', 'literal': sh[i]})
    if not bad:
        ctx.discharged.append(ob)
    return bad


def ulp_diff(a, b):
    a = np.asarray(a, dtype=float)
    b = np.asarray(b, dtype=float)
    with np.errstate(all='ignore'):
        return np.abs(a - b) / np.maximum(np.spacing(np.maximum(np.abs(a), np.abs(b))), 5e-324)


def oracle(ctx, budget):
    """Direct evaluation of the property on the implementation's rules: finite, in [0,1], antitone in
    the residual, agreement with an independent evaluation of the documented formula."""
    W = impl()
    from scipy.special import erf, expit
    rng = np.random.default_rng(ctx.seed + 7)
    n_cases = 150 * budget
    for c in range(n_cases):
        n = int(rng.choice([3, 5, 9, 33, 100]))
        kind = KINDS[(c // 3) % len(KINDS)]
        r = gen_residual(rng, n, kind)
        base = np.zeros(n) if c % 3 else rng.normal(0, 1, n) * np.abs(r).max()
        y = base + r
        r = y - base
        it = int(rng.choice([1, 3, 20, 50, 100, 200]))
        neg = r[r < 0]
        pos = r[r > 0]
        p = float(rng.choice([0.001, 0.01, 0.3, 0.5]))
        k = float(np.abs(r).max() * rng.choice([0.1, 1, 10]) + 1e-300)
        part = rng.random(n)
        beta = float(rng.choice([0.1, 0.5, 0.9]))
        outs = {}
        with np.errstate(all='ignore'):
            outs['asls'] = (call(W._asls, y, base, p), None)
            outs['psalsa'] = (call(W._psalsa, y, base, p, k, n), None)
            outs['derpsalsa'] = (call(W._derpsalsa, y, base, p, k, n, part), None)
            for name, fn, args in (('airpls', W._airpls, (it, True)), ('arpls', W._arpls, ()), ('drpls', W._drpls, (it,)),
                                   ('iarpls', W._iarpls, (it,)), ('aspls', W._aspls, (0.5,)), ('lsrpls', W._lsrpls, (it,)),
                                   ('brpls', W._brpls, (beta,))):
                res = call(fn, y, base, *args)
                outs[name] = (res[0], bool(res[-1]))
        doc_asls = np.where(y > base, p, 1 - p)      # docs/algorithms/whittaker.rst: p if y > v, 1 - p if y <= v
        if not np.array_equal(outs['asls'][0], doc_asls):
            ctx.fail('rule:asls:formula', 'asls: weights differ from the documented rule (p if y > v else 1 - p)',
                     {'kind': 'rule-oracle', 'rule': 'asls', 'y': y.tolist(), 'baseline': base.tolist(), 'p': p})
        order = np.argsort(r, kind='stable')
        for name, (w, early) in outs.items():
            case = {'kind': 'rule-oracle', 'rule': name, 'y': y.tolist(), 'baseline': base.tolist(), 'iteration': it,
                    'p': p, 'k': k, 'beta': beta, 'partial': part.tolist()}
            ctx.case(('oracle', name, kind, n, c), nontrivial=neg.size >= 2 and pos.size >= 1, kind=f'oracle:{name}')
            expect_early = neg.size < 2 or (name == 'brpls' and pos.size < 2)
            if early is not None and early != expect_early:
                ctx.fail(f'rule:{name}:early-exit', f'{name}: exit_early={early} but {neg.size} negative / {pos.size} positive residuals', case)
                continue
            if early:
                if np.any(w != 0):
                    ctx.fail(f'rule:{name}:early-weights', f'{name}: early exit must return zero weights', case)
                continue
            if not np.all(np.isfinite(w)):
                ctx.fail(f'rule:{name}:nonfinite', f'{name}: non-finite weight', case)
                continue
            if np.any(w < 0) or np.any(w > 1):
                ctx.fail(f'rule:{name}:range', f'{name}: weight outside [0, 1] (min {w.min()}, max {w.max()})', case)
            ws = w[order]
            if name == 'derpsalsa':
                continue   # multiplied by unrelated partial weights: monotone only with those fixed
            # never increase as the residual increases (asls/psalsa: documented only for p <= 1/2)
            inc = float(np.max(np.diff(ws))) if n > 1 else 0.0
            if inc > 1e-12 * max(1.0, np.abs(ws).max()):
                cancel = False
                if name == 'brpls':
                    # where 1 + erf(inner) has lost most of its bits (inner < -3) the code's cancellation
                    # noise dominates; increases located only there belong to the recorded finding
                    mean_p = np.mean(pos)
                    sigma = np.sqrt(neg.dot(neg) / neg.size)
                    inner = (r / (sigma * np.sqrt(2)) - sigma / (mean_p * np.sqrt(2)))[order]
                    up = np.flatnonzero(np.diff(ws) > 1e-12 * max(1.0, np.abs(ws).max()))
                    cancel = bool(np.all(inner[up] < -3.0))
                if cancel:
                    ctx.fail('rule:brpls:monotone-cancellation',
                             f'brpls: weights increase with the residual by {inc:.3g} where inner < -3 (cancellation in 1 + erf(inner))', case)
                else:
                    ctx.fail(f'rule:{name}:monotone', f'{name}: weights increase with the residual by {inc:.3g}', case)
        # independent evaluation of the documented formulas (a test of the transcription; libm ulp budget)
        if neg.size >= 2:
            std = max(np.std(neg, ddof=1), 0.0) or 2.2250738585072014e-308 ** 1
            std = np.std(neg, ddof=1)
            if std == 0:
                continue
            m = np.mean(neg)
            with np.errstate(all='ignore'):
                ref = {
                    'arpls': expit(-(2 / std) * (r - (2 * std - m))),
                    'aspls': expit(-(0.5 / std) * (r - std)),
                    'psalsa': np.where(r > 0, p * np.exp(-np.where(r > 0, r, 0) / k), 1 - p),
                }
                t = min(it, 50) / neg.sum()
                logmax = np.log(np.finfo(float).max)
                wa = np.zeros(n)
                wa[r < 0] = np.exp(np.clip(t * neg, 0, logmax - np.spacing(logmax)))
                wa[r < 0] /= wa[r < 0].max()
                ref['airpls'] = wa
            # the explicitly un-normalised airPLS option: same exponent, no division by the largest weight
            wa_raw = call(W._airpls, y, base, it, False)[0]
            raw_ref = doc_weights('airpls', y, base, it=it, normalize=False)
            if raw_ref is not None and not close_ulp(wa_raw, raw_ref)[0]:
                ctx.fail('rule:airpls:formula-unnormalised', 'airpls(normalize_weights=False): differs from the documented formula',
                         {'kind': 'rule-oracle', 'rule': 'airpls', 'y': y.tolist(), 'baseline': base.tolist(), 'iteration': it})
            for name, rv in ref.items():
                w = outs[name][0]
                d = ulp_diff(w, rv)
                if np.nanmax(d) > 64 and np.nanmax(np.abs(w - rv)) > 1e-13:
                    ctx.fail(f'rule:{name}:formula', f'{name}: differs from the documented formula by {np.nanmax(d):.3g} ulp',
                             {'kind': 'rule-oracle', 'rule': name, 'y': y.tolist(), 'baseline': base.tolist(), 'iteration': it, 'p': p, 'k': k})


def oracle_defaults(ctx, budget):
    """_quantile with eps=None on fits of every sign pattern: finite, > 0, and equal to the documented
    formula with eps = (1e-6 * max(abs(fit)))**2 floored at _MIN_FLOAT."""
    W = impl()
    rng = np.random.default_rng(ctx.seed + 11)
    for c in range(70 * budget):
        fkind = FIT_KINDS[c % len(FIT_KINDS)]
        n = int(rng.choice([3, 8, 40]))
        fit = gen_fit(rng, n, fkind)
        mx = float(np.max(np.abs(fit)))
        y = fit + rng.normal(0, 1, n) * (mx * float(rng.choice([1e-9, 1e-6, 1e-3, 1.0])) + 1e-300)
        q = float(rng.choice([0.01, 0.05, 0.5, 0.95]))
        w = call(W._quantile, y, fit, q)
        ref = doc_weights('quantile', y, fit, quantile=q)
        case = {'kind': 'rule-oracle', 'rule': 'quantile', 'y': y.tolist(), 'baseline': fit.tolist(), 'quantile': q, 'eps': None}
        ctx.case(('oracle-default', 'quantile', fkind, n, c), nontrivial=bool((fit < 0).any()), kind=f'oracle:quantile-default:{fkind}')
        if not np.all(np.isfinite(w)) or np.any(w <= 0):
            ctx.fail('rule:quantile:default-eps:range', f'_quantile(eps=None) on a {fkind} fit: weight not finite and > 0', case)
        elif not close_ulp(w, ref, ulps=4)[0]:
            ctx.fail('rule:quantile:default-eps', f'_quantile(eps=None) on a {fkind} fit (max|fit|={mx:.3g}, max fit={fit.max():.3g}) differs from the '
                     'documented default eps = (1e-6 * max(abs(fit)))**2', case)


# ------------------------------------------------------------------ documented formulas (independent)
def doc_weights(rule, y, b, it=1, p=0.01, k=None, coef=0.5, quantile=0.05, eps=None, normalize=True):
    """The documented reweighting formula evaluated independently of _weighting.py on (data, baseline of
    the step), with the documented DEFAULTS for everything that is not passed.  Returns None where the
    documented early exit applies (fewer than two negative residuals)."""
    from scipy.special import expit
    from pybaselines.utils import _MIN_FLOAT
    y = np.asarray(y, dtype=float).ravel()
    b = np.asarray(b, dtype=float).ravel()
    r = y - b
    neg = r[r < 0]
    with np.errstate(all='ignore'):
        if rule == 'asls':
            return np.where(y > b, p, 1 - p)
        if rule == 'quantile':
            if eps is None:
                eps = (1e-6 * np.max(np.abs(b))) ** 2        # docstring: (1e-6 * max(abs(fit)))**2
            return np.where(r > 0, quantile, 1 - quantile) / np.sqrt(r ** 2 + max(eps, _MIN_FLOAT))
        if rule == 'psalsa':
            return np.where(r > 0, p * np.exp(-np.where(r > 0, r, 0) / k), 1 - p)
        if neg.size < 2:
            return None
        std = np.std(neg, ddof=1)
        if std == 0:
            std = _MIN_FLOAT
        m = np.mean(neg)
        if rule == 'arpls':
            return expit(-(2 / std) * (r - (2 * std - m)))
        if rule == 'aspls':
            return expit(-(coef / std) * (r - std))
        if rule in ('drpls', 'lsrpls'):
            scale = np.exp(min(it, 100)) if rule == 'drpls' else float(10 ** min(it, 100))
            inner = scale / std * (r - (2 * std - m))
            return 0.5 * (1 - inner / (1 + np.abs(inner)))
        if rule == 'iarpls':
            inner = np.exp(min(it, 100)) / std * (r - 2 * std)
            return 0.5 * (1 - inner / np.sqrt(1 + inner ** 2))
        if rule == 'airpls':
            t = min(it, 50) / neg.sum()
            logmax = np.log(np.finfo(float).max)
            w = np.zeros(y.size)
            w[r < 0] = np.exp(np.clip(t * neg, 0, logmax - np.spacing(logmax)))
            if normalize:
                w[r < 0] /= w[r < 0].max()
            return w
    raise AssertionError(rule)


# host method -> (rule, 1-based pass index?)  -- every single-loop host whose returned weights are, on
# exhaustion of max_iter, the rule applied to the returned baseline (C09_returned_pair)
HOST_RULES = {
    'asls': ('asls', False), 'iasls': ('asls', False), 'pspline_asls': ('asls', False), 'pspline_iasls': ('asls', False),
    'airpls': ('airpls', True), 'pspline_airpls': ('airpls', True),
    'arpls': ('arpls', False), 'pspline_arpls': ('arpls', False),
    'drpls': ('drpls', True), 'pspline_drpls': ('drpls', True),
    'iarpls': ('iarpls', True), 'pspline_iarpls': ('iarpls', True),
    'lsrpls': ('lsrpls', True), 'pspline_lsrpls': ('lsrpls', True),
    'aspls': ('aspls', False), 'pspline_aspls': ('aspls', False),
    'psalsa': ('psalsa', False), 'pspline_psalsa': ('psalsa', False),
    'irsqr': ('quantile', False),
}
HOST_DATA = ['positive', 'negated', 'below-zero', 'far-below-zero', 'centred', 'tiny-scale']


def host_data(y, kind):
    if kind == 'negated':
        return -y
    if kind == 'below-zero':          # recorded entirely below zero, largest value just under 0
        return y - (y.max() + 0.25)
    if kind == 'far-below-zero':
        return y - 1e4
    if kind == 'centred':
        return y - np.median(y)
    if kind == 'tiny-scale':
        return (y - (y.max() + 0.25)) * 1e-9
    return y


def close_ulp(w, ref, ulps=64):
    w = np.asarray(w, dtype=float).ravel()
    ref = np.asarray(ref, dtype=float).ravel()
    if w.shape != ref.shape:
        return False, float('inf')
    d = ulp_diff(w, ref)
    worst = float(np.nanmax(d)) if d.size else 0.0
    ok = bool(np.all((d <= ulps) | (np.abs(w - ref) <= 1e-13 * np.maximum(1.0, np.abs(ref)))))
    return ok and bool(np.array_equal(np.isnan(w), np.isnan(ref))), worst


def host_oracle(ctx, budget):
    """Hosts in 1-D and 2-D, default parameters of the rules (eps, k, asymmetric_coef, normalize_weights,
    iteration number), data of every sign / scale pattern: with tol never satisfied the loop runs out of
    max_iter, and the returned weights must then be the documented formula applied to the RETURNED step's
    baseline (C09_returned_pair, Exhausted case)."""
    from . import methods as M
    from pybaselines import Baseline, Baseline2D
    rng = np.random.default_rng(ctx.seed + 23)
    prng = __import__('random').Random(ctx.seed + 23)
    n1 = 46
    x = M.make_x(prng, n1)
    y0 = M.make_y(rng, x)
    x2, z2, y20 = M.make_z2d(rng, 11, 12)
    NEVER = -1.0
    nchecked = 0
    iters = [0, 2] if budget == 1 else [0, 1, 2, 5]
    for two_d in (False, True):
        names = [n for n in M.method_names(two_d) if n in HOST_RULES]
        for name in names:
            rule, one_based = HOST_RULES[name]
            for dk in HOST_DATA:
                y = host_data(y20 if two_d else y0, dk)
                for mi in iters:
                    variants = [{}]
                    if rule == 'airpls':
                        variants = [{}, {'normalize_weights': False}]
                    elif rule == 'aspls' and mi == iters[-1]:
                        variants = [{}, {'asymmetric_coef': 2.0}]
                    elif rule == 'psalsa' and mi == iters[-1]:
                        variants = [{}, {'k': float(np.std(y))}]
                    elif rule == 'quantile' and mi == iters[-1]:
                        variants = [{}, {'eps': 1e-3}, {'quantile': 0.6}]
                    for var in variants:
                        case = {'kind': 'host', 'method': name, 'two_d': two_d, 'data': dk, 'max_iter': mi, 'variant': var,
                                'seed': ctx.seed}
                        kw = M.call_kwargs(name, two_d, max_iter=mi, tol=NEVER, **var)
                        try:
                            with warnings.catch_warnings():
                                warnings.simplefilter('ignore')
                                fit = Baseline2D(x2, z2) if two_d else Baseline(x)
                                b, prm = getattr(fit, name)(y, **kw)
                        except Exception as exc:  # noqa -- raising is C01's business
                            ctx.case(('host-raise', name, two_d, dk, mi, repr(var)), nontrivial=False, kind='host:raised:' + type(exc).__name__)
                            continue
                        th = np.asarray(prm['tol_history'])
                        exhausted = th.ndim == 1 and len(th) == mi + 1
                        ctx.case(('host', name, two_d, dk, mi, repr(var)), nontrivial=exhausted, kind=f'host:{rule}:{dk}')
                        if not exhausted:
                            continue       # documented early exit: the weights of the previous pass are returned
                        it = mi + 1 if one_based else mi
                        args = dict(it=it)
                        if rule == 'asls':
                            args['p'] = kw.get('p', 0.01)
                        elif rule == 'psalsa':
                            args['p'] = kw.get('p', 0.5)
                            args['k'] = var.get('k', np.std(y) / 10)     # documented default: one tenth of std(data)
                        elif rule == 'aspls':
                            args['coef'] = var.get('asymmetric_coef', 0.5)
                        elif rule == 'airpls':
                            args['normalize'] = var.get('normalize_weights', True)
                        elif rule == 'quantile':
                            args['quantile'] = var.get('quantile', 0.05)
                            args['eps'] = var.get('eps')
                        ref = doc_weights(rule, y, b, **args)
                        if ref is None:
                            continue
                        ok, worst = close_ulp(prm['weights'], ref)
                        nchecked += 1
                        if not ok:
                            ctx.fail(f'host:{name}:{"2d" if two_d else "1d"}:weights-vs-documented-rule',
                                     f'{name} ({"2-D" if two_d else "1-D"}, data {dk}, max_iter={mi}, {var or "default parameters"}): the returned weights '
                                     f'differ from the documented {rule} rule applied to the returned baseline by {worst:.3g} ulp', case)
        # derpsalsa hosts (default k = std(data)/10): weights = (residual part with the documented k) * partial
        # weights, and the partial weights depend on the data only -- the quotient must not depend on max_iter
        for name in [n for n in M.method_names(two_d) if n in ('derpsalsa', 'pspline_derpsalsa')]:
            for dk in HOST_DATA:
                y = host_data(y20 if two_d else y0, dk)
                quot = []
                for mi in (0, 2):
                    try:
                        with warnings.catch_warnings():
                            warnings.simplefilter('ignore')
                            b, prm = getattr(Baseline(x), name)(y, **M.call_kwargs(name, two_d, max_iter=mi, tol=NEVER))
                    except Exception:  # noqa
                        break
                    if len(prm['tol_history']) != mi + 1:
                        break
                    r = y - b
                    p_, k_ = 0.01, np.std(y) / 10
                    with np.errstate(all='ignore'):
                        part = np.where(r > 0, p_ * np.exp(-0.5 * (np.where(r > 0, r, 0) / k_) ** 2), 1 - p_)
                    quot.append((prm['weights'], part))
                ctx.case(('host', name, two_d, dk, 'quotient'), nontrivial=len(quot) == 2, kind=f'host:derpsalsa:{dk}')
                if len(quot) == 2:
                    (w0, p0), (w2, p2) = quot
                    good = (p0 > 1e-250) & (p2 > 1e-250)
                    q0, q2 = w0[good] / p0[good], w2[good] / p2[good]
                    nchecked += 1
                    if good.sum() and (not np.allclose(q0, q2, rtol=1e-9, atol=1e-300) or q0.max() > 1 + 1e-9):
                        ctx.fail(f'host:{name}:1d:weights-vs-documented-rule',
                                 f'{name} (data {dk}): weights / (documented residual term with k = std(data)/10, p = 0.01) is not the same '
                                 'partial-weight vector for max_iter 0 and 2, or exceeds 1', {'kind': 'host', 'method': name, 'data': dk, 'seed': ctx.seed})
        # quant_reg: the weights of pass k are the rule applied to the baseline of pass k-1
        for dk in HOST_DATA:
            y = host_data(y20 if two_d else y0, dk)
            for mi in ([2] if budget == 1 else [2, 3, 6]):
                for var in ({}, {'eps': 1e-3}):
                    case = {'kind': 'host', 'method': 'quant_reg', 'two_d': two_d, 'data': dk, 'max_iter': mi, 'variant': var,
                            'seed': ctx.seed}
                    try:
                        with warnings.catch_warnings():
                            warnings.simplefilter('ignore')
                            mk = (lambda: Baseline2D(x2, z2)) if two_d else (lambda: Baseline(x))
                            b_prev, p_prev = mk().quant_reg(y, max_iter=mi - 1, tol=NEVER, **var)
                            b_k, p_k = mk().quant_reg(y, max_iter=mi, tol=NEVER, **var)
                    except Exception as exc:  # noqa
                        ctx.case(('host-raise', 'quant_reg', two_d, dk, mi, repr(var)), nontrivial=False, kind='host:raised:' + type(exc).__name__)
                        continue
                    ok_len = len(p_prev['tol_history']) == mi - 1 and len(p_k['tol_history']) == mi
                    ctx.case(('host', 'quant_reg', two_d, dk, mi, repr(var)), nontrivial=ok_len, kind=f'host:quantile:{dk}')
                    if not ok_len:
                        continue
                    ref = doc_weights('quantile', y, b_prev, quantile=0.05, eps=var.get('eps'))
                    ok, worst = close_ulp(p_k['weights'], ref, ulps=16)     # sqrt followed by **2: a few ulp
                    nchecked += 1
                    if not ok:
                        ctx.fail(f'host:quant_reg:{"2d" if two_d else "1d"}:weights-vs-documented-rule',
                                 f'quant_reg ({"2-D" if two_d else "1-D"}, data {dk}, max_iter={mi}, {var or "default eps"}): the returned weights differ '
                                 f'from the documented quantile rule applied to the baseline of the previous pass by {worst:.3g} ulp', case)
    return nchecked


# ------------------------------------------------------------------ early-exit paths of the hosts
EARLY_HOSTS = {
    # host -> (rule, 1-based pass index?, record is the airPLS residual norm?)
    'airpls': ('airpls', True, True), 'pspline_airpls': ('airpls', True, True),
    'arpls': ('arpls', False, False), 'pspline_arpls': ('arpls', False, False),
    'drpls': ('drpls', True, False), 'pspline_drpls': ('drpls', True, False),
    'iarpls': ('iarpls', True, False), 'pspline_iarpls': ('iarpls', True, False),
    'lsrpls': ('lsrpls', True, False), 'pspline_lsrpls': ('lsrpls', True, False),
    'aspls': ('aspls', False, False), 'pspline_aspls': ('aspls', False, False),
}
EARLY_MSG = 'almost all baseline points'


def early_datasets(two_d):
    """Deterministic noise-free data on which stiff baselines leave fewer than two points below them."""
    if two_d:
        xx, zz = np.meshgrid(np.linspace(0, 1, 11), np.linspace(0, 1, 12), indexing='ij')
        plane = 5 + 2 * xx + zz
        out = {}
        for nm, (dr, dc, amp) in {'plane-spike-down': (5, 6, -3.0), 'plane-spike-up': (4, 7, 3.0)}.items():
            y = plane.copy()
            y[dr, dc] += amp
            out[nm] = y
        out['plane'] = plane.copy()
        out['bowl'] = 5 + 4 * (xx - 0.5) ** 2 + 4 * (zz - 0.5) ** 2
        return (np.linspace(0, 1, 11), np.linspace(0, 1, 12)), out
    n = 60
    x = np.linspace(0, 100, n)
    lin = 5 + 0.02 * x
    out = {}
    y = lin.copy(); y[n // 2] -= 3; out['lin-spike-down'] = y                    # noqa: E702
    y = lin.copy(); y[n // 2] += 3; out['lin-spike-up'] = y                      # noqa: E702
    out['linear'] = lin.copy()
    out['parabola-up'] = 5 + 0.002 * (x - 50) ** 2
    y = lin.copy(); y[n // 3] -= 3; y[2 * n // 3] += 4; out['lin-two-spikes'] = y   # noqa: E702
    out['step'] = np.where(x < 50, 1.0, 2.0)
    return (x,), out


def host_call(name, two_d, axes, y, kw):
    from pybaselines import Baseline, Baseline2D
    with warnings.catch_warnings(record=True) as wl:
        warnings.simplefilter('always')
        fit = Baseline2D(*axes) if two_d else Baseline(*axes)
        b, p = getattr(fit, name)(y, **kw)
    early = any(EARLY_MSG in str(w.message) for w in wl)
    return np.asarray(b, dtype=float), np.asarray(p['tol_history'], dtype=float), early


def expected_record(rule, one_based, is_airpls, y, step_baselines, max_iter, tol, normalize=True, coef=0.5):
    """The documented stop rule replayed from the baselines of the individual steps: step j computes the
    rule on (data, baseline j); fewer than two negative residuals -> stop, nothing recorded; otherwise the
    step's value is recorded and the loop stops when it is below tol or after max_iter + 1 steps."""
    from pybaselines.utils import _MIN_FLOAT
    yf = np.asarray(y, dtype=float).ravel()
    w_prev = np.ones(yf.size)
    rec = []
    for j in range(max_iter + 1):
        if j >= len(step_baselines):
            return None, 'more steps than baselines'
        r = yf - step_baselines[j].ravel()
        neg = r[r < 0]
        if neg.size < 2:
            return np.array(rec), f'early exit at step {j}'
        it = j + 1 if one_based else j
        w_new = doc_weights(rule, yf, step_baselines[j], it=it, normalize=normalize, coef=coef)
        if is_airpls:
            d = abs(neg.sum()) / np.abs(yf).sum()
        else:
            d = np.linalg.norm(w_new - w_prev) / max(np.linalg.norm(w_prev), _MIN_FLOAT)
        rec.append(d)
        if d < tol:
            return np.array(rec), f'converged at step {j}'
        w_prev = w_new
    return np.array(rec), 'max_iter exhausted'


def early_exit_case(ctx, name, two_d, dname, kw, configs, probe_iter=14):
    """Returns the number of (max_iter, tol) configurations compared (0 when this input takes no early exit)."""
    rule, one_based, is_airpls = EARLY_HOSTS[name]
    axes, data = early_datasets(two_d)
    y = data[dname]
    NEVER = -1.0
    try:
        b, th, early = host_call(name, two_d, axes, y, dict(kw, max_iter=probe_iter, tol=NEVER))
    except Exception:  # noqa -- raising is C01's business
        return 0
    if not early or th.ndim != 1:
        return 0
    L = len(th)                       # the early exit happened in step L (0-based): nothing recorded for it
    steps = []
    for j in range(L + 1):
        bj, thj, _ = host_call(name, two_d, axes, y, dict(kw, max_iter=j, tol=NEVER))
        steps.append(bj)
    n = 0
    for (mi, tol) in configs(L):
        case = {'kind': 'early-exit', 'method': name, 'two_d': two_d, 'data': dname, 'kwargs': kw, 'max_iter': mi, 'tol': tol}
        try:
            _, got, _ = host_call(name, two_d, axes, y, dict(kw, max_iter=mi, tol=tol))
        except Exception as exc:  # noqa
            ctx.fail(f'stop:{name}:{"2d" if two_d else "1d"}:early-exit-raises', f'{name}({kw}, max_iter={mi}, tol={tol}) on {dname} raised '
                     f'{type(exc).__name__}: {exc}', case)
            continue
        want, why = expected_record(rule, one_based, is_airpls, y, steps, mi, tol, normalize=kw.get('normalize_weights', True),
                                    coef=kw.get('asymmetric_coef', 0.5))
        ctx.case(('early-exit', name, two_d, dname, repr(kw), mi, tol), nontrivial=True, kind=f'stop:early-exit:{rule}')
        n += 1
        if want is None:
            continue
        bad = None
        if got.shape != want.shape:
            bad = (f'tol_history has {got.size} entries {got.tolist()}, the documented rule replayed from the per-step baselines gives '
                   f'{want.size} ({why})')
        elif got.size and not np.allclose(got, want, rtol=1e-7, atol=1e-300):
            bad = f'tol_history {got.tolist()} differs from the values recomputed from the per-step baselines {want.tolist()} ({why})'
        if bad:
            ctx.fail(f'stop:{name}:{"2d" if two_d else "1d"}:early-exit-record',
                     f'{name}({kw}, max_iter={mi}, tol={tol}) on noise-free data "{dname}" (the run takes the documented early exit: fewer than '
                     f'two points below the baseline): {bad}', case)
    return n


def early_configs(L):
    cfg = [(14, -1.0), (14, 1e-3), (L, -1.0), (L + 1, -1.0), (0, 1e-3)]
    if L >= 1:
        cfg.append((L - 1, -1.0))
    return cfg


def early_exit_oracle(ctx, budget):
    """Every host with the documented early exit, on FIXED enumerated noise-free inputs that take it."""
    total = 0
    per_host = {}
    for two_d in (False, True):
        _, data = early_datasets(two_d)
        from . import methods as M
        for name in [n for n in M.method_names(two_d) if n in EARLY_HOSTS]:
            hits = 0
            for dname in data:
                for lam in (1e0, 1e2, 1e4, 1e6):
                    for do in ((1, 2) if not two_d else (2,)):
                        if hits >= (3 if budget == 1 else 8):
                            break
                        if name == 'drpls' and do < 2:
                            continue      # drpls requires diff_order >= 2
                        kw = dict(lam=lam, diff_order=do)
                        if name.startswith('pspline'):
                            kw['num_knots'] = 20 if not two_d else 6
                        for extra in (({}, {'normalize_weights': False}) if EARLY_HOSTS[name][0] == 'airpls' and hits == 0 else ({},)):
                            k = early_exit_case(ctx, name, two_d, dname, dict(kw, **extra), early_configs)
                            total += k
                            hits += k > 0
            per_host[f'{name}{"(2d)" if two_d else ""}'] = hits
    ctx.note('early-exit inputs found per host: ' + ', '.join(f'{k}={v}' for k, v in per_host.items()))
    return total


# ------------------------------------------------------------------ two-loop hosts (brpls family)
TWO_LOOP_TOLS = [(0.0, 1e-2), (1e-1, 1e-5), (1e-3, 1e-3), (0.0, float('inf')), (float('inf'), 0.0), (1e-2, 0.0), (-1.0, -1.0),
                 (1e-5, 1e-1), (1e-2, 1e-3)]
TWO_LOOP_ITERS = [(3, 4), (8, 5), (1, 2), (0, 0), (5, 1)]


def two_loop_expected(evs, row0, max_iter, max_iter_2, tol, tol_2):
    """The documented rule of the two-loop hosts replayed on the recorded inner events: the inner loop stops at
    the first recorded difference below tol, after max_iter + 1 passes, or at the early exit (nothing recorded);
    the outer loop stops at the first outer iteration whose recorded difference is below tol_2, after
    max_iter_2 + 1 iterations, or when the inner loop left through the early exit.
    Returns (rows of inner records, number of outer iterations, events consumed) or a string on mismatch."""
    pos = 0
    rows = []
    for i in range(max_iter_2 + 1):
        row = []
        early = False
        for _ in range(max_iter + 1):
            if pos >= len(evs):
                return f'the run made fewer inner passes ({len(evs)}) than the documented rule requires (outer iteration {i})'
            e, v = evs[pos]
            pos += 1
            if e:
                early = True
                break
            row.append(v)
            if v < tol:
                break
        rows.append(row)
        if i >= len(row0):
            return f'no outer value recorded for outer iteration {i}'
        if early or row0[i] < tol_2 or i == max_iter_2:
            return rows, i + 1, pos
    return rows, max_iter_2 + 1, pos


def two_loop_case(ctx, name, two_d, key, modname, dname, data, kw):
    from . import c01_nested as CN
    case = {'kind': 'two-loop', 'method': name, 'two_d': two_d, 'data': dname, 'kwargs': kw}
    extra = {'lam': 1e2, 'diff_order': 1} if dname.startswith('lin-') else {}
    log, th, exc = CN.logged_call(name, two_d, modname, data, dict(kw, **extra))
    if exc is not None:
        return 'raised'
    evs = CN.events_of(log, False)
    if evs is None or th.ndim != 2 or th.shape[0] < 2:
        ctx.fail(f'stop:{name}:{"2d" if two_d else "1d"}:two-loop-record', f'{name}({kw}): unexpected record / call order', case)
        return 'bad'
    passes = th.shape[0] - 1
    row0 = [float(v) for v in th[0, :passes]]
    exp = two_loop_expected(evs, row0, kw['max_iter'], kw['max_iter_2'], kw['tol'], kw['tol_2'])
    bad = None
    if isinstance(exp, str):
        bad = exp
    else:
        rows, n_outer, used = exp
        if n_outer != passes:
            bad = (f'{passes} outer iterations were made (outer record {row0}), the documented rule stops after {n_outer} '
                   f'(tol_2={kw["tol_2"]}, max_iter_2={kw["max_iter_2"]})')
        elif used != len(evs):
            bad = f'{len(evs)} inner passes were made, the documented rule makes {used}'
        else:
            for i, row in enumerate(rows):
                got = [float(v) for v in th[i + 1]]
                if got[:len(row)] != row or any(v != 0.0 for v in got[len(row):]):
                    bad = f'row {i + 1} of tol_history is {got}, the inner loop of outer iteration {i} recorded {row}'
                    break
    if bad:
        ctx.fail(f'stop:{name}:{"2d" if two_d else "1d"}:two-loop-record',
                 f'{name}(max_iter={kw["max_iter"]}, max_iter_2={kw["max_iter_2"]}, tol={kw["tol"]}, tol_2={kw["tol_2"]}) on "{dname}" data: {bad}', case)
        return 'bad'
    return 'ok'


def two_loop_data(dname, two_d):
    from . import methods as M
    rng = np.random.default_rng(2024)
    prng = __import__('random').Random(2024)
    if two_d:
        return M.make_z2d(rng, 10, 12)
    if dname == 'lin-spike-up':
        (x,), d = early_datasets(False)
        return (x, d['lin-spike-up'])
    x = M.make_x(prng, 48)
    return (x, M.make_y(rng, x))


def two_loop_oracle(ctx, budget):
    from . import c01_nested as CN
    n = 0
    for name, two_d, key, modname, gold in CN.METHODS:
        if gold:
            continue
        for dname in (('noisy',) if two_d else ('noisy', 'lin-spike-up')):
            data = two_loop_data(dname, two_d)
            for (mi, mi2) in TWO_LOOP_ITERS:
                for (tol, tol2) in TWO_LOOP_TOLS:
                    kw = dict(max_iter=mi, max_iter_2=mi2, tol=tol, tol_2=tol2)
                    res = two_loop_case(ctx, name, two_d, key, modname, dname, data, kw)
                    ctx.case(('two-loop', name, two_d, dname, mi, mi2, tol, tol2), nontrivial=res == 'ok' and tol != tol2,
                             kind=f'stop:two-loop:{"2d" if two_d else "1d"}' + ('' if res == 'ok' else ':' + res))
                    n += 1
    return n


def run(ctx):
    ctx.rule = ('residual vectors of size 3..100, magnitudes 1e-100..1e100, kinds mixed/all-positive/all-negative/ties-at-zero/'
                'one-negative/wide; bit-exact cases for asls, drpls, lsrpls, iarpls, quantile and the early-exit flags of all rules; '
                'hosts with the documented early exit (airpls, arpls, drpls, iarpls, lsrpls, aspls and pspline_ versions, 1-D and 2-D) on FIXED noise-free inputs (line / plane with one spike, parabola, step; lam 1..1e6) that take it: len and entries of tol_history vs the stop rule replayed from per-step baselines (max_iter = j, tol = -1 runs) for max_iter around the exit step and tol in {-1, 1e-3}; oracle cases for every rule (incl. eps=None on fits of every sign pattern, un-normalised airpls, zero standard deviation); hosts (1-D and 2-D, default rule parameters, data positive / negated / below zero / far below zero / centred / tiny) with tol never met: returned weights vs the documented rule on the returned baseline; trace validation of the stop rule on every iterative method (shared with C01); '
                'non-trivial = at least two negative and one positive residual (rules), returning call with non-empty record (traces)')
    ctx.trusted += [
        'Coq Reals standard axioms (ClassicalDedekindReals.sig_forall_dec, sig_not_dec, functional_extensionality_dep; '
        'Classical_Prop.classic for sqrt lemmas) -- see Print Assumptions lines',
        'mean/std/sum/max reductions and libm exp/expit/erf enter the float model as inputs (NumPy reduction order and libm are not modelled); '
        'exp/expit/erf-based rules (airpls, arpls, aspls, psalsa, derpsalsa, brpls) are tied by structure + an ulp-budget test, not bit-exactly',
        'IEEE rounding between the real-number theorems and the float runs is not proved',
    ]
    ctx.gate()
    ctx.translate(['GenLoops'])
    ctx.translate(['GenNested'])      # two-loop hosts: bookkeeping + "the outer stop test compares with tol_2 / tol_3 only" (fail-closed)
    ok = ctx.build_props(extra=['C09/Float.vo', 'C01/Trace.vo', 'C01/NestedTrace.vo'])
    bad = correspondence(ctx)
    c01.trace_validation(ctx)
    from .c01_nested import nested_trace_validation      # shared with C01: the two-level skeleton driven by recorded events
    nested_trace_validation(ctx)
    budget = 1 if (ok and not ctx.broken and ctx.tier == 'quick') else 6
    oracle(ctx, budget)
    oracle_defaults(ctx, budget)
    nh = host_oracle(ctx, budget)
    ne = early_exit_oracle(ctx, budget)
    n2 = two_loop_oracle(ctx, budget)
    ctx.note(f'{n2} runs of the two-loop hosts (brpls, pspline_brpls, 1-D and 2-D) on an enumerated (max_iter, max_iter_2, tol, tol_2) grid with tol != tol_2 '
             'in both directions: both records vs the documented rule replayed on the recorded inner events')
    ctx.note(f'{ne} host runs that take (or stop just before / after) the documented early exit compared with the stop rule replayed from per-step baselines')
    ctx.note(f'oracle budget x{budget}; brpls value formula (erf) and its beta -> 1 guard only range/monotone checked; '
             f'{nh} returned (weights, baseline) pairs of 1-D/2-D hosts compared with the documented rule at default parameters; '
             'derpsalsa hosts through the invariance of the partial weights only; mixture_model / brpls hosts (nested or carried '
             'state) not compared with a formula')


class _ReplayCtx:
    """Minimal stand-in for Ctx when an oracle is re-run for a replay."""
    def __init__(self, seed):
        self.seed = seed
        self.fails = []

    def case(self, *a, **k):
        pass

    def fail(self, key, what, case):
        self.fails.append((key, what))


def replay(rep):
    case = rep.get('case') or {}
    print('replay case keys:', list(case))
    if case.get('kind') == 'two-loop':
        from . import c01_nested as CN
        rc = _ReplayCtx(0)
        for name, two_d, key, modname, gold in CN.METHODS:
            if name == case['method'] and two_d == case['two_d']:
                two_loop_case(rc, name, two_d, key, modname, case['data'], two_loop_data(case['data'], two_d), case['kwargs'])
        print('replay two-loop host:', rc.fails[0][1] if rc.fails else 'both records follow the documented rule on this input')
        return 1 if rc.fails else 0
    if case.get('kind') == 'early-exit':
        rc = _ReplayCtx(0)
        rc.note = lambda *a, **k: None
        early_exit_case(rc, case['method'], case['two_d'], case['data'], case['kwargs'],
                        lambda L: [(case['max_iter'], case['tol'])])
        print('replay early-exit:', rc.fails[0][1] if rc.fails else 'the recorded tol_history follows the documented stop rule on this input')
        return 1 if rc.fails else 0
    if case.get('kind') == 'host':
        rc = _ReplayCtx(case.get('seed', 0))
        host_oracle(rc, 1)
        hits = [w for k, w in rc.fails if k == rep.get('key')]
        print('replay host oracle:', hits[0] if hits else 'property holds on the recorded host/data/seed')
        return 1 if hits else 0
    if case.get('kind') == 'rule-oracle' and case.get('rule') == 'quantile' and 'quantile' in case:
        W = impl()
        y = np.array(case['y'])
        b = np.array(case['baseline'])
        w = call(W._quantile, y, b, case['quantile'])
        ok = close_ulp(w, doc_weights('quantile', y, b, quantile=case['quantile']), ulps=4)[0]
        print('replay _quantile(eps=None):', 'property holds on this input' if ok else 'differs from the documented default eps')
        return 0 if ok else 1
    if case.get('kind') in ('rule', 'rule-oracle') and 'y' in case:
        W = impl()
        y = np.array(case['y'])
        b = np.array(case['baseline'])
        print('residual:', y - b)
        for name in ('_asls',):
            print(name, call(getattr(W, name), y, b, case.get('p', 0.01)))
    return 1
