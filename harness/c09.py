"""C09 -- reweighting rules and the stop rule.  DESIGN.md section 4 / C09."""
import math
import warnings

import numpy as np

from . import c01
from .common import coqbool, hexf

PROP = 'C09'

HEADER = """From Coq Require Import List Bool PrimFloat.
From PB Require Import lib.CaseUtil C09.Rules C09.Float.
Import ListNotations.
"""


def flist(fs):
    return '[' + '; '.join(hexf(f) for f in fs) + ']'


def gen_residual(rng, n, kind):
    mag = 10.0 ** rng.choice([-100, -20, -3, 0, 0, 0, 2, 20, 100])
    r = rng.normal(0, 1, n) * mag
    if kind == 'allpos':
        r = np.abs(r) + mag * 1e-3
    elif kind == 'allneg':
        r = -np.abs(r) - mag * 1e-3
    elif kind == 'ties':
        r[rng.random(n) < 0.4] = 0.0
    elif kind == 'oneneg':
        r = np.abs(r) + mag * 1e-3
        r[rng.integers(n)] *= -1
    elif kind == 'wide':
        r = r * 10.0 ** rng.integers(-8, 8, n)
    return r


KINDS = ['mixed', 'allpos', 'allneg', 'ties', 'oneneg', 'wide']


def impl():
    from pybaselines import _weighting as W
    return W


def call(fn, *a, **k):
    with warnings.catch_warnings():
        warnings.simplefilter('ignore')
        with np.errstate(all='ignore'):
            return fn(*a, **k)


def correspondence(ctx):
    """Bit-exact comparison of the float instance of C09/Rules.v with _weighting.py."""
    W = impl()
    rng = np.random.default_rng(ctx.seed)
    lits = []
    meta = []
    ncase = ctx.n(240, 2400)
    for c in range(ncase):
        n = int(rng.choice([3, 4, 5, 8, 17, 40]))
        kind = KINDS[(c // 6) % len(KINDS)]
        r = gen_residual(rng, n, kind)
        base = rng.normal(0, 1, n) * (np.abs(r).max() + 1e-300) * rng.choice([0.0, 1.0, 1e3])
        y = base + r
        r = y - base            # the residual exactly as the implementation computes it
        rule = ['asls', 'drpls', 'lsrpls', 'iarpls', 'quantile', 'exit'][c % 6]
        it = int(rng.choice([1, 2, 5, 50, 100, 101, 200]))
        neg = r[r < 0]
        nontriv = (neg.size >= 2) and (r > 0).any()
        if rule == 'asls':
            p = float(rng.choice([0.001, 0.01, 0.5, 0.9, 0.999]))
            got = call(W._asls, y, base, p)
            lits.append(f'(0%nat, [{hexf(p)}], {flist(y)}, {flist(base)}, {flist(got)}, false)')
        elif rule in ('drpls', 'lsrpls', 'iarpls'):
            fn = {'drpls': W._drpls, 'lsrpls': W._lsrpls, 'iarpls': W._iarpls}[rule]
            got, early = call(fn, y, base, it)
            if neg.size < 2:
                # early exit: zero weights, flag set; the flag itself is compared by the `exit` cases
                if not early or np.any(got != 0):
                    ctx.fail(f'rule:{rule}:early-exit', f'{rule}: fewer than 2 negative residuals but exit_early={early} / weights not zero',
                             {'kind': 'rule', 'rule': rule, 'y': y.tolist(), 'baseline': base.tolist(), 'iteration': it})
                lits.append(f'(5%nat, [], {flist(y)}, {flist(base)}, [], {coqbool(bool(early))})')
            else:
                std = call(W._safe_std, neg, ddof=1)
                mean = np.mean(neg)
                if rule == 'drpls':
                    scale = np.exp(min(it, 100))
                    lits.append(f'(1%nat, [{hexf(scale)}; {hexf(std)}; {hexf(mean)}], {flist(y)}, {flist(base)}, {flist(got)}, {coqbool(bool(early))})')
                elif rule == 'lsrpls':
                    scale = float(10 ** min(it, 100))
                    lits.append(f'(1%nat, [{hexf(scale)}; {hexf(std)}; {hexf(mean)}], {flist(y)}, {flist(base)}, {flist(got)}, {coqbool(bool(early))})')
                else:
                    scale = np.exp(min(it, 100))
                    lits.append(f'(2%nat, [{hexf(scale)}; {hexf(std)}], {flist(y)}, {flist(base)}, {flist(got)}, {coqbool(bool(early))})')
        elif rule == 'quantile':
            q = float(rng.choice([0.01, 0.05, 0.5, 0.95]))
            eps = float(rng.choice([1e-12, 1e-6, 1.0])) * (np.abs(r).max() ** 2 + 1e-300)
            got = call(W._quantile, y, base, q, eps)
            from pybaselines.utils import _MIN_FLOAT
            lits.append(f'(3%nat, [{hexf(q)}; {hexf(max(eps, _MIN_FLOAT))}], {flist(y)}, {flist(base)}, {flist(got)}, false)')
        else:
            # early-exit flags of every rule that has one
            flags = []
            for fn, args in ((W._airpls, (it, True)), (W._arpls, ()), (W._drpls, (it,)), (W._iarpls, (it,)),
                             (W._aspls, (0.5,)), (W._lsrpls, (it,))):
                flags.append(bool(call(fn, y, base, *args)[-1]))
            if len(set(flags)) != 1:
                ctx.fail('rule:early-exit-inconsistent', f'early-exit flags differ between rules on the same residual: {flags}',
                         {'kind': 'rule', 'rule': 'exit', 'y': y.tolist(), 'baseline': base.tolist()})
            lits.append(f'(5%nat, [], {flist(y)}, {flist(base)}, [], {coqbool(flags[0])})')
            b_flag = bool(call(W._brpls, y, base, 0.5)[-1])
            lits.append(f'(6%nat, [], {flist(y)}, {flist(base)}, [], {coqbool(b_flag)})')
            meta.append((rule, kind, n))
        meta.append((rule, kind, n))
        ctx.case((rule, kind, n, it, r.tobytes()), nontrivial=nontriv, kind=f'rule:{rule}:{kind}')
    ctx.sample({'kind': 'rule-case', 'coq_literal': lits[1][:300]})
    ob = 'correspondence:weighting-rules-bit-exact(asls,drpls,lsrpls,iarpls,quantile,early-exit flags)'
    ctx.obligations.append(ob)
    bad = False
    per = 400
    for s in range(0, len(lits), per):
        sh = lits[s:s + per]
        text = HEADER + f"""
Definition cases : list (nat * list float * list float * list float * list float * bool) := [
{chr(10).join('  ' + l + (';' if i + 1 < len(sh) else '') for i, l in enumerate(sh))}
].
Definition par (ps : list float) (i : nat) : float := nth i ps nan.
Definition ok (c : nat * list float * list float * list float * list float * bool) : bool :=
  let '(rule, ps, ys, bs, exp, flag) := c in
  let rs := residuals Num_F ys bs in
  match rule with
  | 0%nat => fl_eqb (map (fun yb => asls_w Num_F (par ps 0) (fst yb) (snd yb)) (combine ys bs)) exp
  | 1%nat => fl_eqb (map (drpls_w Num_F (par ps 0) (par ps 1) (par ps 2)) rs) exp && Bool.eqb (exit_early Num_F rs) flag
  | 2%nat => fl_eqb (map (iarpls_w Num_F (par ps 0) (par ps 1)) rs) exp && Bool.eqb (exit_early Num_F rs) flag
  | 3%nat => fl_eqb (map (quantile_w Num_F (par ps 0) (par ps 1)) rs) exp
  | 5%nat => Bool.eqb (exit_early Num_F rs) flag
  | 6%nat => Bool.eqb (exit_early_brpls Num_F rs) flag
  | _ => false
  end.
Eval vm_compute in (bad ok cases).
"""
        vals = ctx.coq_eval(f'rules{s // per}', text)
        if vals is None:
            bad = True
        elif not vals or not vals[0].startswith('(0'):
            bad = True
            ctx.broke(ob, f'float model and _weighting.py disagree bit-for-bit: {vals}')
            import re
            m = re.match(r'\((\d+)(?:%nat)?, \[(.*)\]\)', vals[0]) if vals else None
            for tok in (m.group(2).split(';') if m else [])[:4]:
                if tok.strip():
                    i = int(tok.replace('%nat', ''))
                    ctx.fail(f'rule:model-mismatch:{sh[i].split(",")[0].strip("(")}',
                             'the implementation differs bit-for-bit from the documented rule as transcribed in C09/Rules.v '
                             '(Coq literal: rule id, parameters, y, baseline, implementation output, exit flag)',
                             {'kind': 'rule-literal', 'literal': sh[i]})
    if not bad:
        ctx.discharged.append(ob)
    return bad


def ulp_diff(a, b):
    a = np.asarray(a, dtype=float)
    b = np.asarray(b, dtype=float)
    with np.errstate(all='ignore'):
        return np.abs(a - b) / np.maximum(np.spacing(np.maximum(np.abs(a), np.abs(b))), 5e-324)


def oracle(ctx, budget):
    """Direct evaluation of the property on the implementation's rules: finite, in [0,1], antitone in
    the residual, agreement with an independent evaluation of the documented formula."""
    W = impl()
    from scipy.special import erf, expit
    rng = np.random.default_rng(ctx.seed + 7)
    n_cases = 150 * budget
    for c in range(n_cases):
        n = int(rng.choice([3, 5, 9, 33, 100]))
        kind = KINDS[(c // 3) % len(KINDS)]
        r = gen_residual(rng, n, kind)
        base = np.zeros(n) if c % 3 else rng.normal(0, 1, n) * np.abs(r).max()
        y = base + r
        r = y - base
        it = int(rng.choice([1, 3, 20, 50, 100, 200]))
        neg = r[r < 0]
        pos = r[r > 0]
        p = float(rng.choice([0.001, 0.01, 0.3, 0.5]))
        k = float(np.abs(r).max() * rng.choice([0.1, 1, 10]) + 1e-300)
        part = rng.random(n)
        beta = float(rng.choice([0.1, 0.5, 0.9]))
        outs = {}
        with np.errstate(all='ignore'):
            outs['asls'] = (call(W._asls, y, base, p), None)
            outs['psalsa'] = (call(W._psalsa, y, base, p, k, n), None)
            outs['derpsalsa'] = (call(W._derpsalsa, y, base, p, k, n, part), None)
            for name, fn, args in (('airpls', W._airpls, (it, True)), ('arpls', W._arpls, ()), ('drpls', W._drpls, (it,)),
                                   ('iarpls', W._iarpls, (it,)), ('aspls', W._aspls, (0.5,)), ('lsrpls', W._lsrpls, (it,)),
                                   ('brpls', W._brpls, (beta,))):
                res = call(fn, y, base, *args)
                outs[name] = (res[0], bool(res[-1]))
        doc_asls = np.where(y > base, p, 1 - p)      # docs/algorithms/whittaker.rst: p if y > v, 1 - p if y <= v
        if not np.array_equal(outs['asls'][0], doc_asls):
            ctx.fail('rule:asls:formula', 'asls: weights differ from the documented rule (p if y > v else 1 - p)',
                     {'kind': 'rule-oracle', 'rule': 'asls', 'y': y.tolist(), 'baseline': base.tolist(), 'p': p})
        order = np.argsort(r, kind='stable')
        for name, (w, early) in outs.items():
            case = {'kind': 'rule-oracle', 'rule': name, 'y': y.tolist(), 'baseline': base.tolist(), 'iteration': it,
                    'p': p, 'k': k, 'beta': beta, 'partial': part.tolist()}
            ctx.case(('oracle', name, kind, n, c), nontrivial=neg.size >= 2 and pos.size >= 1, kind=f'oracle:{name}')
            expect_early = neg.size < 2 or (name == 'brpls' and pos.size < 2)
            if early is not None and early != expect_early:
                ctx.fail(f'rule:{name}:early-exit', f'{name}: exit_early={early} but {neg.size} negative / {pos.size} positive residuals', case)
                continue
            if early:
                if np.any(w != 0):
                    ctx.fail(f'rule:{name}:early-weights', f'{name}: early exit must return zero weights', case)
                continue
            if not np.all(np.isfinite(w)):
                ctx.fail(f'rule:{name}:nonfinite', f'{name}: non-finite weight', case)
                continue
            if np.any(w < 0) or np.any(w > 1):
                ctx.fail(f'rule:{name}:range', f'{name}: weight outside [0, 1] (min {w.min()}, max {w.max()})', case)
            ws = w[order]
            if name == 'derpsalsa':
                continue   # multiplied by unrelated partial weights: monotone only with those fixed
            # never increase as the residual increases (asls/psalsa: documented only for p <= 1/2)
            inc = float(np.max(np.diff(ws))) if n > 1 else 0.0
            if inc > 1e-12 * max(1.0, np.abs(ws).max()):
                cancel = False
                if name == 'brpls':
                    # where 1 + erf(inner) has lost most of its bits (inner < -3) the code's cancellation
                    # noise dominates; increases located only there belong to the recorded finding
                    mean_p = np.mean(pos)
                    sigma = np.sqrt(neg.dot(neg) / neg.size)
                    inner = (r / (sigma * np.sqrt(2)) - sigma / (mean_p * np.sqrt(2)))[order]
                    up = np.flatnonzero(np.diff(ws) > 1e-12 * max(1.0, np.abs(ws).max()))
                    cancel = bool(np.all(inner[up] < -3.0))
                if cancel:
                    ctx.fail('rule:brpls:monotone-cancellation',
                             f'brpls: weights increase with the residual by {inc:.3g} where inner < -3 (cancellation in 1 + erf(inner))', case)
                else:
                    ctx.fail(f'rule:{name}:monotone', f'{name}: weights increase with the residual by {inc:.3g}', case)
        # independent evaluation of the documented formulas (a test of the transcription; libm ulp budget)
        if neg.size >= 2:
            std = max(np.std(neg, ddof=1), 0.0) or 2.2250738585072014e-308 ** 1
            std = np.std(neg, ddof=1)
            if std == 0:
                continue
            m = np.mean(neg)
            with np.errstate(all='ignore'):
                ref = {
                    'arpls': expit(-(2 / std) * (r - (2 * std - m))),
                    'aspls': expit(-(0.5 / std) * (r - std)),
                    'psalsa': np.where(r > 0, p * np.exp(-np.where(r > 0, r, 0) / k), 1 - p),
                }
                t = min(it, 50) / neg.sum()
                logmax = np.log(np.finfo(float).max)
                wa = np.zeros(n)
                wa[r < 0] = np.exp(np.clip(t * neg, 0, logmax - np.spacing(logmax)))
                wa[r < 0] /= wa[r < 0].max()
                ref['airpls'] = wa
            for name, rv in ref.items():
                w = outs[name][0]
                d = ulp_diff(w, rv)
                if np.nanmax(d) > 64 and np.nanmax(np.abs(w - rv)) > 1e-13:
                    ctx.fail(f'rule:{name}:formula', f'{name}: differs from the documented formula by {np.nanmax(d):.3g} ulp',
                             {'kind': 'rule-oracle', 'rule': name, 'y': y.tolist(), 'baseline': base.tolist(), 'iteration': it, 'p': p, 'k': k})


def run(ctx):
    ctx.rule = ('residual vectors of size 3..100, magnitudes 1e-100..1e100, kinds mixed/all-positive/all-negative/ties-at-zero/'
                'one-negative/wide; bit-exact cases for asls, drpls, lsrpls, iarpls, quantile and the early-exit flags of all rules; '
                'oracle cases for every rule; trace validation of the stop rule on every iterative method (shared with C01); '
                'non-trivial = at least two negative and one positive residual (rules), returning call with non-empty record (traces)')
    ctx.trusted += [
        'Coq Reals standard axioms (ClassicalDedekindReals.sig_forall_dec, sig_not_dec, functional_extensionality_dep; '
        'Classical_Prop.classic for sqrt lemmas) -- see Print Assumptions lines',
        'mean/std/sum/max reductions and libm exp/expit/erf enter the float model as inputs (NumPy reduction order and libm are not modelled); '
        'exp/expit/erf-based rules (airpls, arpls, aspls, psalsa, derpsalsa, brpls) are tied by structure + an ulp-budget test, not bit-exactly',
        'IEEE rounding between the real-number theorems and the float runs is not proved',
    ]
    ctx.gate()
    ctx.translate(['GenLoops'])
    ok = ctx.build_props(extra=['C09/Float.vo', 'C01/Trace.vo'])
    bad = correspondence(ctx)
    c01.trace_validation(ctx)
    budget = 1 if (ok and not ctx.broken and ctx.tier == 'quick') else 6
    oracle(ctx, budget)
    ctx.note(f'oracle budget x{budget}; brpls value formula (erf) only range/monotone checked')


def replay(rep):
    case = rep.get('case') or {}
    print('replay case keys:', list(case))
    if case.get('kind') in ('rule', 'rule-oracle') and 'y' in case:
        W = impl()
        y = np.array(case['y'])
        b = np.array(case['baseline'])
        print('residual:', y - b)
        for name in ('_asls',):
            print(name, call(getattr(W, name), y, b, case.get('p', 0.01)))
    return 1
