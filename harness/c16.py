"""C16 -- equivalent ways of supplying the same inputs give the same result.  DESIGN.md section 4 / C16.

Flow: gate -> translator (GenSigs) -> props build -> correspondence
  A. the binding model (C16/Bind.v) against the REAL _class_wrapper (applied to the real module-level
     functions' signatures with a recording class) and against CPython's own call binding of the method
     signature, on random call shapes, evaluated inside Coq;
  B. the normalisation / dtype model (C16/Model.v) against the REAL _Algorithm._register /
     _Algorithm2D._register prologues on a (container, layout, dtype, shape) grid, evaluated inside Coq;
  C. the no-x state model against Baseline(linspace(-1,1,N));
-> direct oracle over every method of harness/methods.py (variant call versus canonical call, bit for bit).
"""
import inspect
import warnings

import numpy as np

from . import methods as M
from .common import coqbool, zl, zlist

PROP = 'C16'

HEADER = """From Coq Require Import String ZArith List Bool.
From PB Require Import lib.CaseUtil C01.Wrapper C16.SigTable C16.Bind C16.Model C16.PerPoint gen.GenSigs.
Import ListNotations.
Open Scope string_scope.
Open Scope Z_scope.
Definition oz_eqb (a b : option Z) := match a, b with Some x, Some y => x =? y | None, None => true | _, _ => false end.
Fixpoint kw_eqb (a b : list (string * Z)) : bool :=
  match a, b with
  | [], [] => true
  | (k, v) :: a', (k', v') :: b' => String.eqb k k' && (v =? v') && kw_eqb a' b'
  | _, _ => false
  end.
Fixpoint ozl_eqb (a b : list (option Z)) : bool :=
  match a, b with [], [] => true | x :: a', y :: b' => oz_eqb x y && ozl_eqb a' b' | _, _ => false end.
"""

MODS = ['classification', 'misc', 'morphological', 'optimizers', 'polynomial', 'smooth', 'spline', 'whittaker']


def cstr(s):
    return '"' + s.replace('"', '""') + '"'


def oz(v):
    return 'None' if v is None else f'(Some {zl(v)})'


def kwlit(kw):
    return '[' + '; '.join(f'({cstr(k)}, {zl(v)})' for k, v in kw) + ']'


def is_zero(vals):
    return bool(vals) and (vals[0].startswith('(0%nat, [])') or vals[0].startswith('(0, [])'))


# ====================================================================== A. binding correspondence
class _Recorder:
    """Stands for klass in _class_wrapper(klass): records x_data and the call of the method."""

    def __init__(self, x_data=None):
        self.x = x_data

    def __getattr__(self, name):
        def method(*args, **kwargs):
            return ('called', name, self.x, args, dict(kwargs), list(kwargs))
        return method


_SENT = object()


def make_probe(sig):
    """A real Python function with the parameter names / required-ness / **kwargs of `sig`
    (without self) that returns its local bindings: CPython's own call binding."""
    parts = []
    kwname = None
    for p in sig.parameters.values():
        if p.name == 'self':
            continue
        if p.kind == p.VAR_KEYWORD:
            kwname = p.name
            parts.append('**' + p.name)
        elif p.kind == p.POSITIONAL_OR_KEYWORD:
            parts.append(p.name if p.default is p.empty else f'{p.name}=_SENT')
        else:
            raise ValueError(f'unsupported parameter kind {p.kind}')
    ns = {'_SENT': _SENT}
    exec(f'def probe({", ".join(parts)}):\n    return dict(locals())\n', ns)
    return ns['probe'], kwname


def table_entries():
    """[(module, name, wrapped function, method function)] in the translator's order."""
    import importlib
    out = []
    for m in MODS:
        mod = importlib.import_module('pybaselines.' + m)
        src_order = []
        for name, f in vars(mod).items():
            if inspect.isfunction(f) and hasattr(f, '__wrapped__') and f.__module__ == mod.__name__ \
                    and not name.startswith('_'):
                src_order.append((f.__wrapped__.__code__.co_firstlineno, name, f))
        for _, name, f in sorted(src_order):
            out.append((m, name, f))
    return out


def gen_call_shape(rng, fparams, varkw):
    """(pos values, [(key, value)]) -- mostly valid, sometimes invalid on purpose."""
    names = [p for p in fparams]
    vals = iter(range(1, 1000))
    mode = rng.random()
    np_ = rng.choice([0, 1, 1, 1, 2, 2, 3, rng.randint(0, len(names)), rng.randint(0, len(names) + 1)])
    np_ = min(np_, len(names) + 1)
    pos = [next(vals) for _ in range(np_)]
    rest = names[np_:]
    kws = []
    if rest:
        k = rng.randint(0, len(rest))
        chosen = rng.sample(rest, k)
        if mode < 0.75 and np_ == 0 and 'data' in rest and 'data' not in chosen:
            chosen.append('data')
        if mode < 0.5 and 'x_data' in rest and 'x_data' not in chosen:
            chosen.append('x_data')
        rng.shuffle(chosen)
        kws = [(n, next(vals)) for n in chosen]
    if mode > 0.9 and np_ > 0 and np_ <= len(names):
        kws.append((names[rng.randrange(np_)], next(vals)))      # multiple values
    if 0.8 < mode <= 0.9 or (varkw and mode < 0.3):
        kws.append((rng.choice(['zz_extra', 'another_kw', 'X_DATA']), next(vals)))
        if rng.random() < 0.3:
            kws.append(('pad_mode', next(vals)))
    return pos, kws


def corr_binding(ctx):
    from pybaselines import _algorithm_setup as A
    entries = table_entries()
    rng = ctx.rng
    lits = []
    per_entry = ctx.n(7, 60)
    nerr = 0
    for idx, (mod, name, f) in enumerate(entries):
        func = f.__wrapped__
        fsig = inspect.signature(func)
        fparams = [p.name for p in fsig.parameters.values() if p.kind == p.POSITIONAL_OR_KEYWORD]
        varkw = any(p.kind == p.VAR_KEYWORD for p in fsig.parameters.values())
        wrapped = A._class_wrapper(_Recorder)(func)      # the REAL wrapper, a recording class
        import importlib
        klass = None
        modobj = importlib.import_module('pybaselines.' + mod)
        for cname, c in vars(modobj).items():
            if inspect.isclass(c) and c.__module__ == modobj.__name__ and name in vars(c):
                klass = c
        meth = vars(klass)[name]
        msig = inspect.signature(getattr(meth, '__wrapped__', meth))
        probe, kwname = make_probe(msig)
        mnames = [p.name for p in msig.parameters.values()
                  if p.name != 'self' and p.kind == p.POSITIONAL_OR_KEYWORD]
        shapes = [([1], []), ([1, 2], []), ([], [('data', 1), ('x_data', 2)])]
        shapes += [gen_call_shape(rng, fparams, varkw) for _ in range(per_entry)]
        for pos, kws in shapes:
            try:
                r = wrapped(*pos, **dict(kws))
            except TypeError:
                r = None
            if r is None:
                exp = 'None'
                nerr += 1
                ctx.case(('bind', name, tuple(pos), tuple(kws)), nontrivial=True, kind='bind:TypeError')
            else:
                _, mname, x, margs, mkw, order = r
                if mname != name:
                    ctx.broke('correspondence:binding', f'{name}: wrapper looked up method {mname!r}')
                mkw_l = [(k, mkw[k]) for k in order]
                try:
                    env = probe(*margs, **mkw)
                    extras = list(env.get(kwname, {}).items()) if kwname else []
                    envl = [None if env[n] is _SENT else env[n] for n in mnames]
                    menv = f'(Some ([{"; ".join(oz(v) for v in envl)}], {kwlit(extras)}))'
                except TypeError:
                    menv = 'None'
                exp = f'(Some ({oz(x)}, {zlist(margs)}, {kwlit(mkw_l)}, {menv}))'
                nontriv = len(pos) > 1 or len(kws) > 1
                ctx.case(('bind', name, tuple(pos), tuple(kws)), nontrivial=nontriv,
                         kind=f'bind:pos={min(len(pos), 4)}')
            lits.append(f'({idx}%nat, {zlist(pos)}, {kwlit(kws)}, {exp})')
    ctx.sample({'kind': 'binding-case', 'function': entries[3][1], 'literal': lits[3 * (per_entry + 3) + 4][:300]})
    names_l = '[' + '; '.join(cstr(n) for _, n, _ in entries) + ']'
    body = """
Definition expected_names : list string := %s.
Definition T := (option Z * list Z * list (string * Z) * option (list (option Z) * list (string * Z)))%%type.
Definition ok (c : nat * list Z * list (string * Z) * option T) : bool :=
  let '(i, pos, kw, exp) := c in
  match nth_error sigs i with
  | None => false
  | Some e =>
    match wrapper (e_func e) pos kw, exp with
    | WTypeError, None => true
    | WCall x margs mkw, Some (x', margs', mkw', menv) =>
        oz_eqb x x' && zl_eqb margs margs' && kw_eqb mkw mkw'
        && match e_meth e with
           | None => false
           | Some ms =>
             match bind ms margs mkw, menv with
             | None, None => true
             | Some mb, Some (env, extras) =>
                 ozl_eqb (map (fun p => b_get mb (p_name p)) (s_params ms)) env && kw_eqb (b_extra mb) extras
             | _, _ => false
             end
           end
    | _, _ => false
    end
  end.
"""
    bad_any = False
    per = 450
    for k in range(0, len(lits), per):
        sh = lits[k:k + per]
        text = HEADER + body % names_l + 'Definition cases : list (nat * list Z * list (string * Z) * option T) := [\n' + ';\n'.join('  ' + l for l in sh) + '\n].\n'
        text += 'Eval vm_compute in (bad ok cases).\n'
        if k == 0:
            text += ('Eval vm_compute in (if forallb (fun p => String.eqb (fst p) (snd p)) '
                     '(combine (map e_name sigs) expected_names) && Nat.eqb (length sigs) (length expected_names) '
                     'then 0%nat else 1%nat, @nil nat).\n')
            text += 'Eval vm_compute in (flat_map weak_defaults sigs).\n'
        vals = ctx.coq_eval(f'bind{k // per}', text)
        if vals is None:
            bad_any = True
            continue
        if not is_zero(vals):
            bad_any = True
            ctx.broke(f'correspondence:binding-shard{k // per}',
                      f'model wrapper/bind and the real _class_wrapper / CPython binding disagree: {vals[0][:300]}')
        if k == 0:
            if len(vals) < 3 or not is_zero(vals[1:2]):
                bad_any = True
                ctx.broke('correspondence:binding-table-order',
                          'the functions found at run time are not the table entries, in order')
            else:
                ctx.extra['weak_defaults'] = vals[2]
    ctx.obligations.append('correspondence:_class_wrapper-binding')
    if not bad_any:
        ctx.discharged.append('correspondence:_class_wrapper-binding')
    ctx.note(f'binding correspondence: {len(lits)} call shapes over {len(entries)} functions, {nerr} of them TypeError')
    return ctx.extra.get('weak_defaults', '')


# ====================================================================== B. normalisation correspondence
DT = {'F64': np.float64, 'F32': np.float32, 'F16': np.float16, 'I64': np.int64, 'I32': np.int32,
      'I16': np.int16, 'I8': np.int8, 'U8': np.uint8}
DT_INV = {np.dtype(v).name: k for k, v in DT.items()}


def build_variant(cont, layout, dt, shape, mem):
    """The Python object denoted by a descriptor of C16/Model.v."""
    shape = tuple(shape)
    size = int(np.prod(shape)) if shape else 1
    if cont != 'CArray' or layout == 'LC':
        arr = np.array(mem[:size], dtype=DT[dt]).reshape(shape)
    elif layout == 'LF':
        arr = np.array(mem[:size], dtype=DT[dt]).reshape(shape, order='F')
    else:
        k = int(layout[1])
        big = tuple(k * s for s in shape)
        base = np.array(mem[:int(np.prod(big))], dtype=DT[dt]).reshape(big)
        arr = base[tuple(slice(None, None, k) for _ in shape)]
    if cont == 'CArray':
        return arr
    lst = arr.tolist()     # python floats for F64, python ints for I64
    if cont == 'CTuple':
        def tup(v):
            return tuple(tup(u) for u in v) if isinstance(v, list) else v
        return tup(lst)
    return lst


def probe_classes():
    from pybaselines._algorithm_setup import _Algorithm
    from pybaselines.two_d._algorithm_setup import _Algorithm2D
    seen = {}

    class P1(_Algorithm):
        @_Algorithm._register
        def probe(self, data):
            seen['y'] = data
            return data * 1.0, {}

    class P2(_Algorithm2D):
        @_Algorithm2D._register
        def probe(self, data):
            seen['y'] = data
            return data * 1.0, {}

        @_Algorithm2D._register(ensure_2d=False)
        def probe_stack(self, data):
            seen['y'] = data
            return data * 1.0, {}

    return P1, P2, seen


def desc_lit(cont, layout, dt, shape, mem):
    lay = layout if layout in ('LC', 'LF') else f'(LStep {layout[1]})'
    return (f'{{| d_cont := {cont}; d_layout := {lay}; d_dtype := {dt}; d_shape := {zlist(shape)}; '
            f'd_mem := fun o => nth (Z.to_nat o) {zlist(mem)} (-1) |}}')


def corr_normalise(ctx):
    P1, P2, seen = probe_classes()
    rng = ctx.rng
    lits = []
    shapes1 = [(5,), (5, 1), (1, 5), (1, 1), (1,), (2, 3), (3, 1, 1), (), (7,), (1, 7), (4, 1), (2, 2, 1)]
    shapes2 = [(3, 4), (3, 4, 1), (1, 3, 4), (3, 1, 4), (2, 2), (5, 2, 1), (1, 2, 5), (4,), (3, 1), (1, 4),
               (2, 3, 4), (1, 1, 4), (1, 4, 1), (2, 1, 1), (), (2, 3, 1, 1), (2, 2, 2)]
    combos = []
    for two_d, shapes in ((0, shapes1), (1, shapes2), (2, shapes2)):
        for shape in shapes:
            for cont, layout, dt in [('CArray', 'LC', 'F64'), ('CList', 'LC', 'F64'), ('CTuple', 'LC', 'I64'),
                                     ('CArray', 'LF', 'F64'), ('CArray', 'L2', 'F64'), ('CArray', 'L3', 'I32'),
                                     ('CArray', 'LC', 'F32'), ('CArray', 'LF', 'I64'), ('CArray', 'LC', 'U8'),
                                     ('CList', 'LC', 'I64'), ('CArray', 'L2', 'F16'), ('CArray', 'LF', 'I8')]:
                combos.append((two_d, shape, cont, layout, dt))
    if ctx.tier != 'thorough':
        keep = [c for c in combos if c[2:] in (('CArray', 'LC', 'F64'), ('CList', 'LC', 'F64'))]
        rest = [c for c in combos if c not in keep]
        combos = keep + rng.sample(rest, 260)
    n_acc = 0
    for two_d, shape, cont, layout, dt in combos:
        if shape == () and cont != 'CArray':
            continue
        k = int(layout[1]) if layout.startswith('L') and layout[1:].isdigit() else 1
        need = int(np.prod([k * s for s in shape])) if shape else 1
        mem = [rng.randint(0, 100) for _ in range(need)]
        given = rng.choice([None, None, 'F64', 'F32', 'I32'])
        obj = build_variant(cont, layout, dt, shape, mem)
        cls = P1 if two_d == 0 else P2
        fit = cls(output_dtype=None if given is None else DT[given])
        seen.clear()
        try:
            with warnings.catch_warnings():
                warnings.simplefilter('ignore')
                out, _ = (fit.probe_stack if two_d == 2 else fit.probe)(obj)
            y = seen['y']
            if y.dtype != np.float64:
                ctx.fail('prologue:y-not-float64', f'the method body received dtype {y.dtype}',
                         {'kind': 'norm', 'two_d': two_d, 'shape': shape, 'cont': cont, 'layout': layout, 'dtype': dt})
            vals = [int(v) for v in y.ravel()]
            if [int(v) for v in np.asarray(out).ravel()] != vals:
                raise AssertionError('probe output changed')
            exp = (f'(Some ({DT_INV.get(out.dtype.name, "BoolT")}, {zlist(y.shape)}, {zlist(vals)}))')
            n_acc += 1
            kind = 'norm:accepted'
        except TypeError:
            exp, kind = 'None', 'norm:TypeError'
            errk = 1
        except ValueError:
            exp, kind = 'None', 'norm:ValueError'
            errk = 2
        except IndexError:
            # (1,N,1)-like stacks squeeze to 1-D and fail later in the prologue: not a C16 input class
            continue
        ek = 0 if exp != 'None' else errk
        ctx.case(('norm', two_d, shape, cont, layout, dt, given, tuple(mem)), nontrivial=len(shape) >= 1,
                 kind=f'{kind}:{"1d" if two_d == 0 else "2d" if two_d == 1 else "2d-stack"}')
        g = 'None' if given is None else f'(Some {given})'
        lits.append(f'({two_d}, {g}, {desc_lit(cont, layout, dt, shape, mem)}, {ek}, {exp})')
    ctx.sample({'kind': 'normalise-case', 'literal': lits[5][:300]})
    body = """
Definition flat_vals (a : nd Z) : list Z := map (flat a) (map Z.of_nat (seq 0 (Z.to_nat (prodZ (nd_shape a))))).
Definition errk (r : vres Z) : Z := match r with VOk _ => 0 | VTypeErr => 1 | VValueErr => 2 end.
Definition dt_eqb (a b : dtype) : bool :=
  match a, b with F64, F64 | F32, F32 | F16, F16 | I64, I64 | I32, I32 | I16, I16 | I8, I8 | U8, U8 | BoolT, BoolT => true
  | _, _ => false end.
Definition run_stack (given : option dtype) (d : desc Z) :=
  match check_array_2d_stack_val (as_nd d) with
  | VOk y => Some (out_dtype given (d_dtype d), y) | _ => None end.
Definition ok (c : Z * option dtype * desc Z * Z * option (dtype * list Z * list Z)) : bool :=
  let '(two_d, given, d, ek, exp) := c in
  let chk := if two_d =? 0 then check_array_1d_val (as_nd d)
             else if two_d =? 1 then check_array_2d_val (as_nd d) else check_array_2d_stack_val (as_nd d) in
  let r := if two_d =? 0 then run_1d (fun _ v => v) (fun y => y) given d
           else if two_d =? 1 then run_2d (fun _ v => v) (fun y => y) given d else run_stack given d in
  (errk chk =? ek) &&
  match r, exp with
  | None, None => true
  | Some (t, a), Some (t', s', v') => dt_eqb t t' && zl_eqb (nd_shape a) s' && zl_eqb (flat_vals a) v'
  | _, _ => false
  end.
"""
    bad_any = False
    per = 400
    for k in range(0, len(lits), per):
        sh = lits[k:k + per]
        text = HEADER + body + 'Definition cases : list (Z * option dtype * desc Z * Z * option (dtype * list Z * list Z)) := [\n' + ';\n'.join('  ' + l for l in sh) + '\n].\n'
        text += 'Eval vm_compute in (bad ok cases).\n'
        vals = ctx.coq_eval(f'norm{k // per}', text)
        if vals is None:
            bad_any = True
        elif not is_zero(vals):
            bad_any = True
            ctx.broke(f'correspondence:normalise-shard{k // per}',
                      f'model and the real _register prologue disagree on (dtype, shape, values): {vals[0][:300]}')
    ctx.obligations.append('correspondence:_register-prologue-normalisation')
    if not bad_any:
        ctx.discharged.append('correspondence:_register-prologue-normalisation')
    ctx.note(f'normalisation correspondence: {len(lits)} descriptors ({n_acc} accepted)')


# ====================================================================== B2. per-point arguments at the _setup_* boundary
SETUP_NAMES = ['_setup_whittaker', '_setup_polynomial', '_setup_spline', '_setup_classification']


def corr_setups(ctx):
    """The weight array handed to the method bodies by the REAL _setup_* functions (1-D and 2-D) versus
    `setup_weights` interpreting the translated table entry, on a (container, layout, dtype, shape) grid."""
    from pybaselines import Baseline, Baseline2D
    rng = ctx.rng
    lits = []
    n_acc = n_skip = 0
    variants = [('CArray', 'LC', 'F64'), ('CArray', 'LF', 'F64'), ('CArray', 'L2', 'F64'), ('CList', 'LC', 'F64'),
                ('CTuple', 'LC', 'I64'), ('CArray', 'LF', 'I64'), ('CArray', 'LC', 'F32'), ('CArray', 'L3', 'I32'),
                ('CArray', 'LF', 'F32'), ('CArray', 'LC', 'U8'), ('CList', 'LC', 'I64'), ('CArray', 'L2', 'I8')]
    for two_d in (False, True):
        for k, sname in enumerate(SETUP_NAMES):
            idx = k + (4 if two_d else 0)
            if two_d:
                sizes = [(5, 7), (6, 4), (5, 5)]
            else:
                sizes = [(14,), (21,)]
            for size in sizes:
                if two_d:
                    Mx, Nz = size
                    shapes = [(Mx, Nz)] * 4 + [(Nz, Mx), (Mx, Nz, 1), (Nz,), (Mx * Nz,), (), (1, Mx, Nz), (Mx, 1)]
                else:
                    N = size[0]
                    shapes = [(N,), (N, 1), (1, N)] * 2 + [(N + 1,), (2, N), (N, 2), (), (1, 1, N), (1,)]
                for shape in shapes:
                    combos = variants if ctx.tier == 'thorough' else rng.sample(variants, 4)
                    for cont, layout, dt in combos:
                        if shape == () and cont != 'CArray':
                            continue
                        kk = int(layout[1]) if layout[1:].isdigit() else 1
                        need = int(np.prod([kk * s_ for s_ in shape])) if shape else 1
                        mem = [rng.randint(0, 3) for _ in range(need)]
                        obj = build_variant(cont, layout, dt, shape, mem)
                        svd = two_d and sname == '_setup_whittaker' and rng.random() < 0.5
                        if two_d:
                            fit = Baseline2D(np.linspace(0, 1, size[0]), np.linspace(2, 5, size[1]))
                            y = np.arange(size[0] * size[1], dtype=float).reshape(size)
                        else:
                            fit = Baseline(np.linspace(0, 1, size[0]))
                            y = np.arange(size[0], dtype=float)
                        kw = {'weights': obj}
                        if two_d and sname == '_setup_whittaker':
                            kw['num_eigens'] = (3, 3) if svd else None
                        try:
                            with warnings.catch_warnings():
                                warnings.simplefilter('ignore')
                                w = getattr(fit, sname)(y, **kw)[1]
                            w = np.asarray(w)
                            exp_dt = {'float64': 0, 'bool': 1}.get(w.dtype.name, 2)
                            vals = [int(v) for v in w.flatten(order='C')]
                            exp = f'(Some ({exp_dt}, {zlist(w.shape)}, {zlist(vals)}))'
                            ek = 0
                            n_acc += 1
                        except TypeError:
                            exp, ek = 'None', 1
                        except ValueError:
                            exp, ek = 'None', 2
                        except Exception:  # noqa  (e.g. an accepted but unusable shape fails further down the setup)
                            n_skip += 1
                            continue
                        ctx.case(('setup', two_d, sname, size, shape, cont, layout, dt, tuple(mem), svd), nontrivial=len(shape) >= 1,
                                 kind=f'setup:{"2d" if two_d else "1d"}:{sname}:{"ok" if ek == 0 else "err"}')
                        lits.append(f'({idx}%nat, {zlist(size)}, {coqbool(svd)}, {desc_lit(cont, layout, dt, shape, mem)}, {ek}, {exp})')
    ctx.sample({'kind': 'setup-weights-case', 'literal': lits[len(lits) // 2][:300]})
    names = '[' + '; '.join(f'({coqbool(i >= 4)}, {cstr(n)})' for i, n in enumerate(SETUP_NAMES * 2)) + ']'
    body = """
Definition flat_vals (a : nd Z) : list Z := map (flat a) (map Z.of_nat (seq 0 (Z.to_nat (prodZ (nd_shape a))))).
Definition errk (r : vres Z) : Z := match r with VOk _ => 0 | VTypeErr => 1 | VValueErr => 2 end.
Definition dtk (t : wdtype) : Z := match t with WFloat => 0 | WBool => 1 | _ => 2 end.
Definition expected_setups : list (bool * string) := %s.
Definition ok (c : nat * list Z * bool * desc Z * Z * option (Z * list Z * list Z)) : bool :=
  let '(i, size, svd, d, ek, exp) := c in
  match nth_error setups i with
  | None => false
  | Some e =>
    let r := setup_weights e size svd (as_nd d) in
    (errk r =? ek) &&
    match r, exp with
    | VOk a, Some (t, s', v') => (dtk (su_dtype e) =? t) && zl_eqb (nd_shape a) s' && zl_eqb (flat_vals a) v'
    | VOk _, None => false
    | _, None => true
    | _, _ => false
    end
  end.
""" % names
    bad_any = False
    per = 400
    for k in range(0, len(lits), per):
        sh = lits[k:k + per]
        text = HEADER + body + ('Definition cases : list (nat * list Z * bool * desc Z * Z * option (Z * list Z * list Z)) := [\n'
                                + ';\n'.join('  ' + l for l in sh) + '\n].\n')
        text += 'Eval vm_compute in (bad ok cases).\n'
        if k == 0:
            text += ('Eval vm_compute in (if forallb (fun p => Bool.eqb (su_two_d (fst p)) (fst (snd p)) && '
                     'String.eqb (su_name (fst p)) (snd (snd p))) (combine setups expected_setups) '
                     '&& Nat.eqb (length setups) 8 then 0%nat else 1%nat, @nil nat).\n')
        vals = ctx.coq_eval(f'setup{k // per}', text)
        if vals is None:
            bad_any = True
        elif not is_zero(vals) or (k == 0 and (len(vals) < 2 or not is_zero(vals[1:2]))):
            bad_any = True
            ctx.broke(f'correspondence:setup-weights-shard{k // per}',
                      'the weight array returned by the real _setup_* functions differs from the model interpreting the '
                      f'translated table (dtype, shape, row-major values): {[v[:200] for v in vals[:2]]}')
    ctx.obligations.append('correspondence:_setup_*-weights')
    if not bad_any:
        ctx.discharged.append('correspondence:_setup_*-weights')
    ctx.note(f'per-point correspondence: {len(lits)} weight descriptors through the 8 _setup_* functions ({n_acc} accepted, '
             f'{n_skip} skipped because the setup failed after the validation); the re-ordering by _sort_order (C02) and '
             'alpha of aspls (validated in the method, dtype kept) are not in this model')



def nox_data_kinds(N, two_d=False):
    """data of every dtype / container / shape class used elsewhere, holding small integers."""
    if two_d:
        Mx, Nz = N
        base = (np.arange(Mx * Nz).reshape(Mx, Nz) * 7 % 11).astype(float)
    else:
        base = (np.arange(N) * 7 % 11).astype(float)
    out = [('float64', base)]
    for nm, dt in (('float32', np.float32), ('float16', np.float16), ('int64', np.int64), ('int32', np.int32),
                   ('int16', np.int16), ('int8', np.int8), ('uint8', np.uint8), ('bool', np.bool_)):
        out.append((nm, base.astype(dt)))
    out.append(('int-list', base.astype(int).tolist()))
    out.append(('float-list', base.tolist()))
    if two_d:
        out += [('int32-MN1', base.astype(np.int32)[:, :, None]), ('float32-1MN', base.astype(np.float32)[None]),
                ('int64-F', np.asfortranarray(base.astype(np.int64)))]
    else:
        out += [('int-tuple', tuple(base.astype(int).tolist())), ('int32-col', base.astype(np.int32)[:, None]),
                ('float32-row', base.astype(np.float32)[None, :]), ('int64-strided', strided(base.astype(np.int64)))]
    return out


def exact_linspace(xv, N):
    xv = np.asarray(xv)
    return xv.dtype == np.float64 and xv.shape == (N,) and bool(np.array_equal(xv, np.linspace(-1, 1, N)))


def corr_no_x_2d(ctx):
    """_yxz_arrays / _Algorithm2D._register: created x and z for omitted x_data / z_data.  Returns all-exact."""
    from pybaselines import Baseline2D
    ok = True
    for Mx, Nz in ((5, 7), (6, 4), (9, 9), (3, 12)):
        xl, zl_ = np.linspace(-1, 1, Mx), np.linspace(-1, 1, Nz)
        for tag, obj in nox_data_kinds((Mx, Nz), True):
            for which, xo, zo in (('no-x-no-z', None, None), ('no-x', None, zl_), ('no-z', xl, None)):
                fk = Baseline2D(xo, zo)
                _, e = quiet(lambda: fk.noise_median(obj, half_window=1))
                if e is not None:
                    continue
                ctx.case(('nox-created-xz', Mx, Nz, tag, which), nontrivial=True, kind=f'nox-created-xz:{tag}')
                if not (exact_linspace(fk.x, Mx) and exact_linspace(fk.z, Nz)):
                    ok = False
                    ctx.fail(f'no_x:created-xz:data={tag}',
                             f'Baseline2D({which}).noise_median(data of kind {tag}, shape {(Mx, Nz)}) has x dtype '
                             f'{np.asarray(fk.x).dtype} / z dtype {np.asarray(fk.z).dtype} or values different from float64 '
                             'np.linspace(-1, 1, len)', {'kind': 'nox-created-x', 'N': [Mx, Nz], 'tag': tag, 'two_d': True, 'which': which})
    return ok


def corr_no_x_helpers(ctx):
    """_validation._yx_arrays / _yxz_arrays called directly (the class prologues and utils use them)."""
    from pybaselines import _validation as V
    ok = True
    for N in (2, 3, 8, 31):
        for tag, obj in nox_data_kinds(N):
            r, e = quiet(lambda: V._yx_arrays(obj))
            if e is not None:
                continue
            ctx.case(('yx_arrays', N, tag), nontrivial=True, kind=f'nox-helper:{tag}')
            if not exact_linspace(r[1], N):
                ok = False
                ctx.fail(f'no_x:_yx_arrays:data={tag}', f'_yx_arrays(data of kind {tag}, N={N}) returns x of dtype '
                         f'{np.asarray(r[1]).dtype}, not float64 np.linspace(-1, 1, N)',
                         {'kind': 'nox-helper', 'N': N, 'tag': tag, 'two_d': False})
    for Mx, Nz in ((4, 6), (7, 3)):
        for tag, obj in nox_data_kinds((Mx, Nz), True):
            for which, xo, zo in (('no-x-no-z', None, None), ('no-x', None, np.linspace(-1, 1, Nz)),
                                  ('no-z', np.linspace(-1, 1, Mx), None)):
                r, e = quiet(lambda: V._yxz_arrays(obj, xo, zo))
                if e is not None:
                    continue
                ctx.case(('yxz_arrays', Mx, Nz, tag, which), nontrivial=True, kind=f'nox-helper2d:{tag}')
                if not (exact_linspace(r[1], Mx) and exact_linspace(r[2], Nz)):
                    ok = False
                    ctx.fail(f'no_x:_yxz_arrays:data={tag}', f'_yxz_arrays(data of kind {tag}, shape {(Mx, Nz)}, {which}) returns x/z '
                             f'of dtype {np.asarray(r[1]).dtype}/{np.asarray(r[2]).dtype}, not float64 np.linspace(-1, 1, len)',
                             {'kind': 'nox-helper', 'N': [Mx, Nz], 'tag': tag, 'two_d': True, 'which': which})
    return ok


def corr_no_x(ctx):
    from pybaselines import Baseline
    lits = []
    ok2d = corr_no_x_2d(ctx)
    ok2d = corr_no_x_helpers(ctx) and ok2d
    for N in list(range(1, ctx.n(24, 80))) + [101, 256]:
        y = np.arange(N, dtype=float)
        f0 = Baseline()
        f1 = Baseline(np.linspace(-1, 1, N))
        with warnings.catch_warnings():
            warnings.simplefilter('ignore')
            f0.noise_median(y, half_window=1)
            f1.noise_median(y, half_window=1)
        for f in (f0, f1):
            dom = [float(v) for v in f.x_domain]
            if any(v != int(v) for v in dom):
                ctx.fail('no_x:x_domain-not-integer', f'x_domain {dom}', {'kind': 'nox-state', 'N': N})
        uniq = not bool(np.any(f1.x[1:] == f1.x[:-1]))
        same_x = bool(np.array_equal(f0.x, f1.x)) and f0.x.dtype == np.float64
        # the x created for an omitted x_data must be float64 linspace(-1, 1, N) whatever the data's dtype/container
        for tag, obj in nox_data_kinds(N):
            fk = Baseline()
            _, e = quiet(lambda: fk.noise_median(obj, half_window=1))
            if e is not None:
                continue
            ctx.case(('nox-created-x', N, tag), nontrivial=N >= 2, kind=f'nox-created-x:{tag}')
            if not exact_linspace(fk.x, N):
                same_x = False
                ctx.fail(f'no_x:created-x:data={tag}',
                         f'Baseline().noise_median(data of kind {tag}, N={N}) created x of dtype {np.asarray(fk.x).dtype} '
                         f'= {np.asarray(fk.x)[:4]}... instead of float64 np.linspace(-1, 1, N)',
                         {'kind': 'nox-created-x', 'N': N, 'tag': tag, 'two_d': False})
        ctx.case(('nox-state', N), nontrivial=N >= 2, kind='nox-state')
        lits.append(f'({N - 1}%nat, {zl(f0._size)}, {zl(int(f0.x_domain[0]))}, {zl(int(f0.x_domain[1]))}, '
                    f'{coqbool(f0._sort_order is None)}, '
                    f'{zl(f1._size)}, {zl(int(f1.x_domain[0]))}, {zl(int(f1.x_domain[1]))}, '
                    f'{coqbool(f1._sort_order is None)}, {coqbool(uniq)}, {coqbool(same_x)})')
    body = """
Definition ok (c : nat * Z * Z * Z * bool * Z * Z * Z * bool * bool * bool) : bool :=
  let '(n, s0, lo0, hi0, so0, s1, lo1, hi1, so1, un1, samex) := c in
  let a := match n with O => state_no_x_one | _ => state_no_x n end in
  let b := match n with O => state_with_x 0 [-1] 1 | _ => state_with_x n (lin_nums n) (Z.of_nat n) end in
  (f_size a =? s0) && (fst (f_dom a) =? lo0 * f_den a) && (snd (f_dom a) =? hi0 * f_den a)
  && Bool.eqb (f_sort_none a) so0
  && (f_size b =? s1) && (fst (f_dom b) =? lo1 * f_den b) && (snd (f_dom b) =? hi1 * f_den b)
  && Bool.eqb (f_sort_none b) so1 && Bool.eqb (f_unique_ok b) un1 && samex.
"""
    text = HEADER + body + 'Definition cases : list (nat * Z * Z * Z * bool * Z * Z * Z * bool * bool * bool) := [\n' + ';\n'.join('  ' + l for l in lits) + '\n].\n'
    text += 'Eval vm_compute in (bad ok cases).\n'
    vals = ctx.coq_eval('nox', text)
    ctx.obligations.append('correspondence:no-x-state')
    if not ok2d:
        ctx.broke('correspondence:no-x-state', 'the x / z created by the 2-D prologue or by _yx_arrays/_yxz_arrays is not float64 linspace(-1, 1, len)')
    if vals is not None:
        if is_zero(vals) and ok2d:
            ctx.discharged.append('correspondence:no-x-state')
        elif is_zero(vals):
            pass
        else:
            ctx.broke('correspondence:no-x-state', f'fitter state after the prologue differs from the model: {vals[0][:300]}')


# ====================================================================== direct oracle
def same(a, b):
    a, b = np.asarray(a), np.asarray(b)
    return a.shape == b.shape and a.dtype == b.dtype and bool(np.array_equal(a, b, equal_nan=a.dtype.kind == 'f'))


def params_same(p, q):
    if set(p) != set(q):
        return False
    for k in p:
        if k == 'tol_history':
            # norms / sums of the convergence measure: NumPy's reduction order depends on the memory layout and
            # dtype of its operands, so the last bits are not a function of the numbers alone (DESIGN section 0)
            continue
        a, b = p[k], q[k]
        try:
            if isinstance(a, dict) or isinstance(b, dict):
                continue
            a, b = np.asarray(a), np.asarray(b)
            if a.dtype == object or b.dtype == object:
                continue
            if a.shape != b.shape or not np.array_equal(a, b, equal_nan=a.dtype.kind == 'f'):
                return False
        except Exception:  # noqa
            continue
    return True


def cast_like(base, dtype):
    with warnings.catch_warnings():
        warnings.simplefilter('ignore')
        return np.asarray(base, dtype=dtype)


def quiet(fn):
    with warnings.catch_warnings():
        warnings.simplefilter('ignore')
        try:
            return fn(), None
        except Exception as exc:  # noqa
            return None, exc


def strided(a):
    """A non-contiguous view holding the same numbers."""
    a = np.asarray(a)
    if a.ndim == 1:
        big = np.empty(a.size * 2, dtype=a.dtype)
        big[::2] = a
        big[1::2] = -12345
        return big[::2]
    big = np.full(tuple(2 * s for s in a.shape), -12345, dtype=a.dtype)
    v = big[tuple(slice(None, None, 2) for _ in a.shape)]
    v[...] = a
    return v


def neg_stride(a):
    """A view with negative strides along every axis holding the same numbers."""
    a = np.asarray(a)
    rev = tuple(slice(None, None, -1) for _ in a.shape)
    return np.ascontiguousarray(a[rev])[rev]


def data_variants_1d(y, stack=False):
    """(tag, object, float64 array the computation must be identical to, expected output dtype)"""
    yi = np.round(y)
    out = [('list', y.tolist(), y, np.float64), ('tuple', tuple(y.tolist()) if not stack else tuple(map(tuple, y.tolist())), y, np.float64),
           ('strided', strided(y), y, np.float64),
           ('float32', y.astype(np.float32), y.astype(np.float32).astype(np.float64), np.float32),
           ('int64', yi.astype(np.int64), yi, np.int64),
           ('int-list', [int(v) for v in yi] if not stack else [[int(v) for v in r] for r in yi], yi, np.int64)]
    if not stack:
        out += [('col', y[:, None], y, np.float64), ('row', y[None, :], y, np.float64),
                ('col-F', np.asfortranarray(y[:, None]), y, np.float64)]
    else:
        out += [('F-order', np.asfortranarray(y), y, np.float64)]
    out += [('neg-stride', neg_stride(y), y, np.float64)]
    return out


def x_variants(x):
    return [('x-list', x.tolist(), x), ('x-tuple', tuple(x.tolist()), x), ('x-col', x[:, None], x),
            ('x-row', x[None, :], x), ('x-strided', strided(x), x),
            ('x-float32', x.astype(np.float32), x.astype(np.float32).astype(np.float64)),
            ('x-neg-stride', neg_stride(x), x)]


def arr_variants(w):
    wi = np.round(w * 4)
    return [('list', w.tolist(), w), ('col', w[:, None], w), ('row', w[None, :], w), ('strided', strided(w), w),
            ('float32', w.astype(np.float32), w.astype(np.float32).astype(np.float64)),
            ('int', wi.astype(np.int64), wi), ('neg-stride', neg_stride(w), w)]


def setup_1d(name, x, y):
    """(data, kwargs) of the canonical call."""
    kw = M.call_kwargs(name)
    data = y
    if name == 'interp_pts':
        kw = {'baseline_points': np.array([[x[0], y[0]], [x[len(x) // 2], y[len(x) // 2]], [x[-1], y[-1]]])}
    if name == 'collab_pls':
        data = np.vstack([y, y * 1.1 + 1])
    return data, kw


LAYOUT_2D = {'data=F-order', 'data=transposed-view', 'data=MN1-F', 'data=strided', 'data=neg-stride', 'weights=F-order',
             'weights=strided', 'weights=neg-stride'}
LOOSE_TOL = 1e-6


class Oracle:
    def __init__(self, ctx, budget):
        self.max_dev = 0.0
        self.ctx = ctx
        self.budget = budget
        self.n_cmp = 0
        self.skipped = {}

    def check(self, dim, name, tag, got, exc, want_b, want_p, case, expect_dtype=None):
        ctx = self.ctx
        self.n_cmp += 1
        key = f'{dim}:{name}:{tag}'
        grouped = tag in ('weights=float32', 'alpha=float32')
        if grouped:
            # one input class, one key: a per-point argument given as float32 (same numbers as the float64 call)
            key = f'{dim}:{tag}:kept-in-float32'
        ctx.case((dim, name, tag, case.get('N'), case.get('seedk')), nontrivial=True, kind=f'oracle:{dim}:{tag.split("=")[0]}')
        if exc is not None:
            ctx.fail(key, f'{dim} {name}: the {tag} variant raised {type(exc).__name__}: {str(exc)[:120]} while the canonical call returns',
                     case)
            return False
        b, p = got
        wb = want_b if expect_dtype is None else cast_like(want_b, expect_dtype)
        if dim == '2d' and tag in LAYOUT_2D:
            # the method body computes on the caller's memory layout (np.asarray(y, dtype=float) keeps it), and NumPy's
            # reduction order depends on the layout: same numbers, same algorithm, last bits may differ.  This
            # comparison is therefore a test with a fixed bound far above rounding and far below any mix-up of
            # rows/columns (which changes the baseline by O(data)).
            bb, ww = np.asarray(b), np.asarray(wb)
            if bb.shape == ww.shape and bb.dtype == ww.dtype:
                scale = max(1.0, float(np.nanmax(np.abs(ww))) if ww.size else 1.0)
                dev = float(np.nanmax(np.abs(bb - ww))) / scale if ww.size else 0.0
                if np.array_equal(np.isnan(bb), np.isnan(ww)) and (dev <= LOOSE_TOL or dev != dev):
                    self.max_dev = max(self.max_dev, 0.0 if dev != dev else dev)
                    return True
        if not same(b, wb):
            bb, ww = np.asarray(b), np.asarray(wb)
            if bb.shape != ww.shape or bb.dtype != ww.dtype:
                what = f'shape/dtype {bb.shape}/{bb.dtype} versus {ww.shape}/{ww.dtype}'
            else:
                with warnings.catch_warnings():
                    warnings.simplefilter('ignore')
                    what = f'max abs difference {float(np.nanmax(np.abs(bb.astype(float) - ww.astype(float)))):.3g}'
            ctx.fail(key, f'{dim} {name}: baseline of the {tag} variant differs from the canonical call ({what})', case)
            return False
        if want_p is not None and not params_same(p, want_p):
            ctx.fail(key if grouped else key + ':params',
                     f'{dim} {name}: params of the {tag} variant differ from the canonical call', case)
            return False
        return True

    # ---------------------------------------------------------------- 1-D
    def run_1d(self, name, N, seedk):
        from pybaselines import Baseline
        import pybaselines
        ctx = self.ctx
        nrng = np.random.default_rng([ctx.seed, seedk, N])
        x = np.linspace(-3.0, 12.0, N) + 0.0
        y = M.make_y(nrng, x, 'noise')
        data, kw = setup_1d(name, x, y)
        stack = name == 'collab_pls'
        case0 = {'kind': 'oracle', 'dim': '1d', 'method': name, 'N': N, 'seedk': seedk}

        def call(xv, dv, out_dtype=None, kws=None, lookup=None):
            f = Baseline(xv, output_dtype=out_dtype)
            meth = getattr(f, name) if lookup is None else f._get_method(lookup)
            return meth(dv, **(kw if kws is None else kws))

        base, exc = quiet(lambda: call(x, data))
        if exc is not None:
            self.skipped[name] = type(exc).__name__
            return
        bb, bp = base
        full = self.budget > 1
        rng = ctx.rng
        # data variants
        dvs = data_variants_1d(data, stack)
        for tag, obj, ref, odt in (dvs if full else dvs[:3] + dvs[-1:] + rng.sample(dvs[3:-1], 3)):
            if ref is data:
                wb, wp = bb, bp
            else:
                r, e = quiet(lambda: call(x, ref))
                if e is not None:
                    continue
                wb, wp = r
            got, e = quiet(lambda: call(x, obj))
            self.check('1d', name, f'data={tag}', got, e, wb, wp, dict(case0, variant=f'data={tag}'), expect_dtype=odt)
        # extreme but legal magnitudes: the container must not matter there either
        for sc in (1e-150, 1e150):
            big = data * sc
            r, e = quiet(lambda: call(x, big))
            if e is not None or not np.all(np.isfinite(r[0])):
                continue
            for tag, obj in (('list', big.tolist()), ('neg-stride', neg_stride(big))) + ((('col', big[:, None]),) if not stack else ()):
                got, e = quiet(lambda: call(x, obj))
                self.check('1d', name, f'data*{sc:g}={tag}', got, e, r[0], r[1], dict(case0, variant=f'data*{sc:g}={tag}'))
        # x variants
        xvs = x_variants(x)
        for tag, obj, ref in (xvs if full else xvs[-1:] + rng.sample(xvs[:-1], 3)):
            if ref is x:
                wb, wp = bb, bp
            else:
                r, e = quiet(lambda: call(ref, data))
                if e is not None:
                    continue
                wb, wp = r
            got, e = quiet(lambda: call(obj, data))
            self.check('1d', name, tag, got, e, wb, wp, dict(case0, variant=tag))
        # output_dtype
        for odt in ((np.float32, np.float64) if full else (np.float32,)):
            got, e = quiet(lambda: call(x, data, out_dtype=odt))
            self.check('1d', name, f'output_dtype={np.dtype(odt).name}', got, e, bb, None,
                       dict(case0, variant=f'output_dtype={np.dtype(odt).name}'), expect_dtype=odt)
        # no x versus linspace(-1, 1, N)
        if name != 'interp_pts':
            xl = np.linspace(-1, 1, N)
            r, e = quiet(lambda: call(xl, data))
            if e is None:
                got, e2 = quiet(lambda: call(None, data))
                self.check('1d', name, 'no-x', got, e2, r[0], r[1], dict(case0, variant='no-x'))
            # crossed: no x with every dtype / container / shape class of the data (always one float32 or integer class)
            by_tag = {t: (o, rf, od) for t, o, rf, od in dvs}
            pick = list(by_tag) if full else [['float32', 'int64', 'int-list'][(seedk + len(name)) % 3]] + rng.sample(
                [t for t in by_tag if t not in ('float32', 'int64', 'int-list')], 1) + rng.sample(['float32', 'int64'], 1)
            for t in dict.fromkeys(pick):
                obj, ref, odt = by_tag[t]
                r2, e = quiet(lambda: call(xl, ref))
                if e is not None:
                    continue
                got, e2 = quiet(lambda: call(None, obj))
                self.check('1d', name, f'no-x*data={t}', got, e2, r2[0], r2[1], dict(case0, variant=f'no-x*data={t}'),
                           expect_dtype=odt)
        # crossed: an x variant with a data variant
        for _ in range(len(xvs) if full else 1):
            xt, xo, xr = rng.choice(xvs)
            t, obj, ref, odt = rng.choice(dvs)
            r2, e = quiet(lambda: call(xr, ref))
            if e is None:
                got, e2 = quiet(lambda: call(xo, obj))
                self.check('1d', name, f'{xt}*data={t}', got, e2, r2[0], r2[1], dict(case0, variant=f'{xt}*data={t}'),
                           expect_dtype=odt)
        # lookup by name in mixed case
        mixed = ''.join(c.upper() if i % 2 == 0 else c for i, c in enumerate(name))
        got, e = quiet(lambda: call(x, data, lookup=mixed))
        self.check('1d', name, 'lookup-mixed-case', got, e, bb, bp, dict(case0, variant='lookup-mixed-case', lookup=mixed))
        # optimizers: inner method given in mixed case
        if 'method' in kw or name in ('collab_pls', 'optimize_extended_range', 'adaptive_minmax', 'custom_bc'):
            sig = inspect.signature(getattr(Baseline, name))
            if 'method' in sig.parameters:
                inner = kw.get('method', sig.parameters['method'].default)
                kw2 = dict(kw, method=inner.upper())
                r, e = quiet(lambda: call(x, data, kws=dict(kw, method=inner)))
                if e is None:
                    got, e2 = quiet(lambda: call(x, data, kws=kw2))
                    self.check('1d', name, 'inner-method-upper-case', got, e2, r[0], r[1],
                               dict(case0, variant='inner-method-upper-case'))
        # per-point arguments
        sigp = inspect.signature(getattr(Baseline, name)).parameters
        for par in ('weights', 'alpha'):
            if par not in sigp or (par == 'alpha' and name not in ('aspls', 'pspline_aspls')) or stack:
                continue
            w = np.round(0.25 + 0.75 * nrng.random(N), 3)
            r0, e0 = quiet(lambda: call(x, data, kws=dict(kw, **{par: w})))
            if e0 is not None:
                continue
            avs = arr_variants(w)
            for tag, obj, ref in (avs if full else [avs[4], avs[-1]] + rng.sample(avs[:4] + avs[5:-1], 2)):
                if ref is w:
                    wb, wp = r0
                else:
                    r, e = quiet(lambda: call(x, data, kws=dict(kw, **{par: ref})))
                    if e is not None:
                        continue
                    wb, wp = r
                got, e = quiet(lambda: call(x, data, kws=dict(kw, **{par: obj})))
                self.check('1d', name, f'{par}={tag}', got, e, wb, wp, dict(case0, variant=f'{par}={tag}'))
        # module-level function versus method
        func = None
        for m in MODS:
            mod = getattr(pybaselines, m)
            if hasattr(mod, name) and hasattr(getattr(mod, name), '__wrapped__'):
                func = getattr(mod, name)
        if func is None:
            ctx.fail(f'1d:{name}:no-function', f'no module-level function {name}', case0)
            return
        fpar = [p for p in inspect.signature(func).parameters.values() if p.kind == p.POSITIONAL_OR_KEYWORD]
        allv = dict(kw, data=data, x_data=x)
        got, e = quiet(lambda: func(**allv))
        self.check('1d', name, 'function-all-keywords', got, e, bb, bp, dict(case0, variant='function-all-keywords'))
        pos = []
        for p in fpar:
            if p.name in allv:
                pos.append(allv[p.name])
            else:
                break
        rest = {k: v for k, v in allv.items() if k not in [p.name for p in fpar[:len(pos)]]}
        got, e = quiet(lambda: func(*pos, **rest))
        self.check('1d', name, 'function-max-positional', got, e, bb, bp,
                   dict(case0, variant='function-max-positional', npos=len(pos)))
        if len(pos) > 1:
            k = rng.randint(1, len(pos) - 1)
            rest = {kk: v for kk, v in allv.items() if kk not in [p.name for p in fpar[:k]]}
            got, e = quiet(lambda: func(*pos[:k], **rest))
            self.check('1d', name, 'function-mixed', got, e, bb, bp, dict(case0, variant='function-mixed', npos=k))
        # crossed: module-level function, x_data omitted, data of another dtype / container
        if name != 'interp_pts':
            t, obj, ref, odt = rng.choice([d for d in dvs if d[0] in ('float32', 'int64', 'int-list', 'list', 'col', 'row')]
                                          or dvs)
            r2, e = quiet(lambda: call(np.linspace(-1, 1, N), ref))
            if e is None:
                got, e2 = quiet(lambda: func(obj, **kw))
                self.check('1d', name, f'function-no-x*data={t}', got, e2, r2[0], r2[1],
                           dict(case0, variant=f'function-no-x*data={t}'), expect_dtype=odt)
        # defaults: function and method called with their own defaults
        if name not in ('interp_pts',):
            r, e = quiet(lambda: getattr(Baseline(x), name)(data))
            if e is None:
                got, e2 = quiet(lambda: func(data, x_data=x))
                self.check('1d', name, 'function-defaults', got, e2, r[0], r[1], dict(case0, variant='function-defaults'))

    # ---------------------------------------------------------------- 2-D
    def run_2d(self, name, Mx, Nz, seedk):
        from pybaselines import Baseline2D
        ctx = self.ctx
        nrng = np.random.default_rng([ctx.seed, seedk, Mx, Nz])
        x, z, y = M.make_z2d(nrng, Mx, Nz)
        kw = M.call_kwargs(name, True)
        stack = name == 'collab_pls'
        data = np.array([y, y * 1.1 + 1]) if stack else y
        case0 = {'kind': 'oracle', 'dim': '2d', 'method': name, 'N': [Mx, Nz], 'seedk': seedk}

        def call(xv, zv, dv, out_dtype=None, lookup=None, kws=None):
            f = Baseline2D(xv, zv, output_dtype=out_dtype)
            meth = getattr(f, name) if lookup is None else f._get_method(lookup)
            return meth(dv, **(kw if kws is None else kws))

        base, exc = quiet(lambda: call(x, z, data))
        if exc is not None:
            self.skipped['2d:' + name] = type(exc).__name__
            return
        bb, bp = base
        full = self.budget > 1
        rng = ctx.rng
        yi = np.round(data)
        dvs = [('list', data.tolist(), data, np.float64), ('F-order', np.asfortranarray(data), data, np.float64),
               ('strided', strided(data), data, np.float64), ('neg-stride', neg_stride(data), data, np.float64), ('transposed-view', np.ascontiguousarray(data.swapaxes(-1, -2)).swapaxes(-1, -2), data, np.float64),
               ('float32', data.astype(np.float32), data.astype(np.float32).astype(np.float64), np.float32),
               ('int64', yi.astype(np.int64), yi, np.int64)]
        if not stack:
            dvs += [('MN1', data[:, :, None], data, np.float64), ('1MN', data[None, :, :], data, np.float64),
                    ('M1N', data[:, None, :], data, np.float64),
                    ('MN1-F', np.asfortranarray(data[:, :, None]), data, np.float64)]
        for tag, obj, ref, odt in (dvs if full else dvs[:2] + dvs[3:4] + rng.sample(dvs[2:3] + dvs[4:], 4)):
            if ref is data:
                wb, wp = bb, bp
            else:
                r, e = quiet(lambda: call(x, z, ref))
                if e is not None:
                    continue
                wb, wp = r
            got, e = quiet(lambda: call(x, z, obj))
            self.check('2d', name, f'data={tag}', got, e, wb, wp, dict(case0, variant=f'data={tag}'), expect_dtype=odt)
        xz = [('x-list,z-tuple', x.tolist(), tuple(z.tolist())), ('x-col,z-row', x[:, None], z[None, :]),
              ('x-strided,z-strided', strided(x), strided(z))]
        for tag, xo, zo in (xz if full else rng.sample(xz, 2)):
            got, e = quiet(lambda: call(xo, zo, data))
            self.check('2d', name, tag, got, e, bb, bp, dict(case0, variant=tag))
        got, e = quiet(lambda: call(x, z, data, out_dtype=np.float32))
        self.check('2d', name, 'output_dtype=float32', got, e, bb, None, dict(case0, variant='output_dtype=float32'),
                   expect_dtype=np.float32)
        xl, zl_ = np.linspace(-1, 1, Mx), np.linspace(-1, 1, Nz)
        r, e = quiet(lambda: call(xl, zl_, data))
        if e is None:
            for tag, xo, zo in (('no-x-no-z', None, None), ('no-x', None, zl_), ('no-z', xl, None)):
                got, e2 = quiet(lambda: call(xo, zo, data))
                self.check('2d', name, tag, got, e2, r[0], r[1], dict(case0, variant=tag))
        strict = [d for d in dvs if f'data={d[0]}' not in LAYOUT_2D]
        by_tag = {d[0]: d for d in strict}
        pick = list(by_tag) if full else [['float32', 'int64'][(seedk + len(name)) % 2]] + rng.sample(
            [t for t in by_tag if t not in ('float32', 'int64')], 1)
        for t in pick:
            _, obj, ref, odt = by_tag[t]
            which, xo, zo = (('no-x-no-z', None, None), ('no-x', None, zl_), ('no-z', xl, None))[rng.randrange(3) if not full else 0]
            r2, e = quiet(lambda: call(xl, zl_, ref))
            if e is None:
                got, e2 = quiet(lambda: call(xo, zo, obj))
                self.check('2d', name, f'{which}*data={t}', got, e2, r2[0], r2[1], dict(case0, variant=f'{which}*data={t}'),
                           expect_dtype=odt)
        mixed = ''.join(c.upper() if i % 2 == 1 else c for i, c in enumerate(name))
        got, e = quiet(lambda: call(x, z, data, lookup=mixed))
        self.check('2d', name, 'lookup-mixed-case', got, e, bb, bp, dict(case0, variant='lookup-mixed-case', lookup=mixed))
        sigp = inspect.signature(getattr(Baseline2D, name)).parameters
        if 'weights' in sigp and not stack:
            w = np.round(0.25 + 0.75 * nrng.random((Mx, Nz)), 3)
            r0, e0 = quiet(lambda: call(x, z, data, kws=dict(kw, weights=w)))
            if e0 is None:
                for tag, obj in (('list', w.tolist()), ('F-order', np.asfortranarray(w)), ('strided', strided(w)), ('neg-stride', neg_stride(w))):
                    got, e = quiet(lambda: call(x, z, data, kws=dict(kw, weights=obj)))
                    self.check('2d', name, f'weights={tag}', got, e, r0[0], r0[1], dict(case0, variant=f'weights={tag}'))
                w32 = w.astype(np.float32)
                r1, e1 = quiet(lambda: call(x, z, data, kws=dict(kw, weights=w32.astype(np.float64))))
                if e1 is None:
                    got, e = quiet(lambda: call(x, z, data, kws=dict(kw, weights=w32)))
                    self.check('2d', name, 'weights=float32', got, e, r1[0], r1[1], dict(case0, variant='weights=float32'))


# ---------------------------------------------------------------- functional interface called repeatedly
REPEAT_METHODS = ['poly', 'modpoly', 'imodpoly', 'penalized_poly', 'quant_reg', 'loess', 'pspline_asls', 'pspline_arpls',
                  'pspline_airpls', 'mixture_model', 'irsqr', 'dietrich', 'interp_pts', 'asls', 'goldindec', 'fastchrom',
                  'cwt_br', 'std_distribution', 'rubberband', 'corner_cutting', 'optimize_extended_range', 'adaptive_minmax']


def find_func(name):
    import pybaselines
    for m in MODS:
        mod = getattr(pybaselines, m)
        if hasattr(mod, name) and hasattr(getattr(mod, name), '__wrapped__'):
            return getattr(mod, name)
    return None


def x_containers(x0):
    """(tag, container, refill(container, new values)) -- the SAME object is refilled in place between calls."""
    def fill_arr(c, v):
        c[...] = np.asarray(v, dtype=c.dtype).reshape(c.shape)

    def fill_list(c, v):
        c[:] = [float(u) for u in v]
    return [('ndarray', np.array(x0, dtype=float), fill_arr), ('list', [float(u) for u in x0], fill_list),
            ('int64', np.zeros(len(x0), dtype=np.int64), fill_arr), ('col', np.array(x0, dtype=float)[:, None], fill_arr),
            ('strided', strided(np.array(x0, dtype=float)), fill_arr)]


def oracle_repeat(ctx, orc, budget):
    """2-3 consecutive calls of module-level functions with the SAME x (and data) container whose contents change in
    place between the calls; every call is compared with a freshly built fitter on the current values."""
    from pybaselines import Baseline
    rng = ctx.rng
    N = 53
    nrng = np.random.default_rng([ctx.seed, 77])
    grids = [np.linspace(-3.0, 12.0, N), np.linspace(100.0, 400.0, N) ** 1.0, np.sort(nrng.uniform(-50, 50, N)) + np.arange(N) * 1e-3,
             np.linspace(0.0, 1.0, N) ** 2 * 9 + 1]
    int_grids = [np.arange(N) * 2 - 7, np.arange(N) * 5 + 100, np.cumsum(nrng.integers(1, 4, N))]
    names = REPEAT_METHODS if budget > 1 else REPEAT_METHODS[:13] + rng.sample(REPEAT_METHODS[13:], 3)
    for name in names:
        func = find_func(name)
        if func is None:
            continue
        conts = x_containers(grids[0])
        for tag, xbuf, refill in (conts if budget > 1 else [conts[0]] + rng.sample(conts[1:], 2)):
            seq = int_grids if tag == 'int64' else grids
            ybuf = np.zeros(N)
            n_calls = 3
            for step in range(n_calls):
                xv = np.asarray(seq[(step * 2 + len(name)) % len(seq)] if step else seq[0], dtype=float)
                refill(xbuf, xv)                                   # same object, new contents
                y = M.make_y(np.random.default_rng([ctx.seed, step, len(name)]), np.linspace(0, 1, N), 'noise') * (1 + step)
                if step == 1:
                    ybuf[:] = y                                     # the data container is refilled as well
                    dv = ybuf
                else:
                    dv = y
                # alternate the function on the last call: a different function sees the same x object
                fname = name if step < 2 else rng.choice([n for n in ('poly', 'modpoly', 'pspline_asls', 'loess') if n != name])
                f = func if fname == name else find_func(fname)
                data, kw = setup_1d(fname, xv, np.array(dv))
                if fname == 'collab_pls':
                    continue
                case = {'kind': 'oracle-repeat', 'method': name, 'container': tag, 'step': step, 'N': N, 'seedk': 0}
                want, e0 = quiet(lambda: getattr(Baseline(x_data=np.array(xv)), fname)(np.array(data), **kw))
                if e0 is not None:
                    continue
                dd = dv if fname != 'collab_pls' else data
                if step == 1:
                    quiet(lambda: f(data=np.asarray(dd)[:5], x_data=xbuf, **kw))      # a rejected call in the history
                got, e = quiet(lambda: f(data=dd, x_data=xbuf, **kw))
                orc.check('1d', name, f'function-repeated:x={tag}:call{step + 1}', got, e, want[0], want[1], case)



# ---------------------------------------------------------------- method NAME arguments of the optimizers
def deep_same(a, b):
    """bit-for-bit equality of nested params (dicts, lists, arrays), NaN == NaN."""
    if isinstance(a, dict) or isinstance(b, dict):
        return isinstance(a, dict) and isinstance(b, dict) and set(a) == set(b) and all(deep_same(a[k], b[k]) for k in a)
    if isinstance(a, (list, tuple)) or isinstance(b, (list, tuple)):
        if not (isinstance(a, (list, tuple)) and isinstance(b, (list, tuple)) and len(a) == len(b)):
            return False
        return all(deep_same(u, v) for u, v in zip(a, b))
    try:
        aa, bb = np.asarray(a), np.asarray(b)
    except Exception:  # noqa
        return a is b or a == b
    if aa.dtype == object or bb.dtype == object:
        if aa.shape != bb.shape:
            return False
        return all(deep_same(u, v) for u, v in zip(aa.ravel().tolist(), bb.ravel().tolist())) if aa.ndim else (a is b or a == b)
    if aa.shape != bb.shape or aa.dtype != bb.dtype:
        return False
    return bool(np.array_equal(aa, bb, equal_nan=aa.dtype.kind in 'fc'))


def compared_literals():
    """every string literal that an optimizer body compares a name with (same sources as the translator)."""
    import ast as _ast
    from .common import REPO
    import os
    lits = set()
    for rel in ('pybaselines/optimizers.py', 'pybaselines/two_d/optimizers.py'):
        with open(os.path.join(REPO, rel)) as fh:
            tree = _ast.parse(fh.read())
        for n in _ast.walk(tree):
            if isinstance(n, _ast.Compare):
                for o in [n.left] + list(n.comparators):
                    for c in _ast.walk(o):
                        if isinstance(c, _ast.Constant) and isinstance(c.value, str):
                            lits.add(c.value.lower())
    return lits


def spellings(name, rng):
    up = name.upper()
    mixed = ''.join(c.upper() if rng.random() < 0.5 else c for c in name)
    if mixed in (name, up):
        mixed = name[0].upper() + name[1:]
    return [('upper', up), ('mixed', mixed)]


def oracle_method_names(ctx, orc, budget):
    """Optimizers that take a method NAME: every spelling must behave as the lower-case name (baseline and all
    params, nested ones included), through the object and the functional interface."""
    from pybaselines import Baseline, Baseline2D, optimizers as O1
    rng = ctx.rng
    N = 57
    nrng = np.random.default_rng([ctx.seed, 91])
    x = np.linspace(-2.0, 9.0, N)
    y = M.make_y(nrng, x, 'noise')
    x2, z2, y2 = M.make_z2d(nrng, 12, 14)
    # data sets whose entries really differ (another noise realisation, an extra peak, another slope): with affine copies
    # the per-entry and the averaged classifications coincide and a wrong branch in collab_pls is invisible
    t = (x - x[0]) / (x[-1] - x[0])
    ds1 = np.vstack([y, M.make_y(nrng, x, 'noise') * 0.8 + 25 * np.exp(-0.5 * ((t - 0.42) / 0.04) ** 2) + 3 * t])
    X2, Z2 = np.meshgrid(np.linspace(0, 1, 12), np.linspace(0, 1, 14), indexing='ij')
    ds2 = np.array([y2, M.make_z2d(nrng, 12, 14)[2] * 0.8 + 9 * np.exp(-0.5 * (((X2 - 0.3) / 0.1) ** 2 + ((Z2 - 0.7) / 0.12) ** 2)) + 2 * X2])
    own = {'collab_pls', 'optimize_extended_range', 'adaptive_minmax', 'custom_bc', 'interp_pts', 'individual_axes'}
    all1 = [n for n in M.method_names(False) if n not in own]
    all2 = [n for n in M.method_names(True) if n not in own]
    lits = compared_literals()
    n_done = 0

    def kw1(inner):
        return dict(M.KW_1D.get(inner) or {})

    def kw2(inner):
        return dict(M.KW_2D.get(inner) or {})

    def strip(d):
        return {k: v for k, v in d.items() if k not in ('lam', 'poly_order')}

    plans = [
        ('1d', 'collab_pls', all1, lambda f, m: f.collab_pls(ds1, method=m, method_kwargs=kw1(m.lower())),
         lambda m: O1.collab_pls(ds1, method=m, method_kwargs=kw1(m.lower()), x_data=x)),
        ('1d', 'collab_pls[average_dataset=False]', all1,
         lambda f, m: f.collab_pls(ds1, average_dataset=False, method=m, method_kwargs=kw1(m.lower())),
         lambda m: O1.collab_pls(ds1, False, method=m, method_kwargs=kw1(m.lower()), x_data=x)),
        ('1d', 'optimize_extended_range', all1,
         lambda f, m: f.optimize_extended_range(y, method=m, min_value=2, max_value=4, method_kwargs=strip(kw1(m.lower()))),
         lambda m: O1.optimize_extended_range(y, x, method=m, min_value=2, max_value=4, method_kwargs=strip(kw1(m.lower())))),
        ('1d', 'adaptive_minmax', ['modpoly', 'imodpoly', 'poly', 'penalized_poly', 'loess', 'quant_reg'],
         lambda f, m: f.adaptive_minmax(y, method=m), lambda m: O1.adaptive_minmax(y, x, method=m)),
        ('1d', 'custom_bc', all1, lambda f, m: f.custom_bc(y, method=m, method_kwargs=kw1(m.lower())),
         lambda m: O1.custom_bc(y, x, method=m, method_kwargs=kw1(m.lower()))),
        ('2d', 'collab_pls', all2, lambda f, m: f.collab_pls(ds2, method=m, method_kwargs=kw2(m.lower())), None),
        ('2d', 'adaptive_minmax', ['modpoly', 'imodpoly', 'poly', 'penalized_poly', 'quant_reg'],
         lambda f, m: f.adaptive_minmax(y2, method=m), None),
        ('2d', 'individual_axes', all1, lambda f, m: f.individual_axes(y2, method=m, method_kwargs=kw1(m.lower())), None),
    ]
    for dim, opt, cands, call_obj, call_fun in plans:
        must = [n for n in cands if n in lits or n in ('loess', 'mpls', 'pspline_mpls')]
        rest = [n for n in cands if n not in must]
        names = cands if budget > 1 else must + rng.sample(rest, min(4, len(rest)))
        for inner in names:
            mk = (lambda: Baseline(x)) if dim == '1d' else (lambda: Baseline2D(x2, z2))
            want, e0 = quiet(lambda: call_obj(mk(), inner))
            if e0 is not None:
                continue
            for tag, sp in spellings(inner, rng):
                routes = [('object', lambda: call_obj(mk(), sp))]
                if call_fun is not None and tag == 'upper':
                    routes.append(('function', lambda: call_fun(sp)))
                for route, fn in routes:
                    got, e = quiet(fn)
                    n_done += 1
                    orc.n_cmp += 1
                    key = f'{dim}:{opt}:method-name-case:{inner}'
                    case = {'kind': 'oracle-method-name', 'dim': dim, 'optimizer': opt, 'inner': inner, 'spelling': sp, 'route': route}
                    ctx.case((dim, opt, inner, tag, route), nontrivial=True, kind=f'oracle:{dim}:method-name-case:{opt}')
                    if e is not None:
                        ctx.fail(key, f'{dim} {opt}(method={sp!r}) via the {route} interface raised {type(e).__name__}: {str(e)[:100]} '
                                 f'while method={inner!r} returns', case)
                    elif not same(got[0], want[0]):
                        dev = float(np.nanmax(np.abs(np.asarray(got[0], dtype=float) - np.asarray(want[0], dtype=float))))
                        ctx.fail(key, f'{dim} {opt}(method={sp!r}) via the {route} interface: baseline differs from method={inner!r} '
                                 f'(max abs difference {dev:.3g})', case)
                    elif not deep_same(got[1], want[1]):
                        ctx.fail(key, f'{dim} {opt}(method={sp!r}) via the {route} interface: params differ from method={inner!r}', case)
    return n_done



def oracle(ctx, budget):
    orc = Oracle(ctx, budget)
    names1 = M.method_names(False)
    names2 = M.method_names(True)
    sizes1 = [61] if budget == 1 else [61, 40, 97]
    sizes2 = [(13, 16)] if budget == 1 else [(13, 16), (16, 12)]
    for k, N in enumerate(sizes1):
        for name in names1:
            orc.run_1d(name, N, k)
    for k, (Mx, Nz) in enumerate(sizes2):
        for name in names2:
            orc.run_2d(name, Mx, Nz, k)
    oracle_repeat(ctx, orc, budget)
    n_names = oracle_method_names(ctx, orc, budget)
    from . import c16_calls
    n_calls = c16_calls.oracle_call_shapes(ctx, orc, budget)
    ctx.note(f'functional interface with several non-default keywords (every prefix of the parameter list, pairs, full set): {n_calls} comparisons')
    from . import c16_arrays
    n_arr = c16_arrays.oracle_array_params(ctx, orc, budget)
    c16_arrays.regressions(ctx, orc)
    ctx.note(f'array-valued keyword grid (weights / alpha / method_kwargs[weights] / sequence-valued parameters x dtype and container): {n_arr} comparisons')
    ctx.note(f'method-name spellings through the optimizers: {n_names} comparisons')
    # the degenerate one-point input: no x versus linspace(-1, 1, 1)
    from pybaselines import Baseline
    y1 = np.array([5.0])
    for name, kw in (('poly', {'poly_order': 0}), ('modpoly', {'poly_order': 0}), ('noise_median', {'half_window': 1})):
        r0, e0 = quiet(lambda: getattr(Baseline(), name)(y1, **kw))
        r1, e1 = quiet(lambda: getattr(Baseline(np.linspace(-1, 1, 1)), name)(y1, **kw))
        ctx.case(('nox-one', name), nontrivial=True, kind='oracle:1d:no-x-one-point')
        if e0 is None and (e1 is not None or not same(r0[0], r1[0])):
            ctx.fail('no_x:N=1:x_domain',
                     f'Baseline().{name}([5.]) returns {r0[0]} but Baseline(np.linspace(-1, 1, 1)).{name}([5.]) '
                     f'{"raises " + type(e1).__name__ if e1 is not None else "returns " + str(r1[0])}',
                     {'kind': 'nox-one', 'method': name, 'kw': kw})
    ctx.known_replayed = {'no_x:N=1:x_domain'}
    ctx.extra['max_relative_deviation_2d_layout_variants'] = orc.max_dev
    ctx.note(f'2-D non-C-contiguous layouts (F order, transposed/strided views) are compared with the fixed bound {LOOSE_TOL} '
             f'relative to max|baseline| (NumPy reduction order depends on the layout); largest deviation seen {orc.max_dev:.3g}; '
             'tol_history is never compared')
    if orc.skipped:
        ctx.note('canonical call raised (method skipped by the oracle): ' + ', '.join(f'{k}:{v}' for k, v in sorted(orc.skipped.items())))
    return orc.n_cmp


def run(ctx):
    ctx.rule = ('cases: (function, call shape) for the binding model; (prologue kind, container, layout, dtype, shape, memory, '
                'output_dtype) descriptors for the normalisation model; N for the no-x state; (dim, method, variant, size) '
                'for the oracle; distinct = distinct canonical case; non-trivial = a call shape with more than one positional '
                'or keyword argument or a TypeError shape, a descriptor of dimension >= 1, N >= 2, every oracle comparison')
    ctx.trusted += [
        'NumPy conversion of containers and dtypes (np.asarray of lists/tuples/views, casts between dtypes, ravel/reshape '
        'keeping the C-order sequence) is modelled, sampled by the normalisation correspondence and by the oracle',
        'inspect.Signature.bind and the CPython call binding are modelled by C16/Bind.v `bind` (POSITIONAL_OR_KEYWORD + **kwargs '
        'only; the translator refuses other kinds) and compared with both on every run',
        'Python == on int/float literal defaults (1 versus 1.0) is taken as the same default; such parameters are listed in '
        'evidence.weak_defaults and exercised by the oracle (function-defaults)',
        'str.lower() is modelled on ASCII; linspace(-1,1,N) is modelled exactly (2i-n)/n, its float rounding is NumPy\'s',
        'the numerical method bodies: C16 proves that they receive identical inputs, the oracle checks the outputs bit for bit',
        'per-point arguments: the model interprets the translated _check_optional_array call and ravel of the eight _setup_* '
        'functions and is compared with the arrays the real _setup_* functions return; the re-ordering by _sort_order (C02), '
        'alpha of aspls / pspline_aspls and weights validated inside individual methods are covered by the oracle only',
    ]
    ctx.gate()
    ctx.translate(['GenSigs'])
    ok = ctx.build_props()
    if ok:
        weak = corr_binding(ctx)
        corr_normalise(ctx)
        corr_setups(ctx)
        from . import c16_arrays
        c16_arrays.corr_validator_dtype(ctx)
        corr_no_x(ctx)
        if weak:
            ctx.note(f'==-equal defaults of different numeric type (function versus method): {weak}')
    else:
        ctx.note('props did not build: correspondence skipped, oracle budget enlarged')
    budget = 1 if (ok and not ctx.broken) else 3
    if ctx.tier == 'thorough':
        budget = max(budget, 3)
    n = oracle(ctx, budget)
    ctx.note(f'direct oracle budget x{budget}: {n} variant-versus-canonical comparisons over all 1-D and 2-D methods; '
             'not covered: non-ASCII method names, parameter kinds other than positional-or-keyword/**kwargs, '
             'object/complex dtypes, masked arrays, pandas containers, sizes above ~100 points in the oracle')


def replay(rep):
    case = rep.get('case') or {}
    import random
    if case.get('kind') == 'oracle':
        class _Stub:      # not common.Ctx: constructing one would delete the replay files
            def __init__(self, seed):
                self.seed, self.rng, self.violations = seed, random.Random(f'{PROP}-{seed}'), []

            def case(self, *a, **k):
                pass

            def fail(self, key, what, case):
                self.violations.append((key, what, case))
        ctx = _Stub(rep.get('seed', 0))
        orc = Oracle(ctx, 3)
        if case['dim'] == '1d':
            orc.run_1d(case['method'], case['N'], case['seedk'])
        else:
            orc.run_2d(case['method'], case['N'][0], case['N'][1], case['seedk'])
        hits = [v for v in ctx.violations if v[0] == rep.get('key')]
        for key, what, _ in (hits or ctx.violations):
            print('replay:', key, what)
        if not ctx.violations:
            print('replay: property holds on this input')
        return 1 if ctx.violations else 0
    if case.get('kind') == 'oracle-call-shape':
        from . import c16_calls

        class _Stub6:
            def __init__(self, seed):
                self.seed, self.rng, self.violations, self.extra = seed, random.Random(f'{PROP}-{seed}'), [], {}

            def case(self, *a, **k):
                pass

            def fail(self, key, what, case):
                self.violations.append((key, what, case))
        ctx = _Stub6(rep.get('seed', 0))
        c16_calls.oracle_call_shapes(ctx, Oracle(ctx, 3), 3, only=case['method'])
        hits = [v for v in ctx.violations if v[0] == rep.get('key')] or ctx.violations
        for key, what, _ in hits[:5]:
            print('replay:', key, what)
        if not ctx.violations:
            print('replay: property holds on this input')
        return 1 if ctx.violations else 0
    if case.get('kind') == 'oracle-regression':
        from . import c16_arrays

        class _Stub5:
            def __init__(self, seed):
                self.seed, self.rng, self.violations, self.extra = seed, random.Random(f'{PROP}-{seed}'), [], {}

            def case(self, *a, **k):
                pass

            def fail(self, key, what, case):
                self.violations.append((key, what, case))
        ctx = _Stub5(rep.get('seed', 0))
        c16_arrays.regressions(ctx, Oracle(ctx, 1))
        hits = [v for v in ctx.violations if v[0] == rep.get('key')]
        for key, what, _ in hits[:3]:
            print('replay:', key, what)
        if not hits:
            print('replay: property holds on this input')
        return 1 if hits else 0
    if case.get('kind') == 'oracle-array-param':
        from . import c16_arrays

        class _Stub4:
            def __init__(self, seed):
                self.seed, self.rng, self.violations, self.extra = seed, random.Random(f'{PROP}-{seed}'), [], {}

            def case(self, *a, **k):
                pass

            def fail(self, key, what, case):
                self.violations.append((key, what, case))
        ctx = _Stub4(rep.get('seed', 0))
        c16_arrays.oracle_array_params(ctx, Oracle(ctx, 3), 3, only=(case['dim'], case['method']))
        hits = [v for v in ctx.violations if v[0] == rep.get('key')] or ctx.violations
        for key, what, _ in hits[:5]:
            print('replay:', key, what)
        if not ctx.violations:
            print('replay: property holds on this input')
        return 1 if ctx.violations else 0
    if case.get('kind') == 'oracle-method-name':
        class _Stub3:
            def __init__(self, seed):
                self.seed, self.rng, self.violations = seed, random.Random(f'{PROP}-{seed}'), []

            def case(self, *a, **k):
                pass

            def fail(self, key, what, case):
                self.violations.append((key, what, case))
        ctx = _Stub3(rep.get('seed', 0))
        oracle_method_names(ctx, Oracle(ctx, 3), 3)
        hits = [v for v in ctx.violations if v[0] == rep.get('key')] or ctx.violations
        for key, what, _ in hits[:5]:
            print('replay:', key, what)
        if not ctx.violations:
            print('replay: property holds on this input')
        return 1 if ctx.violations else 0
    if case.get('kind') == 'oracle-repeat':
        class _Stub2:
            def __init__(self, seed):
                self.seed, self.rng, self.violations = seed, random.Random(f'{PROP}-{seed}'), []

            def case(self, *a, **k):
                pass

            def fail(self, key, what, case):
                self.violations.append((key, what, case))
        ctx = _Stub2(rep.get('seed', 0))
        oracle_repeat(ctx, Oracle(ctx, 3), 3)
        hits = [v for v in ctx.violations if v[2].get('method') == case.get('method')] or ctx.violations
        for key, what, _ in hits[:5]:
            print('replay:', key, what)
        if not ctx.violations:
            print('replay: property holds on this input')
        return 1 if ctx.violations else 0
    if case.get('kind') == 'nox-helper':
        from pybaselines import _validation as V
        N = case['N']
        if case.get('two_d'):
            obj = dict(nox_data_kinds(tuple(N), True))[case['tag']]
            xl, zl_ = np.linspace(-1, 1, N[0]), np.linspace(-1, 1, N[1])
            xo, zo = {'no-x-no-z': (None, None), 'no-x': (None, zl_), 'no-z': (xl, None)}[case['which']]
            r = V._yxz_arrays(obj, xo, zo)
            bad = not (exact_linspace(r[1], N[0]) and exact_linspace(r[2], N[1]))
        else:
            r = V._yx_arrays(dict(nox_data_kinds(N))[case['tag']])
            bad = not exact_linspace(r[1], N)
        print('replay _yx_arrays/_yxz_arrays:', 'created x/z is not float64 linspace' if bad else 'property holds on this input')
        return 1 if bad else 0
    if case.get('kind') == 'nox-created-x':
        from pybaselines import Baseline, Baseline2D
        N = case['N']
        if case.get('two_d'):
            obj = dict(nox_data_kinds(tuple(N), True))[case['tag']]
            xl, zl_ = np.linspace(-1, 1, N[0]), np.linspace(-1, 1, N[1])
            xo, zo = {'no-x-no-z': (None, None), 'no-x': (None, zl_), 'no-z': (xl, None)}[case['which']]
            f = Baseline2D(xo, zo)
            f.noise_median(obj, half_window=1)
            bad = not (exact_linspace(f.x, N[0]) and exact_linspace(f.z, N[1]))
        else:
            obj = dict(nox_data_kinds(N))[case['tag']]
            f = Baseline()
            f.noise_median(obj, half_window=1)
            bad = not exact_linspace(f.x, N)
        print('replay created x:', 'not float64 linspace(-1, 1, N)' if bad else 'property holds on this input')
        return 1 if bad else 0
    if case.get('kind') == 'nox-one':
        from pybaselines import Baseline
        y1 = np.array([5.0])
        r0, e0 = quiet(lambda: getattr(Baseline(), case['method'])(y1, **case['kw']))
        r1, e1 = quiet(lambda: getattr(Baseline(np.linspace(-1, 1, 1)), case['method'])(y1, **case['kw']))
        bad = e0 is None and (e1 is not None or not same(r0[0], r1[0]))
        print('replay no-x one point:', 'differs' if bad else 'property holds on this input')
        return 1 if bad else 0
    print('replay: nothing concrete to replay; broken obligations were:', rep.get('broken_obligations'))
    return 1
