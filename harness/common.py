"""Shared machinery of the /verif checks: Coq build, translator, model evaluation inside Coq,
verdicts, known findings, evidence.  Runs under /venv/bin/python with PYTHONPATH=/verif:/repo."""
import fcntl
import hashlib
import json
import os
import random
import re
import subprocess
import sys
import time
import traceback

VERIF = os.path.dirname(os.path.dirname(os.path.abspath(__file__)))
COQ = os.path.join(VERIF, 'coq')
REPO = os.environ.get('VERIF_REPO', '/repo')
EVID = os.path.join(VERIF, 'evidence')
REPLAY_DIR = os.path.join(EVID, 'replay')
CASES = os.path.join(COQ, 'cases')
KNOWN = os.path.join(VERIF, 'known_findings.txt')
NPROC = os.cpu_count() or 4

FORBIDDEN = re.compile(
    r'\b(Admitted|admit|Axiom|Axioms|Parameter|Parameters|Conjecture|Admit Obligations|'
    r'bypass_check|Unset Guard Checking|Unset Positivity Checking|Unset Universe Checking|'
    r'type-in-type|impredicative-set|native_compute)\b')

GENERIC_TRUSTED = [
    'Coq 8.16.1 kernel incl. the VM (vm_compute); native_compute is not used',
    'no axioms declared in /verif/coq (grep gate + Print Assumptions output recorded below)',
    'tools/translate.py (Python ast -> Coq data, fail-closed) where gen/*.v is used',
    'harness/: generators, recorders, Fraction(float) exactness, hex-float printing/parsing',
]


def sh(cmd, timeout=None, cwd=None, env=None, input=None):
    p = subprocess.run(cmd, shell=isinstance(cmd, str), cwd=cwd, env=env, input=input,
                       stdout=subprocess.PIPE, stderr=subprocess.STDOUT, text=True,
                       timeout=timeout)
    return p.returncode, p.stdout


def coq_sources():
    out = []
    for root, dirs, files in os.walk(COQ):
        dirs[:] = [d for d in dirs if d not in ('cases',) and not d.startswith('.')]
        for f in files:
            if f.endswith('.v'):
                out.append(os.path.relpath(os.path.join(root, f), COQ))
    return sorted(out)


def dep_closure(rel):
    """Files of the development that `rel` (transitively) requires, by parsing Require lines."""
    seen, todo = set(), [rel]
    while todo:
        r = todo.pop()
        if r in seen or not os.path.exists(os.path.join(COQ, r)):
            continue
        seen.add(r)
        text = open(os.path.join(COQ, r)).read()
        for m in re.finditer(r'From\s+PB\s+Require\s+(?:Import|Export)\s+(.*?)\.(?=\s|$)', text, re.S):
            for mod in m.group(1).split():
                todo.append(mod.replace('.', '/') + '.v')
        for m in re.finditer(r'(?<!PB\s)Require\s+(?:Import|Export)\s+(.*?)\.(?=\s|$)', text, re.S):
            for mod in m.group(1).split():
                if mod.startswith('PB.'):
                    todo.append(mod[3:].replace('.', '/') + '.v')
    return seen


def grep_gate(only=None):
    """Forbidden constructs in the development (comments stripped); `only` restricts to a file set."""
    bad = []
    for rel in coq_sources():
        if only is not None and rel not in only:
            continue
        with open(os.path.join(COQ, rel)) as f:
            text = f.read()
        # strip (possibly nested) comments
        depth, out, i = 0, [], 0
        while i < len(text):
            if text.startswith('(*', i):
                depth += 1
                i += 2
            elif text.startswith('*)', i) and depth:
                depth -= 1
                i += 2
            else:
                if not depth:
                    out.append(text[i])
                elif text[i] == '\n':
                    out.append('\n')
                i += 1
        for ln, line in enumerate(''.join(out).split('\n'), 1):
            stripped = ''.join(out)
            if FORBIDDEN.search(line) or (
                    re.search(r'^\s*(Variable|Hypothesis|Variables|Hypotheses)\b', line)
                    and not _in_section(stripped, ln)):
                bad.append(f'{rel}:{ln}: {line.strip()}')
    return bad


def _in_section(text, lineno):
    depth = 0
    for ln, line in enumerate(text.split('\n'), 1):
        if ln >= lineno:
            break
        if re.match(r'\s*Section\s+\w+', line):
            depth += 1
        elif re.match(r'\s*End\s+\w+', line) and depth:
            depth -= 1
    return depth > 0


class Lock:
    def __enter__(self):
        self.f = open(os.path.join(COQ, '.lock'), 'w')
        fcntl.flock(self.f, fcntl.LOCK_EX)
        return self

    def __exit__(self, *a):
        fcntl.flock(self.f, fcntl.LOCK_UN)
        self.f.close()


def write_coqproject():
    lines = ['-Q . PB',
             '-arg -w -arg -notation-overridden,-deprecated-hint-without-locality,'
             '-deprecated-instance-without-locality,-deprecated-hint-rewrite-without-locality']
    lines += coq_sources()
    text = '\n'.join(lines) + '\n'
    path = os.path.join(COQ, '_CoqProject')
    old = open(path).read() if os.path.exists(path) else None
    changed = old != text
    if changed:
        with open(path, 'w') as f:
            f.write(text)
    return changed


def ensure_makefile():
    changed = write_coqproject()
    mk = os.path.join(COQ, 'Makefile')
    if changed or not os.path.exists(mk):
        rc, out = sh('coq_makefile -f _CoqProject -o Makefile', cwd=COQ, timeout=120)
        if rc:
            raise RuntimeError('coq_makefile failed: ' + out)


def run_translator(names=()):
    cmd = [sys.executable, os.path.join(VERIF, 'tools', 'translate.py'), '--repo', REPO] + list(names)
    rc, out = sh(cmd, timeout=300)
    return rc, out


def make(targets, timeout=1500):
    """make the given .vo targets (relative to coq/).  Returns (ok, output)."""
    with Lock():
        for attempt in range(3):
            ensure_makefile()
            cmd = ['timeout', str(timeout), 'make', '-k', f'-j{NPROC}'] + list(targets)
            rc, out = sh(cmd, cwd=COQ, timeout=timeout + 30)
            if rc and ("No rule to make target '.Makefile.d'" in out or 'No such file or directory' in out):
                # the file list changed under us (a source file appeared/disappeared): regenerate
                try:
                    os.remove(os.path.join(COQ, '_CoqProject'))
                except OSError:
                    pass
                time.sleep(1 + attempt)
                continue
            break
    return rc == 0, out


ERR_RE = re.compile(r'File "\./?([^"]+)", line (\d+), characters')


def locate_errors(output):
    """[(file, line, enclosing theorem/lemma name, message)] from coqc error output."""
    res = []
    lines = output.split('\n')
    for i, line in enumerate(lines):
        m = ERR_RE.search(line)
        if not m or i + 1 >= len(lines) or not lines[i + 1].startswith('Error'):
            continue
        rel, ln = m.group(1), int(m.group(2))
        name = '?'
        try:
            src = open(os.path.join(COQ, rel)).read().split('\n')
            for k in range(min(ln, len(src)) - 1, -1, -1):
                mm = re.match(r'\s*(?:Local\s+|Global\s+)?(Theorem|Lemma|Corollary|Example|Definition|Fixpoint|Fact|Remark)\s+(\w+)', src[k])
                if mm:
                    name = mm.group(2)
                    break
        except OSError:
            pass
        msg = ' '.join(l.strip() for l in lines[i + 1:i + 6])[:400]
        res.append((rel, ln, name, msg))
    return res


def theorems_in(rel):
    with open(os.path.join(COQ, rel)) as f:
        return re.findall(r'^\s*(?:Theorem|Example|Corollary)\s+(\w+)', f.read(), re.M)


def parse_assumptions(output, names):
    """Maps theorem name -> 'closed' or the list of axiom names, from the stdout of compiling a
    props file (one Print Assumptions per theorem, in order)."""
    blocks = []
    cur = None
    for line in output.split('\n'):
        if line.startswith('Closed under the global context'):
            blocks.append('closed')
            cur = None
        elif line.startswith('Axioms:'):
            cur = []
            blocks.append(cur)
        elif cur is not None:
            m = re.match(r'^([A-Za-z_][\w.\']*)\s*(:|$)', line)
            if m and not line.startswith(('COQC', 'make', 'File')):
                cur.append(m.group(1))
    res = {}
    for n, b in zip(names, blocks):
        res[n] = b if b == 'closed' else 'axioms: ' + ', '.join(b)
    return res


def hexf(x):
    """Coq PrimFloat literal for a Python float (bit-exact)."""
    import math
    x = float(x)
    if math.isnan(x):
        return 'nan'
    if math.isinf(x):
        return 'infinity' if x > 0 else 'neg_infinity'
    if x == 0:
        return '(-0)%float' if math.copysign(1, x) < 0 else '0%float'
    h = x.hex()
    return f'({h})%float'


def zl(v):
    v = int(v)
    return f'({v})' if v < 0 else str(v)


def zlist(vs):
    return '[' + '; '.join(zl(v) for v in vs) + ']'


def zlist2(vss):
    return '[' + '; '.join(zlist(vs) for vs in vss) + ']'


def coqbool(b):
    return 'true' if b else 'false'


class Ctx:
    def __init__(self, prop, tier, seed):
        self.prop, self.tier, self.seed = prop, tier, seed
        self.rng = random.Random(f'{prop}-{seed}')
        self.t0 = time.time()
        self.violations = []      # (key, what, case)
        self.broken = []          # (name, detail)
        self.obligations = []     # names
        self.discharged = []
        self.assumptions = {}
        self.evaluations = 0
        self.distinct = set()
        self.samples = []
        self.notes = []
        self.hist = {}
        self.trusted = list(GENERIC_TRUSTED)
        self.rule = ''
        self.traces = 0
        self.extra = {}
        self.checker_cmds = []
        self.known = load_known(prop)
        import glob
        for f in glob.glob(os.path.join(REPLAY_DIR, f'{prop}_*.json')):
            try:
                os.remove(f)
            except OSError:
                pass
        self.known_hit = {}

    # -- sizes
    def n(self, quick, thorough):
        return thorough if self.tier == 'thorough' else quick

    # -- bookkeeping
    def case(self, canon, nontrivial=True, kind=None):
        self.evaluations += 1
        if nontrivial:
            h = hashlib.sha1(repr(canon).encode()).hexdigest()[:16]
            self.distinct.add(h)
        if kind is not None:
            self.hist[kind] = self.hist.get(kind, 0) + 1

    def sample(self, obj, limit=6):
        if len(self.samples) < limit:
            self.samples.append(obj)

    def note(self, s):
        self.notes.append(s)

    def fail(self, key, what, case):
        """A concrete failing input/history/schedule on the implementation."""
        for k, desc in self.known:
            if k == key:
                self.known_hit.setdefault(k, (desc, case))
                return
        if key not in [v[0] for v in self.violations] and len(self.violations) < 20:
            self.violations.append((key, what, case))

    def broke(self, name, detail):
        if len(self.broken) < 50:
            self.broken.append((name, str(detail)[:2000]))

    # -- Coq
    def gate(self):
        # everything props/<prop>.v depends on (the whole development is gated by bin/setup)
        bad = grep_gate(only=dep_closure(f'props/{self.prop}.v'))
        self.obligations.append('grep-gate:no-Admitted/Axiom/Parameter/guard-switches')
        if bad:
            self.broke('grep-gate', '; '.join(bad[:10]))
        else:
            self.discharged.append('grep-gate:no-Admitted/Axiom/Parameter/guard-switches')

    def translate(self, names):
        rc, out = run_translator(names)
        for n in names:
            ob = f'translate:{n}'
            self.obligations.append(ob)
            if f'TRANSLATE-REFUSED {n}' in out or rc not in (0,):
                m = re.search(rf'TRANSLATE-REFUSED {n}: (.*)', out)
                self.broke(ob, m.group(1) if m else out[-500:])
            else:
                self.discharged.append(ob)
        return rc == 0

    def build_props(self, rel=None, timeout=1500, extra=()):
        """Compiles props/<prop>.v (and everything it needs) afresh and records one obligation
        per theorem, with its Print Assumptions output."""
        rel = rel or f'props/{self.prop}.v'
        names = theorems_in(rel)
        vo = rel + 'o'
        try:
            os.remove(os.path.join(COQ, vo))
        except OSError:
            pass
        t = time.time()
        ok, out = make([vo, 'lib/CaseUtil.vo'] + list(extra), timeout=timeout)
        self.checker_cmds.append(f'cd coq && make -j{NPROC} {vo}  (coq_makefile, full .vo build; {time.time() - t:.0f}s)')
        self.obligations += [f'theorem:{n}' for n in names]
        if ok:
            self.discharged += [f'theorem:{n}' for n in names]
            self.assumptions.update(parse_assumptions(out, [n for n in names if not n.endswith('_nonvacuous') and not n.endswith('_example')]))
        else:
            errs = locate_errors(out)
            if not errs:
                self.broke(f'build:{vo}', out[-1500:])
            for relf, ln, name, msg in errs:
                self.broke(f'{relf}:{name}', f'line {ln}: {msg}')
            # theorems of the props file located before the first error in that file still hold
            # only if every dependency compiled; be conservative: none is discharged.
        return ok

    def coq_eval(self, name, text, timeout=600):
        """Evaluates a generated cases file; returns the list of printed '= value' payloads or
        None when coqc failed."""
        os.makedirs(CASES, exist_ok=True)
        path = os.path.join(CASES, f'{self.prop}_{name}.v')
        with open(path, 'w') as f:
            f.write(text)
        cmd = f'ulimit -s unlimited 2>/dev/null; timeout {timeout} coqc -Q . PB -w none cases/{self.prop}_{name}.v'
        rc, out = sh(['bash', '-c', cmd], cwd=COQ, timeout=timeout + 30)
        for ext in ('.vo', '.vok', '.vos', '.glob'):
            try:
                os.remove(path[:-2] + ext)
            except OSError:
                pass
        if rc:
            self.broke(f'correspondence:{name}', f'coqc failed on generated cases: {out[-1200:]}')
            return None
        vals = []
        cur = None
        for line in out.split('\n'):
            if line.lstrip().startswith('= '):
                cur = [line.lstrip()[2:]]
                vals.append(cur)
            elif line.lstrip().startswith(': '):
                cur = None
            elif cur is not None:
                cur.append(line.strip())
        return [' '.join(v).strip() for v in vals]

    def coqchk(self, timeout=1500):
        """Thorough tier: re-check props/<prop>.vo and everything it depends on with the independent
        checker and record the axioms it reports."""
        vo = os.path.join(COQ, 'props', self.prop + '.vo')
        if not os.path.exists(vo):
            return
        ob = f'coqchk:props/{self.prop}.vo'
        self.obligations.append(ob)
        t = time.time()
        try:
            with Lock():
                rc, out = sh(['timeout', str(timeout), 'coqchk', '-silent', '-o', '-Q', '.', 'PB', f'PB.props.{self.prop}'],
                             cwd=COQ, timeout=timeout + 30)
        except subprocess.TimeoutExpired:
            rc, out = 124, 'timeout'
        self.checker_cmds.append(f'cd coq && coqchk -silent -o -Q . PB PB.props.{self.prop}  ({time.time() - t:.0f}s)')
        m = re.search(r'\* Axioms:(.*?)\n\s*\n\* Constants/Inductives relying on type-in-type:(.*?)\n\s*\n'
                      r'\* Constants/Inductives relying on unsafe \(co\)fixpoints:(.*?)\n\s*\n'
                      r'\* Inductives whose positivity is assumed:(.*?)\n', out + '\n\n', re.S)
        if rc == 0 and m:
            axioms = ' '.join(m.group(1).split())
            unsafe = [' '.join(m.group(i).split()) for i in (2, 3, 4)]
            self.extra['coqchk'] = {'axioms': axioms, 'type_in_type': unsafe[0], 'unsafe_fixpoints': unsafe[1],
                                    'assumed_positivity': unsafe[2]}
            self.trusted.append(f'coqchk -o props/{self.prop}.vo: axioms {axioms}')
            if all(u == '<none>' for u in unsafe):
                self.discharged.append(ob)
            else:
                self.broke(ob, f'coqchk reports unsafe features: {unsafe}')
        else:
            self.broke(ob, f'coqchk failed (rc={rc}): {out[-800:]}')

    # -- verdict
    def finish(self):
        os.makedirs(REPLAY_DIR, exist_ok=True)
        if self.tier == 'thorough' and not self.broken and not self.violations:
            try:
                self.coqchk()
            except Exception:  # noqa
                self.broke('coqchk', traceback.format_exc()[-800:])
        lines = []
        code = 0
        for k, (desc, case) in self.known_hit.items():
            lines.append(f'KNOWN-FINDING: property={self.prop} {desc}')
        for k, desc in self.known:
            if k not in self.known_hit and getattr(self, 'known_replayed', None) and k in self.known_replayed:
                lines.append(f'FINDING-NO-LONGER-REPRODUCES: property={self.prop} key={k}')
        if self.violations:
            code = 1
            for i, (key, what, case) in enumerate(self.violations[:10]):
                path = os.path.join(REPLAY_DIR, f'{self.prop}_{i}.json')
                with open(path, 'w') as f:
                    json.dump({'property': self.prop, 'key': key, 'what': what, 'case': case,
                               'seed': self.seed, 'tier': self.tier,
                               'broken_obligations': self.broken}, f, indent=1, default=str)
                lines.append(f'VIOLATION property={self.prop} replay={path}')
        elif self.broken:
            code = 1
            path = os.path.join(REPLAY_DIR, f'{self.prop}_broken.json')
            with open(path, 'w') as f:
                json.dump({'property': self.prop, 'no_failing_input_found': True,
                           'broken_obligations': [{'name': n, 'detail': d} for n, d in self.broken],
                           'seed': self.seed, 'tier': self.tier,
                           'search': self.notes}, f, indent=1, default=str)
            lines.append(f'VIOLATION property={self.prop} replay={path} no-failing-input-found')
        self.write_evidence(code)
        for ln in lines:
            print(ln)
        for n, d in self.broken[:10]:
            print(f'BROKEN {n}: {d[:300]}')
        print(f'[{self.prop} {self.tier}] obligations {len(self.discharged)}/{len(self.obligations)} '
              f'evaluations {self.evaluations} distinct_nontrivial {len(self.distinct)} '
              f'violations {len(self.violations)} known {len(self.known_hit)} '
              f'wall {time.time() - self.t0:.0f}s')
        sys.stdout.flush()
        return code

    def write_evidence(self, code):
        os.makedirs(EVID, exist_ok=True)
        tb = list(self.trusted)
        for n, a in sorted(self.assumptions.items()):
            tb.append(f'Print Assumptions {n}: {a}')
        cov = {
            'obligations': len(self.obligations),
            'discharged': len(self.discharged),
            'obligation_names': self.obligations,
            'not_discharged': [o for o in self.obligations if o not in self.discharged],
            'checker_cmd': ' ; '.join(self.checker_cmds) or 'none',
            'trusted_base': tb,
            'evaluations': self.evaluations,
            'distinct_nontrivial': len(self.distinct),
            'rule': self.rule,
            'samples': self.samples or ['(no samples recorded)'],
            'input_distribution': self.hist,
            'traces_validated_against_impl': self.traces,
            'explanation': ' | '.join(self.notes),
            'known_findings_matched': sorted(self.known_hit),
            'broken': [{'name': n, 'detail': d[:500]} for n, d in self.broken],
        }
        cov.update(self.extra)
        ev = {'property_id': self.prop, 'tier': self.tier, 'seed': self.seed, 'level': 'proof',
              'coverage': cov, 'assumptions': tb, 'wall_s': round(time.time() - self.t0, 2),
              'violations': len(self.violations) + (1 if (self.broken and not self.violations) else 0)}
        with open(os.path.join(EVID, f'{self.prop}.json'), 'w') as f:
            json.dump(ev, f, indent=1, default=str)


def load_known(prop):
    res = []
    if os.path.exists(KNOWN):
        for line in open(KNOWN):
            line = line.strip()
            m = re.match(r'finding:\s+property=(\S+)\s+key=(\S+)\s+(.*)', line)
            if m and m.group(1) == prop:
                res.append((m.group(2), m.group(3)))
    return res


def main(argv):
    import importlib
    if len(argv) < 1:
        print('usage: check Cxx [quick|thorough] | check Cxx --replay path')
        return 2
    prop = argv[0]
    mod = importlib.import_module(f'harness.{prop.lower()}')
    if len(argv) >= 3 and argv[1] == '--replay':
        with open(argv[2]) as f:
            rep = json.load(f)
        return mod.replay(rep)
    tier = argv[1] if len(argv) > 1 else os.environ.get('VERIF_TIER', 'quick')
    if tier not in ('quick', 'thorough'):
        tier = 'quick'
    seed = int(os.environ.get('VERIF_SEED', '0') or 0)
    ctx = Ctx(prop, tier, seed)
    try:
        mod.run(ctx)
    except Exception:
        ctx.broke('harness-exception', traceback.format_exc()[-1800:])
    return ctx.finish()
