"""C12 -- the spline design matrix is the B-spline basis; its normal equations are exact.
DESIGN.md section 4 / C12.

Flow: grep gate -> build props/C12.v (theorems about the Gallina models of _find_interval, _de_boor,
__make_design_matrix, _numba_btb_bty in coq/C12/Model.v) -> correspondence (the binary64 instance of
the SAME definitions evaluated by vm_compute on the same inputs as the real kernels, jitted and
.py_func, compared bit for bit inside Coq) -> direct oracle on the implementation (three construction
paths vs each other and vs scipy.interpolate.BSpline; row sums / sign / support; banded B'WB and B'Wy
of PSpline.solve_pspline, numba path and sparse fallback, vs dense products)."""
import warnings

import numpy as np

from .common import hexf

PROP = 'C12'

HEADER = """From Coq Require Import List Bool PrimFloat.
From PB Require Import lib.CaseUtil C12.Num C12.LArr C12.Model.
Import ListNotations.
"""


def su():
    from pybaselines import _spline_utils
    return _spline_utils


def fl(v):
    return '[' + '; '.join(hexf(a) for a in v) + ']'


def nl(v):
    return '[' + '; '.join(str(int(a)) for a in v) + ']'


def fll(m):
    return '[' + '; '.join(fl(r) for r in m) + ']'


# ------------------------------------------------------------------------------ generators
X_KINDS = ['uniform', 'onknot', 'clustered', 'repeated', 'unsorted', 'few', 'ends', 'near-knot']


def gen_x(rng, kind, n, nk, lo, hi):
    """x inside [lo, hi], always containing lo and hi (so that _spline_knots sees the same range)."""
    inner = np.linspace(lo, hi, nk)
    if kind == 'ends':
        x = np.array([lo, hi] if rng.random() < 0.5 else [lo, hi, hi, lo][:max(2, min(n, 4))])
        return np.sort(x) if rng.random() < 0.5 else x
    if kind == 'few':
        n = int(rng.integers(2, 5))
    body = rng.uniform(lo, hi, max(n - 2, 0))
    if kind == 'onknot':
        pick = rng.choice(inner, size=len(body))
        mask = rng.random(len(body)) < 0.7
        body = np.where(mask, pick, body)
    elif kind == 'near-knot':
        pick = rng.choice(inner, size=len(body))
        side = rng.choice([-np.inf, np.inf], size=len(body))
        body = np.clip(np.nextafter(pick, side), lo, hi)
    elif kind == 'clustered':
        c = rng.choice(inner) if rng.random() < 0.5 else rng.uniform(lo, hi)
        w = (hi - lo) * 10.0 ** rng.integers(-14, -2)
        body = np.clip(c + rng.uniform(-w, w, len(body)), lo, hi)
    elif kind == 'repeated':
        vals = rng.uniform(lo, hi, max(1, len(body) // 3))
        body = rng.choice(vals, size=len(body))
    x = np.concatenate(([lo], body, [hi]))
    if kind == 'unsorted':
        return rng.permutation(x)
    x = np.sort(x)
    if kind == 'repeated' and len(x) >= 4 and rng.random() < 0.5:
        x[-2:] = hi
        x[:2] = lo
    return x


SCALES = [1e-15, 1e-12, 1e-9, 1e-6, 1e6, 1e12, 1e-300]


def gen_range(rng, allow_denormal=False, nk=10):
    """(lo, hi).  Besides ordinary ranges: SCALE families (whole axis multiplied by 1e-15 .. 1e12, 1e-300, and -- only for the
    bit-exact correspondence -- a denormal-adjacent 1e-310) and OFFSET families (x + 1e6, x + 1e12 with a spacing that is still
    well representable), so that nothing in the kernels can depend on the absolute size of x or of the knot spacing."""
    c = rng.random()
    if c < 0.30:
        lo = float(rng.uniform(-10, 10))
        lo, hi = lo, lo + float(rng.uniform(0.5, 100))
    elif c < 0.40:
        lo, hi = 0.0, float(2 ** int(rng.integers(-4, 12)))
    elif c < 0.50:
        lo = float(rng.uniform(-1, 1)) * 10.0 ** int(rng.integers(-8, 9))
        lo, hi = lo, lo + abs(lo) * float(rng.uniform(0.01, 3)) + 10.0 ** int(rng.integers(-8, 3))
    elif c < 0.60:
        lo, hi = 1.0, 100.0 + float(rng.integers(0, 4000))
    elif c < 0.88:
        sc = SCALES[int(rng.integers(0, len(SCALES)))]
        if allow_denormal and rng.random() < 0.15:
            sc = 1e-310
        base_lo = float(rng.choice([0.0, 400.0, -3.0, float(rng.uniform(-10, 10))]))
        base_hi = base_lo + float(rng.choice([300.0, 1.0, float(rng.uniform(0.5, 100))]))
        lo, hi = base_lo * sc, base_hi * sc
    else:
        off = float(rng.choice([1e6, -1e6, 1e12, -1e12]))
        width = float(rng.uniform(1.0, 500.0)) if abs(off) > 1e9 else float(rng.uniform(1e-3, 500.0))
        if rng.random() < 0.5:
            # knot spacing only 8 .. 4096 ulps of the offset: tiny RELATIVE to the knot values, still strictly increasing
            width = (nk - 1) * float(np.spacing(abs(off))) * float(2 ** int(rng.integers(3, 13)))
        lo = off + float(rng.uniform(0, 10))
        lo, hi = lo, lo + width
    if not hi > lo:
        hi = lo + max(abs(lo), 1e-300)
    return lo, hi


def gen_config(rng, c, small=True, allow_denormal=False):
    """(degree, num_knots, x, knots): penalized knots from _spline_knots; Coq-side arrays stay small."""
    S = su()
    k = c % 7
    r = rng.random()
    if r < 0.55:
        nk = int(rng.integers(2, 12))
    elif r < 0.85:
        nk = int(rng.integers(12, 60))
    else:
        nk = int(rng.integers(60, 201))
    lo, hi = gen_range(rng, allow_denormal, nk)
    kind = X_KINDS[(c // 7) % len(X_KINDS)]
    nmax = max(2, min(40, 400 // (k + 1))) if small else 400
    if nk > 60 and small:
        nmax = min(nmax, 12)
    n = int(rng.integers(2, nmax + 1))
    x = gen_x(rng, kind, n, nk, lo, hi)
    knots = S._spline_knots(x, nk, k, True)
    return k, nk, kind, x, knots


def gen_raw_knots(rng, c):
    """hand-made non-decreasing knot vectors: duplicates at the ends and inside (also the LAST interior interval, the only way
    _find_interval can hand _de_boor a zero-length interval: both branches of `left_knot == right_knot`), non-uniform spacing,
    and absolute scales from 1e-14 (spacing ~1e-13 and below) to 1e12; x anywhere in [t_k, t_nb], often exactly on knots."""
    k = c % 5
    nint = int(rng.integers(2, 9))
    inner = np.sort(rng.uniform(0, 10, nint))
    if rng.random() < 0.5 and nint > 2:
        j = int(rng.integers(0, nint - 1))
        inner[j + 1] = inner[j]
    if (c // 3) % 4 == 0 and nint > 2:
        inner[-1] = inner[-2]          # repeated right end: x = t_nb falls in a zero-length interval
    mode = c % 3
    if mode == 0:     # clamped: end knots repeated (what _spline_knots(penalized=False) produces)
        knots = np.concatenate((np.repeat(inner[0], k), inner, np.repeat(inner[-1], k)))
    elif mode == 1:
        knots = np.concatenate((inner[0] - np.arange(k, 0, -1.0), inner, inner[-1] + np.arange(1.0, k + 1)))
    else:
        knots = np.sort(np.concatenate((inner[0] - rng.uniform(0, 2, k), inner, inner[-1] + rng.uniform(0, 2, k))))
    n = int(rng.integers(1, 9))
    x = rng.uniform(inner[0], inner[-1], n)
    pick = rng.choice(inner, size=n)
    x = np.where(rng.random(n) < 0.5, pick, x)
    x[0] = inner[-1] if rng.random() < 0.5 else x[0]
    sc = float(rng.choice([1.0, 1.0, 1e-14, 1e-12, 1e-9, 1e-6, 1e6, 1e12, 1e-300]))
    x, knots = x * sc, knots * sc
    if rng.random() < 0.25:
        # offset so large that the spacing is down to ~100 ulps of the knot values (adding a constant keeps the order,
        # keeps equal knots equal, and keeps x inside [t_k, t_nb] because rounding is monotone)
        off = float(rng.choice([1e6, 1e10, 1e13])) * max(float(np.max(np.abs(knots))), 1e-300)
        x, knots = x + off, knots + off
    return k, x, knots


# ------------------------------------------------------------------------------ correspondence
OK_DESIGN = """
Definition ok (c : nat * list float * list float * list float * list float * list float * list nat * list nat
                   * list (list float) * list float) : bool :=
  let '(k, x, knots, y, w, d, r, ci, ab, rhs) := c in
  let '(d', r', c') := make_design_matrix Num_F x knots k in
  let nb := (length knots - (k + 1))%nat in
  let '(ab', rhs') := numba_btb_bty Num_F x knots k y w (repeat (repeat 0%float nb) (k + 1)) (repeat 0%float nb) d in
  fl_eqb d d' && nl_eqb r r' && nl_eqb ci c' && fll_eqb ab ab' && fl_eqb rhs rhs'.
Eval vm_compute in (bad ok cases).
"""

OK_INTERVAL = """
Definition ok (c : nat * list float * list (float * nat * nat)) : bool :=
  let '(k, knots, qs) := c in
  let nb := (length knots - (k + 1))%nat in
  forallb (fun q => let '(x, hint, res) := q in Nat.eqb (find_interval Num_F knots k x hint nb) res) qs.
Eval vm_compute in (bad ok cases).
"""

OK_DEBOOR = """
Definition ok (c : nat * list float * list (float * nat * list float * list float)) : bool :=
  let '(k, knots, qs) := c in
  forallb (fun q => let '(x, ell, work, res) := q in fl_eqb (de_boor Num_F knots x k ell work) res) qs.
Eval vm_compute in (bad ok cases).
"""


def run_cases(ctx, name, ty, lits, okdef, per, ob, descr, mk_case):
    """Evaluates the literals in chunks; on mismatch records a broken obligation and a failing case."""
    ctx.obligations.append(ob)
    bad = False
    for s in range(0, len(lits), per):
        sh = lits[s:s + per]
        text = HEADER + f'\nDefinition cases : list ({ty}) := [\n' + ';\n'.join(sh) + '\n].\n' + okdef
        vals = ctx.coq_eval(f'{name}{s // per}', text)
        if vals is None:
            bad = True
            continue
        v = vals[0] if vals else ''
        if not v.startswith('(0'):
            bad = True
            import re
            m = re.match(r'\((\d+)(?:%nat)?,\s*\[(.*)\]\)', v)
            idx = [int(t.replace('%nat', '')) for t in (m.group(2).split(';') if m else []) if t.strip()]
            ctx.broke(ob, f'{descr}: model and implementation differ bit-for-bit on {v}')
            for i in idx[:2]:
                ctx.fail(f'corr:{name}', f'{descr}: the implementation differs from the verified model '
                         f'(coq/C12/Model.v, binary64 instance) on this input', mk_case(s + i))
    if not bad and ob not in [b[0] for b in ctx.broken]:
        ctx.discharged.append(ob)
    return bad


def correspondence(ctx):
    # NaN/inf can legitimately appear (denormal scale, zero-length intervals called directly): compared bit-for-bit like any value
    with warnings.catch_warnings(), np.errstate(all='ignore'):
        warnings.simplefilter('ignore')
        return _correspondence(ctx)


def _correspondence(ctx):
    S = su()
    mk = getattr(S, '__make_design_matrix')
    rng = np.random.default_rng(ctx.seed + 12)
    bad = False

    # (a) design matrix + normal equations, jitted and .py_func
    lits, metas = [], []
    ncfg = ctx.n(84, 700)
    for c in range(ncfg):
        raw = (c % 6 == 5)
        if raw:
            k, x, knots = gen_raw_knots(rng, c)
            kind, nk = 'raw-knots', len(knots) - 2 * k
        else:
            k, nk, kind, x, knots = gen_config(rng, c, allow_denormal=True)
        n = len(x)
        y = rng.normal(0, 1, n) * 10.0 ** int(rng.integers(-3, 4))
        w = rng.random(n)
        wk = c % 4
        if wk == 1:
            w[rng.random(n) < 0.5] = 0.0
        elif wk == 2:
            w[:] = 0.0
        elif wk == 3:
            w = rng.normal(0, 1, n) * 10.0 ** rng.integers(-6, 7, n)
        nb = len(knots) - k - 1
        outs = []
        for which, f, g in (('jit', mk, S._numba_btb_bty), ('py', mk.py_func, S._numba_btb_bty.py_func)):
            try:
                d, r, ci = f(x, knots, k)
                ab = np.zeros((k + 1, nb), order='F')
                rhs = np.zeros(nb)
                g(x, knots, k, y, w, ab, rhs, d)
            except Exception as exc:  # noqa
                ctx.broke('correspondence:__make_design_matrix+_numba_btb_bty(jit,py_func)-bit-exact', f'kernel raised {type(exc).__name__}')
                ctx.fail('corr:design:exception', f'__make_design_matrix / _numba_btb_bty ({which}) raised {type(exc).__name__}: {exc}',
                         {'kind': 'design-corr', 'which': which, 'degree': k, 'x': x.tolist(), 'knots': knots.tolist(),
                          'y': y.tolist(), 'weights': w.tolist()})
                bad = True
                continue
            outs.append((d, r, ci, ab, rhs))
            lits.append(f'({k}, {fl(x)}, {fl(knots)}, {fl(y)}, {fl(w)}, {fl(d)}, {nl(r)}, {nl(ci)}, {fll(ab)}, {fl(rhs)})')
            metas.append({'kind': 'design-corr', 'which': which, 'degree': k, 'x': x.tolist(), 'knots': knots.tolist(),
                          'y': y.tolist(), 'weights': w.tolist()})
        on_knot = bool(np.isin(x, knots[k + 1:nb]).any())
        ctx.case(('design', k, nk, kind, x.tobytes(), w.tobytes()), nontrivial=n >= 2 and nb > k,
                 kind=f'design:{kind}:deg{k}:{"onknot" if on_knot else "off"}:spacing1e{int(np.floor(np.log10(max(np.max(np.diff(knots)), 5e-324))))}')
    ctx.sample({'kind': 'design-case', 'coq_literal_head': lits[0][:240]})
    bad |= run_cases(
        ctx, 'design', 'nat * list float * list float * list float * list float * list float * list nat * list nat '
        '* list (list float) * list float', lits, OK_DESIGN, 60,
        'correspondence:__make_design_matrix+_numba_btb_bty(jit,py_func)-bit-exact',
        '__make_design_matrix / _numba_btb_bty', lambda i: metas[i])

    # (b) _find_interval with arbitrary hints (also outside the valid range)
    lits, metas = [], []
    for c in range(ctx.n(60, 400)):
        if c % 4 == 3:
            k, x, knots = gen_raw_knots(rng, c)
        else:
            k, nk, kind, x, knots = gen_config(rng, c)
        nb = len(knots) - k - 1
        qs = []
        inner = knots[k:nb + 1]
        for _ in range(12):
            xv = float(rng.choice(inner)) if rng.random() < 0.5 else float(rng.uniform(inner[0], inner[-1]))
            hint = int(rng.integers(0, len(knots) + 3))
            for f in (S._find_interval, S._find_interval.py_func):
                try:
                    res = int(f(knots, k, xv, hint, nb))
                except Exception as exc:  # noqa
                    ctx.broke('correspondence:_find_interval(jit,py_func)-any-hint', f'kernel raised {type(exc).__name__}')
                    ctx.fail('corr:interval:exception', f'_find_interval raised {type(exc).__name__}: {exc} for a hint of {hint} '
                             f'with {nb} basis functions (the verified model returns the interval for every hint)',
                             {'kind': 'interval-corr', 'degree': k, 'knots': knots.tolist(), 'x': xv, 'hint': hint})
                    bad = True
                    continue
                qs.append(f'({hexf(xv)}, {hint}, {res})')
            ctx.case(('interval', k, knots.tobytes(), xv, hint), nontrivial=nb > k + 1, kind='interval')
        lits.append(f'({k}, {fl(knots)}, [{"; ".join(qs)}])')
        metas.append({'kind': 'interval-corr', 'degree': k, 'knots': knots.tolist()})
    bad |= run_cases(ctx, 'interval', 'nat * list float * list (float * nat * nat)', lits, OK_INTERVAL, 200,
                     'correspondence:_find_interval(jit,py_func)-any-hint', '_find_interval', lambda i: metas[i])

    # (c) _de_boor with arbitrary previous content of `work`
    lits, metas = [], []
    for c in range(ctx.n(60, 400)):
        if c % 4 == 3:
            k, x, knots = gen_raw_knots(rng, c)
        else:
            k, nk, kind, x, knots = gen_config(rng, c)
        nb = len(knots) - k - 1
        qs = []
        queries = [(float(xv), int(S._find_interval(knots, k, float(xv), k, nb))) for xv in x[:5]]
        # any interval index, also zero-length ones (repeated knots) and x outside the interval: both branches of the `==` test
        for _ in range(3):
            ell = int(rng.integers(k, nb))
            queries.append((float(rng.choice([knots[ell], knots[ell + 1], x[0]])), ell))
        for xv, ell in queries:
            work0 = rng.normal(0, 1, 2 * (k + 1))
            for f in (S._de_boor, S._de_boor.py_func):
                work = work0.copy()
                try:
                    f(knots, xv, k, ell, work)
                except Exception as exc:  # noqa
                    ctx.broke('correspondence:_de_boor(jit,py_func)-stale-work', f'kernel raised {type(exc).__name__}')
                    ctx.fail('corr:deboor:exception', f'_de_boor raised {type(exc).__name__}: {exc}',
                             {'kind': 'deboor-corr', 'degree': k, 'knots': knots.tolist(), 'x': [xv]})
                    bad = True
                    continue
                qs.append(f'({hexf(xv)}, {ell}, {fl(work0)}, {fl(work)})')
            ctx.case(('deboor', k, knots.tobytes(), xv), nontrivial=k >= 1, kind=f'deboor:deg{k}')
        lits.append(f'({k}, {fl(knots)}, [{"; ".join(qs)}])')
        metas.append({'kind': 'deboor-corr', 'degree': k, 'knots': knots.tolist(), 'x': [q[0] for q in queries]})
    bad |= run_cases(ctx, 'deboor', 'nat * list float * list (float * nat * list float * list float)', lits, OK_DEBOOR,
                     200, 'correspondence:_de_boor(jit,py_func)-stale-work', '_de_boor', lambda i: metas[i])
    return bad


# ------------------------------------------------------------------------------ direct oracle
def dense_ref(x, knots, k):
    """Reference B-spline basis from SciPy (right end point evaluated in the last interval)."""
    from scipy.interpolate import BSpline
    nb = len(knots) - k - 1
    return BSpline(knots, np.eye(nb), k, extrapolate=True)(x)


def cox_de_boor_ref(x, knots, k):
    """Independent Cox-de Boor recursion in exact rational arithmetic (small inputs only)."""
    from fractions import Fraction as Fr
    t = [Fr(float(v)) for v in knots]
    nb = len(knots) - k - 1
    out = []
    for xv in x:
        xv = Fr(float(xv))
        if xv >= t[nb]:
            N0 = [1 if m + 1 == nb else 0 for m in range(len(t) - 1)]
        else:
            N0 = [1 if t[m] <= xv < t[m + 1] else 0 for m in range(len(t) - 1)]
        Np = [Fr(v) for v in N0]
        for p in range(1, k + 1):
            nxt = []
            for m in range(len(t) - 1 - p):
                a = (xv - t[m]) / (t[m + p] - t[m]) * Np[m] if t[m + p] != t[m] else 0
                b = (t[m + p + 1] - xv) / (t[m + p + 1] - t[m + 1]) * Np[m + 1] if t[m + p + 1] != t[m + 1] else 0
                nxt.append(a + b)
            Np = nxt
        out.append([float(v) for v in Np[:nb]])
    return np.array(out)


def check_basis(x, knots, k, paths=('compiled', 'scipy', 'slow', 'public')):
    """Returns (key, message) for the first violated part of the property, else None."""
    S = su()
    from scipy.interpolate import BSpline
    nb = len(knots) - k - 1
    n = len(x)
    ref = dense_ref(x, knots, k)
    mats = {}
    if 'compiled' in paths:
        mats['compiled'] = S._make_design_matrix(x, knots, k)
    if 'scipy' in paths and hasattr(BSpline, 'design_matrix'):
        mats['scipy'] = BSpline.design_matrix(x, knots, k)
    if 'slow' in paths:
        mats['slow'] = S._slow_design_matrix(x, knots, k)
    for name, B in mats.items():
        if B.shape != (n, nb):
            return f'basis:{name}:shape', f'{name}: shape {B.shape} instead of {(n, nb)}'
        A = B.toarray()
        if not np.all(np.isfinite(A)):
            return f'basis:{name}:nonfinite', f'{name}: non-finite entry'
        tol = 0.0 if name == 'compiled' else 1e-13
        if A.min() < -tol:
            return f'basis:{name}:negative', f'{name}: negative entry {A.min()}'
        rs = A.sum(axis=1)
        if np.abs(rs - 1).max() > 1e-11:
            i = int(np.argmax(np.abs(rs - 1)))
            return f'basis:{name}:rowsum', f'{name}: row {i} (x={x[i]!r}) sums to {rs[i]!r}'
        for i in range(n):
            nz = np.flatnonzero(A[i] > 1e-300)
            if len(nz) and nz[-1] - nz[0] > k:
                return f'basis:{name}:support', f'{name}: row {i} has non-zeros spread over columns {nz[0]}..{nz[-1]} (> degree+1)'
        if np.abs(A - ref).max() > 1e-11:
            i, j = np.unravel_index(int(np.argmax(np.abs(A - ref))), A.shape)
            return f'basis:{name}:vs-scipy', (f'{name}: entry ({i},{j}) = {A[i, j]!r} but scipy BSpline gives {ref[i, j]!r} '
                                              f'(x={x[i]!r})')
    if 'compiled' in mats:
        B = mats['compiled'].tocsr()
        if len(B.data) != n * (k + 1) or not np.array_equal(B.indptr, np.arange(n + 1) * (k + 1)):
            return 'basis:compiled:csr-layout', 'compiled: CSR data does not hold degree+1 entries per row'
        idx = B.indices.reshape(n, k + 1)
        if np.any(np.diff(idx, axis=1) != 1) or idx.min() < 0 or idx.max() >= nb:
            return 'basis:compiled:csr-columns', 'compiled: CSR column indices are not degree+1 consecutive columns inside the matrix'
        for other in ('scipy', 'slow'):
            if other in mats and np.abs(mats[other].toarray() - B.toarray()).max() > 1e-11:
                return f'basis:compiled-vs-{other}', f'compiled and {other} construction paths differ'
    return None


def slow_unsorted_probe(x, nk, k):
    """_slow_design_matrix (the construction path without numba and SciPy < 1.8) on an x that does not start with
    its minimum / end with its maximum, as utils.pspline_smooth(data, x_data) may pass."""
    S = su()
    knots = S._spline_knots(x, nk, k, True)
    A = S._slow_design_matrix(x, knots, k).toarray()
    ref = dense_ref(x, knots, k)
    if np.abs(A - ref).max() > 1e-11:
        i, j = np.unravel_index(int(np.argmax(np.abs(A - ref))), A.shape)
        return (f'_slow_design_matrix on unsorted x: entry ({i},{j}) = {A[i, j]!r} but the B-spline basis value is {ref[i, j]!r}; '
                f'row {i} sums to {A[i].sum()!r}')
    return None


def lower_to_dense(ab, nbs):
    A = np.zeros((nbs, nbs))
    for d in range(ab.shape[0]):
        for c in range(nbs - d):
            A[c + d, c] = ab[d, c]
            A[c, c + d] = ab[d, c]
        if np.any(ab[d, nbs - d:] != 0):
            return None
    return A


def full_to_dense(ab, nbs):
    u = ab.shape[0] // 2
    A = np.zeros((nbs, nbs))
    for r in range(ab.shape[0]):
        for j in range(nbs):
            i = j + r - u
            if 0 <= i < nbs:
                A[i, j] = ab[r, j]
            elif ab[r, j] != 0:
                return None
    return A


def check_normal_equations(x, nk, k, y, w, lam, diff_order, allow_lower, use_numba, penalty_mode='own', views=False,
                           history=False):
    """Captures the left- and right-hand side PSpline.solve_pspline hands to the solver (the solver entry point of the object is
    wrapped) and compares them with the explicit dense B'WB + lam D'D and B'Wy.  All tolerances are RELATIVE to the largest
    entry of the reference (no absolute floor): weights of any magnitude must give the same relative accuracy.
    penalty_mode 'zero' passes an all-zero penalty array, so that the captured matrix must be B'WB itself."""
    S = su()
    basis = S.SplineBasis(x, nk, k)
    ps = S.PSpline(basis, lam=lam, diff_order=diff_order, allow_lower=allow_lower)
    if history:
        # a rejected call in the object's history must not change what later calls assemble
        try:
            ps.reset_penalty_diagonals(lam=-1.0, diff_order=diff_order, allow_lower=allow_lower)
        except ValueError:
            pass
        try:
            S.PSpline(basis, lam=lam, diff_order=basis._num_bases + 1)
        except ValueError:
            pass
    if use_numba and not ps._use_numba:
        return 'btb:numba-path-disabled', 'PSpline does not use the compiled B\'WB path although numba is available'
    ps._use_numba = bool(use_numba)
    got = {}

    def capture(lhs, rhs, *a, **kw):
        got['lhs'] = np.array(lhs, dtype=float, copy=True)
        got['rhs'] = np.array(rhs, dtype=float, copy=True)
        return np.zeros(len(rhs))

    ps.solve = capture
    yv, wv = y, w
    if views:
        # same values through non-contiguous / negatively strided views
        yv = y[::-1].copy()[::-1]
        wv = np.repeat(w, 2)[::2]
    pen = None if penalty_mode == 'own' else np.zeros_like(ps.penalty)
    with warnings.catch_warnings():
        warnings.simplefilter('ignore')
        ps.solve_pspline(yv, wv, penalty=pen)
    nbs = basis._num_bases
    B = basis.basis.toarray()
    D = np.diff(np.eye(nbs), diff_order, axis=0)
    ref_btwb = B.T @ (w[:, None] * B)
    ref_lhs = ref_btwb + (lam * (D.T @ D) if penalty_mode == 'own' else 0.0)
    ref_rhs = B.T @ (w * y)
    lhs = got['lhs']
    path = 'numba' if use_numba else 'sparse'
    if lhs.ndim != 2 or lhs.shape[1] != nbs:
        return f'btb:{path}:shape', f'{path}: left-hand side has shape {lhs.shape}'
    A = lower_to_dense(lhs, nbs) if ps.lower else full_to_dense(lhs, nbs)
    if A is None:
        return f'btb:{path}:corner', f'{path}: non-zero entries in the unused corners of the banded left-hand side'
    tol = 1e-9 * np.abs(ref_lhs).max()
    if not np.all(np.isfinite(A)) or np.abs(A - ref_lhs).max() > tol:
        i, j = np.unravel_index(int(np.nanargmax(np.abs(A - ref_lhs))), A.shape)
        what = 'B\'WB + penalty' if penalty_mode == 'own' else 'B\'WB (zero penalty passed)'
        return f'btb:{path}:lhs', (f'{path}: banded {what} handed to the solver has entry ({i},{j}) = {A[i, j]!r} but the explicit '
                                   f'product gives {ref_lhs[i, j]!r} (relative to the largest entry {np.abs(ref_lhs).max()!r}; '
                                   f'weights max {np.abs(w).max()!r})')
    if got['rhs'].shape != ref_rhs.shape or np.abs(got['rhs'] - ref_rhs).max() > 1e-9 * np.abs(w * y).max():
        return f'btb:{path}:rhs', f'{path}: B\'Wy differs from the explicit product'
    return None


LHS_SCALES = [1e-300, 1e-200, 1e-100, 1e-30, 1e-20, 1e-16, 1e-12, 1e-8, 1e-4, 1.0, 1e4, 1e8, 1e12, 1e16, 1e30, 1e100, 1e200, 1e290]


def oracle_lhs_grid(ctx):
    """FIXED, enumerated grid (not drawn): weight magnitude x assembly path x band layout x own/zero penalty on two fixed
    problems; lam follows the weight magnitude so that the exact answer is the ordinary scale-invariant fit."""
    problems = [
        (np.linspace(0.0, 10.0, 25), 6, 3, 2),
        (np.concatenate((np.linspace(1.0, 4.0, 7), [2.5, 2.5, 3.25], [4.0])), 5, 2, 1),      # unsorted, on knots, repeated
    ]
    for pi, (x, nk, k, d) in enumerate(problems):
        n = len(x)
        base_w = 0.2 + 0.8 * np.abs(np.sin(1.0 + np.arange(n)))
        base_w[::5] = 0.0
        y = np.cos(np.arange(n) * 0.7) + 0.1 * np.arange(n)
        for sc in LHS_SCALES:
            w = base_w * sc
            lam = 4.0 * sc
            for use_numba in (True, False):
                for allow_lower in (True, False):
                    for mode in ('own', 'zero'):
                        case = {'kind': 'btb', 'x': x.tolist(), 'num_knots': nk, 'degree': k, 'y': y.tolist(), 'weights': w.tolist(),
                                'lam': lam, 'diff_order': d, 'allow_lower': allow_lower, 'use_numba': use_numba,
                                'penalty_mode': mode, 'views': False, 'history': False}
                        ctx.case(('lhs-grid', pi, sc, use_numba, allow_lower, mode), nontrivial=True,
                                 kind=f'oracle-lhs-grid:{"numba" if use_numba else "sparse"}:{"lower" if allow_lower else "full"}:{mode}')
                        try:
                            err = check_normal_equations(x, nk, k, y, w, lam, d, allow_lower, use_numba, mode)
                        except Exception as exc:  # noqa
                            err = (f'btb:{"numba" if use_numba else "sparse"}:exception:{type(exc).__name__}',
                                   f'solve_pspline raised {type(exc).__name__}: {exc}')
                        if err:
                            ctx.fail(err[0], err[1] + f' [fixed grid: weight scale {sc:g}, lam {lam:g}, num_knots {nk}, degree {k}, '
                                     f'diff_order {d}, allow_lower {allow_lower}, penalty {mode}; knots = _spline_knots(x, {nk}, {k})]', case)


def oracle(ctx, budget):
    S = su()
    rng = np.random.default_rng(ctx.seed + 1212)
    # (1) basis: construction paths vs each other and vs SciPy
    for c in range(70 * budget):
        if c % 7 == 6:
            k, x, knots = gen_raw_knots(rng, c)
            # the SciPy paths need the usual knot conditions; keep strictly increasing interior for them
            kind, nk = 'raw-knots', 0
            nb = len(knots) - k - 1
            if np.any(np.diff(knots[k:nb + 1]) <= 0):
                continue
            paths = ('compiled', 'scipy')
        else:
            k, nk, kind, x, knots = gen_config(rng, c, small=(c % 5 != 0))
            paths = ('compiled', 'scipy', 'slow')
        case = {'kind': 'basis', 'degree': k, 'x': x.tolist(), 'knots': knots.tolist(), 'paths': list(paths)}
        ctx.case(('basis', k, kind, x.tobytes(), knots.tobytes()), nontrivial=len(x) >= 2, kind=f'oracle-basis:{kind}')
        try:
            with warnings.catch_warnings():
                warnings.simplefilter('ignore')
                err = check_basis(x, knots, k, paths)
        except Exception as exc:  # noqa
            err = (f'basis:exception:{type(exc).__name__}', f'construction raised {type(exc).__name__}: {exc}')
        if err:
            ctx.fail(err[0], err[1] + f' [degree {k}, {len(knots)} knots, x kind {kind}]', case)
        # exact Cox-de Boor reference on small inputs (independent of SciPy)
        if c % 10 == 0 and len(x) <= 12 and len(knots) <= 40:
            A = S._make_design_matrix(x, knots, k).toarray()
            R = cox_de_boor_ref(x, knots, k)
            if np.abs(A - R).max() > 1e-12:
                ctx.fail('basis:compiled:vs-cox-de-boor', 'compiled design matrix differs from the exact Cox-de Boor recursion', case)
        # the public object
        if nk:
            sb = S.SplineBasis(x, nk, k)
            if not np.array_equal(sb.knots, knots) or np.abs(sb.basis.toarray() - dense_ref(x, knots, k)).max() > 1e-11:
                ctx.fail('basis:public:vs-scipy', 'SplineBasis.basis differs from the SciPy reference', case)
    # (1b) the slow fallback on unsorted x (defect repaired in /repo 63ba56d; fixed witness + random ones keep a reversal visible)
    probes = [(np.array([2.5, 0.0, 5.0]), 3, 2)]
    for c in range(6 * budget):
        k = int(rng.integers(1, 6))
        nk = int(rng.integers(2, 12))
        lo, hi = gen_range(rng)
        probes.append((gen_x(rng, 'unsorted', int(rng.integers(3, 20)), nk, lo, hi), nk, k))
    for x, nk, k in probes:
        ctx.case(('slow-unsorted', k, nk, x.tobytes()), nontrivial=True, kind='oracle-basis:slow-unsorted')
        with warnings.catch_warnings():
            warnings.simplefilter('ignore')
            msg = slow_unsorted_probe(x, nk, k)
        if msg:
            ctx.fail('basis:slow:unsorted-x', msg + f' [degree {k}, num_knots {nk}]',
                     {'kind': 'slow-unsorted', 'x': x.tolist(), 'num_knots': nk, 'degree': k})
    # (2) normal equations through PSpline.solve_pspline: numba path and sparse fallback
    # fixed witness of the all-zero-weights defect of the sparse fallback (repaired in /repo 6222771; replayed on every run)
    xw = np.linspace(0.0, 10.0, 20)
    casew = {'kind': 'btb', 'x': xw.tolist(), 'num_knots': 5, 'degree': 3, 'y': np.sin(xw).tolist(), 'weights': [0.0] * 20,
             'lam': 1.0, 'diff_order': 2, 'allow_lower': True, 'use_numba': False}
    ctx.case(('btb-witness',), nontrivial=True, kind='oracle-btb:sparse:w2:witness')
    try:
        errw = check_normal_equations(xw, 5, 3, np.sin(xw), np.zeros(20), 1.0, 2, True, False)
        if errw:
            ctx.fail(errw[0], errw[1], casew)
    except ValueError as exc:
        ctx.fail('btb:sparse:all-zero-weights', f'sparse fallback of PSpline.solve_pspline with an all-zero weight vector raises '
                 f'ValueError ({exc}) in _sparse_to_banded instead of assembling B\'WB = 0 [degree 3, num_knots 5, N 20]', casew)
    for c in range(60 * budget):
        k = int(rng.integers(0, 7))
        nk = int(rng.choice([2, 3, 4, 6, 10, 25, 60, 200]))
        nbs = nk + k - 1
        diff_order = int(rng.integers(1, min(4, nbs - 1) + 1)) if nbs > 1 else 1
        if diff_order >= nbs:
            continue
        lo, hi = gen_range(rng, False, nk)
        kind = X_KINDS[c % len(X_KINDS)]
        n = int(rng.integers(2, 60)) if c % 3 else int(rng.integers(2, max(3, nbs)))   # also N < number of bases
        x = np.sort(gen_x(rng, kind, n, nk, lo, hi))
        n = len(x)
        y = rng.normal(0, 1, n)
        wk = c % 4
        w = rng.random(n) + 0.01
        if wk == 1:
            w[rng.random(n) < 0.6] = 0.0
        elif wk == 2:
            w[:] = 0.0
        elif wk == 3:
            w[n // 3:] = 0.0      # whole basis functions without data
        lam = float(10.0 ** rng.integers(-2, 4))
        if c % 2:
            # overall magnitude of the weights anywhere in 1e-30 .. 1e30 (sometimes 1e-250 .. 1e250); lam follows it
            e = int(rng.integers(-30, 31)) if c % 8 != 1 else int(rng.integers(-250, 251))
            w = w * 10.0 ** e
            lam = lam * 10.0 ** e
            y = y * float(10.0 ** rng.integers(-20, 21))
        mode = 'zero' if c % 3 == 0 else 'own'
        views = (c % 5 == 0)
        history = (c % 4 == 0)
        for use_numba in (True, False):
            for allow_lower in (True, False):
                case = {'kind': 'btb', 'x': x.tolist(), 'num_knots': nk, 'degree': k, 'y': y.tolist(), 'weights': w.tolist(),
                        'lam': lam, 'diff_order': diff_order, 'allow_lower': allow_lower, 'use_numba': use_numba,
                        'penalty_mode': mode, 'views': views, 'history': history}
                ctx.case(('btb', k, nk, kind, wk, x.tobytes(), use_numba, allow_lower), nontrivial=True,
                         kind=f'oracle-btb:{"numba" if use_numba else "sparse"}:w{wk}:{"N<bases" if n < nbs else "N>=bases"}')
                try:
                    err = check_normal_equations(x, nk, k, y, w, lam, diff_order, allow_lower, use_numba, mode, views, history)
                except Exception as exc:  # noqa
                    path = 'numba' if use_numba else 'sparse'
                    if not use_numba and not np.any(w) and isinstance(exc, ValueError):
                        err = ('btb:sparse:all-zero-weights', f'sparse fallback of PSpline.solve_pspline with an all-zero weight '
                               f'vector raises ValueError ({exc}) in _sparse_to_banded instead of assembling B\'WB = 0')
                    else:
                        err = (f'btb:{path}:exception:{type(exc).__name__}', f'solve_pspline raised {type(exc).__name__}: {exc}')
                if err:
                    ctx.fail(err[0], err[1] + f' [degree {k}, num_knots {nk}, N {n}, diff_order {diff_order}, '
                             f'allow_lower {allow_lower}, weights kind {wk}]', case)


# ------------------------------------------------------------------------------ 2-D basis construction
XZ_FAMILIES = ['identical', 'rel-close', 'abs-close', 'offset', 'different-length', 'z-unsorted', 'x-unsorted', 'independent']


def gen_xz(rng, fam):
    """Two axes for SplineBasis2D.  The close families are inside np.allclose's default tolerance (rtol 1e-5, atol 1e-8) but
    not identical: any shortcut that reuses the row basis for the columns must show up."""
    n = int(rng.integers(4, 26))
    c = rng.random()
    if c < 0.4:
        lo = float(rng.choice([1000.0, 3000.0, 1.0, 250.0]))
        x = np.linspace(lo, lo + float(rng.choice([100.0, 10.0, 1.0, 300.0])), n)
    else:
        lo, hi = gen_range(rng, False, 8)
        x = np.sort(gen_x(rng, 'uniform', n, 8, lo, hi))
    span = x[-1] - x[0]
    if fam == 'identical':
        z = x.copy()
    elif fam == 'rel-close':
        rel = 10.0 ** rng.uniform(-6, -4.05) * 0.9
        z = x * (1 + rel * np.sin(np.arange(n) * float(rng.uniform(0.3, 2.0))))
        z = np.sort(z)
    elif fam == 'abs-close':
        z = np.sort(x + float(rng.uniform(0.05, 0.9)) * 1e-5 * np.abs(x) * rng.uniform(-1, 1, n))
        if rng.random() < 0.5:
            z = x + 0.5e-5 * abs(x[0])      # a constant shift smaller than rtol * |x|
    elif fam == 'offset':
        z = x + span * float(rng.uniform(0.01, 2.0))
    elif fam == 'different-length':
        m = int(rng.integers(3, 26))
        z = np.linspace(x[0], x[-1], m) if rng.random() < 0.5 else np.sort(rng.uniform(x[0], x[-1] + span, m))
    elif fam == 'z-unsorted':
        z = rng.permutation(x * (1 + 3e-6) if rng.random() < 0.5 else x)
    elif fam == 'x-unsorted':
        z = x * (1 - 2e-6)
        x = rng.permutation(x)
    else:
        lo, hi = gen_range(rng, False, 8)
        z = np.sort(gen_x(rng, 'onknot', int(rng.integers(3, 26)), int(rng.integers(2, 9)), lo, hi))
    return x, z


def gen_2d(rng, c):
    fam = XZ_FAMILIES[c % len(XZ_FAMILIES)]
    x, z = gen_xz(rng, fam)
    same = (c // len(XZ_FAMILIES)) % 3 != 2       # mostly the SAME num_knots and degree in both dimensions
    if same:
        nk = int(rng.integers(2, 13))
        k = int(rng.integers(0, 5))
        nks, ks = (nk, nk), (k, k)
    else:
        nks = (int(rng.integers(2, 13)), int(rng.integers(2, 13)))
        ks = (int(rng.integers(0, 5)), int(rng.integers(0, 5)))
    return fam, x, z, nks, ks


def face_split_ref(B):
    """row i of the face-splitting product = kron(B[i], B[i])"""
    n, p = B.shape
    return (B[:, :, None] * B[:, None, :]).reshape(n, p * p)


def check_basis_2d(x, z, nks, ks, scalar_args=False):
    """SplineBasis2D: each side must be the 1-D B-spline basis of ITS OWN axis; returns (key, message) or None."""
    S = su()
    from pybaselines.two_d._spline_utils import SplineBasis2D
    if scalar_args:
        sb = SplineBasis2D(x, z, nks[0], ks[0])
    else:
        sb = SplineBasis2D(x, z, nks, ks)
    for side, ax, nk, k, knots, B, G in (('r', x, nks[0], ks[0], sb.knots_r, sb.basis_r, sb._G_r),
                                         ('c', z, nks[1], ks[1], sb.knots_c, sb.basis_c, sb._G_c)):
        ref_knots = S._spline_knots(ax, nk, k, True)
        if knots.shape != ref_knots.shape or not np.array_equal(knots, ref_knots):
            return f'basis2d:knots_{side}', f'knots_{side} are not the knots of the {"x" if side == "r" else "z"} axis (_spline_knots)'
        nb = len(ref_knots) - k - 1
        if B.shape != (len(ax), nb):
            return f'basis2d:basis_{side}:shape', f'basis_{side} has shape {B.shape} instead of {(len(ax), nb)}'
        A = B.toarray()
        ref = dense_ref(ax, ref_knots, k)
        if np.abs(A - ref).max() > 1e-11:
            i, j = np.unravel_index(int(np.argmax(np.abs(A - ref))), A.shape)
            return f'basis2d:basis_{side}:vs-scipy', (f'basis_{side} entry ({i},{j}) = {A[i, j]!r} but the B-spline basis of its own axis '
                                                      f'(SciPy reference) gives {ref[i, j]!r}')
        if len(ax) <= 12 and len(ref_knots) <= 24:
            R = cox_de_boor_ref(ax, ref_knots, k)
            if np.abs(A - R).max() > 1e-12:
                return f'basis2d:basis_{side}:vs-cox-de-boor', f'basis_{side} differs from the exact Cox-de Boor recursion on its own axis'
        if np.abs(A.sum(axis=1) - 1).max() > 1e-11 or A.min() < 0:
            return f'basis2d:basis_{side}:rowsum', f'basis_{side} rows do not sum to one / negative entry'
        Gd = G.toarray() if hasattr(G, 'toarray') else np.asarray(G)
        Gref = face_split_ref(A)
        if Gd.shape != Gref.shape or np.abs(Gd - Gref).max() > 1e-14:
            return f'basis2d:G_{side}', f'_G_{side} is not the face-splitting product of basis_{side}'
    if tuple(sb._num_bases) != (sb.basis_r.shape[1], sb.basis_c.shape[1]):
        return 'basis2d:num_bases', '_num_bases does not match the two bases'
    Ar, Ac = sb.basis_r.toarray(), sb.basis_c.toarray()
    if Ar.size * Ac.size <= 400000:
        full = sb.basis.toarray()
        ref_full = np.kron(dense_ref(x, sb.knots_r, ks[0]), dense_ref(z, sb.knots_c, ks[1]))
        if full.shape != ref_full.shape or np.abs(full - ref_full).max() > 1e-11:
            return 'basis2d:full', 'the full basis is not the Kronecker product of the reference bases of x and z'
        pq = Ar.shape[1] * Ac.shape[1]
        if pq <= 120:
            W = np.random.default_rng(len(x) * 1000 + len(z)).random((len(x), len(z)))
            W[W < 0.3] = 0.0
            F = sb._make_btwb(W)
            F = F.toarray() if hasattr(F, 'toarray') else np.asarray(F)
            ref_F = ref_full.T @ (W.ravel()[:, None] * ref_full)
            if F.shape != ref_F.shape or np.abs(F - ref_F).max() > 1e-9 * max(1.0, np.abs(ref_F).max()):
                return 'basis2d:btwb', '_make_btwb differs from (B_r kron B_c)\' W (B_r kron B_c) built from the reference bases'
    return None


def pin_init_2d(ctx):
    """Fail-closed pin of the statement shapes of SplineBasis2D.__init__: no branching, each side built by its own
    _spline_knots / _spline_basis / _face_splitting call on its own axis."""
    import ast
    import os
    from .common import REPO
    ob = 'pin:SplineBasis2D.__init__(no-branches,two-independent-sides)'
    ctx.obligations.append(ob)
    try:
        tree = ast.parse(open(os.path.join(REPO, 'pybaselines', 'two_d', '_spline_utils.py')).read())
        cls = [n for n in tree.body if isinstance(n, ast.ClassDef) and n.name == 'SplineBasis2D'][0]
        fn = [n for n in cls.body if isinstance(n, ast.FunctionDef) and n.name == '__init__'][0]
        bad = [type(n).__name__ for n in ast.walk(fn)
               if isinstance(n, (ast.If, ast.IfExp, ast.Try, ast.While, ast.For, ast.Match, ast.BoolOp, ast.With))]
        if bad:
            raise ValueError(f'control flow in __init__: {sorted(set(bad))}')
        calls = {}
        for n in ast.walk(fn):
            if isinstance(n, ast.Call) and isinstance(n.func, ast.Name) and n.func.id in ('_spline_knots', '_spline_basis', '_face_splitting'):
                calls.setdefault(n.func.id, []).append(ast.unparse(n.args[0]))
        want = {'_spline_knots': ['self.x', 'self.z'], '_spline_basis': ['self.x', 'self.z'],
                '_face_splitting': ['self.basis_r', 'self.basis_c']}
        if calls != want:
            raise ValueError(f'constructor calls {calls} instead of {want}')
        targets = [ast.unparse(t) for n in ast.walk(fn) if isinstance(n, ast.Assign) for t in n.targets]
        for name in ('self.knots_r', 'self.knots_c', 'self.basis_r', 'self.basis_c', 'self._G_r', 'self._G_c'):
            if targets.count(name) != 1:
                raise ValueError(f'{name} assigned {targets.count(name)} times')
        ctx.discharged.append(ob)
    except Exception as exc:  # noqa
        ctx.broke(ob, f'SplineBasis2D.__init__ no longer has the pinned shape: {exc}')


OK_ROWS = """
Definition ok (c : nat * list float * list float * list float * list nat * list nat) : bool :=
  let '(k, x, knots, d, r, ci) := c in
  let '(d', r', c') := make_design_matrix Num_F x knots k in
  fl_eqb d d' && nl_eqb r r' && nl_eqb ci c'.
Eval vm_compute in (bad ok cases).
"""


def correspondence_2d(ctx):
    """Bit-exact: the CSR rows of SplineBasis2D.basis_r / basis_c against the binary64 model of __make_design_matrix
    evaluated on the x resp. z THE CALLER PASSED and on knots computed from that axis by the 1-D _spline_knots."""
    S = su()
    from pybaselines.two_d._spline_utils import SplineBasis2D
    rng = np.random.default_rng(ctx.seed + 2012)
    lits, metas = [], []
    for c in range(ctx.n(48, 320)):
        fam, x, z, nks, ks = gen_2d(rng, c)
        case = {'kind': 'basis2d', 'x': x.tolist(), 'z': z.tolist(), 'num_knots': list(nks), 'degree': list(ks), 'family': fam}
        try:
            sb = SplineBasis2D(x, z, nks, ks)
        except Exception as exc:  # noqa
            ctx.fail('basis2d:exception', f'SplineBasis2D raised {type(exc).__name__}: {exc}', case)
            continue
        for side, ax, nk, k, B in (('r', x, nks[0], ks[0], sb.basis_r), ('c', z, nks[1], ks[1], sb.basis_c)):
            knots = S._spline_knots(ax, nk, k, True)
            B = B.tocsr()
            rows = np.repeat(np.arange(B.shape[0]), np.diff(B.indptr))
            lits.append(f'({k}, {fl(ax)}, {fl(knots)}, {fl(B.data)}, {nl(rows)}, {nl(B.indices)})')
            metas.append(case)
        ctx.case(('basis2d', fam, x.tobytes(), z.tobytes(), nks, ks), nontrivial=not np.array_equal(x, z),
                 kind=f'basis2d-corr:{fam}:{"same" if nks[0] == nks[1] and ks[0] == ks[1] else "different"}-config')
    return run_cases(ctx, 'rows2d', 'nat * list float * list float * list float * list nat * list nat', lits, OK_ROWS, 100,
                     'correspondence:SplineBasis2D.basis_r/basis_c-rows-bit-exact-vs-model-on-own-axis',
                     'SplineBasis2D basis_r / basis_c', lambda i: metas[i])


def oracle_2d(ctx, budget):
    rng = np.random.default_rng(ctx.seed + 2121)
    # fixed witnesses: axes inside np.allclose's tolerance but not identical
    xw = np.linspace(1000.0, 1100.0, 40)
    fixed = [(xw, xw + 0.009 * np.sin(np.arange(40.0)), (8, 8), (3, 3)),
             (np.linspace(3000.0, 3010.0, 25), np.linspace(3000.0, 3010.0, 25) + 0.02, (6, 6), (2, 2))]
    cases = [('fixed-close', x, z, nks, ks) for x, z, nks, ks in fixed]
    for c in range(48 * budget):
        cases.append(gen_2d(rng, c))
    for i, (fam, x, z, nks, ks) in enumerate(cases):
        scalar = (nks[0] == nks[1] and ks[0] == ks[1] and i % 2 == 0)      # also the scalar form of the arguments (defaults path)
        case = {'kind': 'basis2d', 'x': x.tolist(), 'z': z.tolist(), 'num_knots': list(nks), 'degree': list(ks), 'family': fam,
                'scalar_args': scalar}
        ctx.case(('basis2d-oracle', fam, x.tobytes(), z.tobytes(), nks, ks), nontrivial=not np.array_equal(x, z),
                 kind=f'oracle-basis2d:{fam}')
        try:
            with warnings.catch_warnings():
                warnings.simplefilter('ignore')
                err = check_basis_2d(x, z, nks, ks, scalar)
        except Exception as exc:  # noqa
            err = (f'basis2d:exception:{type(exc).__name__}', f'SplineBasis2D raised {type(exc).__name__}: {exc}')
        if err:
            ctx.fail(err[0], err[1] + f' [family {fam}, num_knots {nks}, degree {ks}, N {len(x)}, M {len(z)}]', case)


# ------------------------------------------------------------------------------ 2-D normal equations (B'WB, B'Wy)
W2D_FAMILIES = ['ones', 'const-half', 'const-small', 'const-big', 'const-zero', 'const-random', 'near-const', 'one-off',
                'separable', 'row-const', 'mask', 'random', 'random-zeros', 'decades']


def gen_w2d(rng, fam, shape):
    """Weight matrices for the 2-D system.  Constant-but-not-one, exactly-zero, nearly-constant and constant-except-one-entry
    families sit next to the ordinary ones: nothing in the assembly may depend on the weights *looking* uniform."""
    if fam == 'ones':
        return np.ones(shape)
    if fam == 'const-half':
        return np.full(shape, 0.5)
    if fam == 'const-small':
        return np.full(shape, 1e-3)
    if fam == 'const-big':
        return np.full(shape, 7.0)
    if fam == 'const-zero':
        return np.zeros(shape)
    if fam == 'const-random':
        return np.full(shape, float(10.0 ** rng.uniform(-6, 6)) * float(rng.choice([1.0, 1.0, -1.0])))
    if fam == 'near-const':
        c = float(rng.choice([1.0, 0.5, 3.0]))
        return c * (1 + float(10.0 ** rng.integers(-14, -5)) * rng.uniform(-1, 1, shape))
    if fam == 'one-off':
        w = np.full(shape, float(rng.choice([1.0, 0.25, 2.0])))
        w[int(rng.integers(shape[0])), int(rng.integers(shape[1]))] *= float(rng.choice([0.0, 0.5, 1 + 1e-9, 10.0]))
        return w
    if fam == 'separable':
        return np.outer(rng.random(shape[0]) + 0.1, rng.random(shape[1]) + 0.1)
    if fam == 'row-const':
        return np.repeat((rng.random(shape[0]) + 0.1)[:, None], shape[1], axis=1)
    if fam == 'mask':
        return (rng.random(shape) < 0.6).astype(float)
    if fam == 'random-zeros':
        w = rng.random(shape)
        w[rng.random(shape) < 0.4] = 0.0
        return w
    if fam == 'decades':
        return rng.random(shape) * 10.0 ** rng.integers(-6, 7, shape)
    return rng.random(shape) + 0.01


def check_btwb_2d(x, z, nks, ks, W, y, lam=(1.0, 1.0), diff_order=(2, 2)):
    """SplineBasis2D._make_btwb(W) and the system PSpline2D.solve hands to spsolve, against the explicit dense
    (B_r kron B_c)' diag(vec W) (B_r kron B_c) (+ penalty) and (B_r kron B_c)' (W o y), with the reference bases of x and z."""
    from pybaselines.two_d import _spline_utils as S2
    sb = S2.SplineBasis2D(x, z, nks, ks)
    Br = dense_ref(x, sb.knots_r, ks[0])
    Bc = dense_ref(z, sb.knots_c, ks[1])
    B = np.kron(Br, Bc)
    ref_F = B.T @ (W.ravel()[:, None] * B)
    scale = max(1.0, np.abs(ref_F).max(), np.abs(B.T @ B).max() * 1e-3)
    F = sb._make_btwb(W)
    F = F.toarray() if hasattr(F, 'toarray') else np.asarray(F)
    if F.shape != ref_F.shape:
        return 'btwb2d:shape', f'_make_btwb returned shape {F.shape} instead of {ref_F.shape}'
    if np.abs(F - ref_F).max() > 1e-9 * scale:
        i, j = np.unravel_index(int(np.argmax(np.abs(F - ref_F))), F.shape)
        return 'btwb2d:btwb', (f'SplineBasis2D._make_btwb entry ({i},{j}) = {F[i, j]!r} but (B_r kron B_c)\' W (B_r kron B_c) = '
                               f'{ref_F[i, j]!r} (weights min {W.min()!r} max {W.max()!r})')
    P, Q = Br.shape[1], Bc.shape[1]
    d0, d1 = min(diff_order[0], P - 1), min(diff_order[1], Q - 1)
    if d0 < 1 or d1 < 1:
        return None
    ps = S2.PSpline2D(sb, lam=lam, diff_order=(d0, d1))
    got = {}
    real = S2.spsolve

    def capture(lhs, rhs, *a, **kw):
        got['lhs'] = lhs.toarray() if hasattr(lhs, 'toarray') else np.array(lhs, dtype=float)
        got['rhs'] = np.array(rhs, dtype=float).ravel()
        return np.zeros(len(got['rhs']))

    S2.spsolve = capture
    try:
        with warnings.catch_warnings():
            warnings.simplefilter('ignore')
            ps.solve(y, W)
    finally:
        S2.spsolve = real
    Dr = np.diff(np.eye(P), d0, axis=0)
    Dc = np.diff(np.eye(Q), d1, axis=0)
    pen = lam[0] * np.kron(Dr.T @ Dr, np.eye(Q)) + lam[1] * np.kron(np.eye(P), Dc.T @ Dc)
    ref_lhs = ref_F + pen
    ref_rhs = B.T @ (W * y).ravel()
    sc = max(1.0, np.abs(ref_lhs).max())
    if got['lhs'].shape != ref_lhs.shape or np.abs(got['lhs'] - ref_lhs).max() > 1e-9 * sc:
        return 'btwb2d:solve-lhs', ('PSpline2D.solve: the matrix handed to the solver differs from B\'WB + penalty built explicitly '
                                    f'(max abs difference {np.abs(got["lhs"] - ref_lhs).max() if got["lhs"].shape == ref_lhs.shape else "shape"})')
    if got['rhs'].shape != ref_rhs.shape or np.abs(got['rhs'] - ref_rhs).max() > 1e-9 * max(1.0, np.abs(ref_rhs).max()):
        return 'btwb2d:solve-rhs', 'PSpline2D.solve: the right-hand side differs from B\'Wy built explicitly'
    return None


def oracle_btwb_2d(ctx, budget):
    rng = np.random.default_rng(ctx.seed + 2525)
    n = 42 * budget
    for c in range(n):
        fam, x, z, nks, ks = gen_2d(rng, c * 3 + 1)
        # keep the dense Kronecker reference small
        x, z = x[:14], z[:12]
        if len(x) < 2 or len(z) < 2 or x.min() == x.max() or z.min() == z.max():
            continue
        nks = (min(nks[0], 6), min(nks[1], 5))
        ks = (min(ks[0], 3), min(ks[1], 3))
        wf = W2D_FAMILIES[c % len(W2D_FAMILIES)]
        W = gen_w2d(rng, wf, (len(x), len(z)))
        y = rng.normal(0, 1, (len(x), len(z)))
        lam = (float(10.0 ** rng.integers(-2, 3)), float(10.0 ** rng.integers(-2, 3)))
        case = {'kind': 'btwb2d', 'x': x.tolist(), 'z': z.tolist(), 'num_knots': list(nks), 'degree': list(ks),
                'weights': W.tolist(), 'y': y.tolist(), 'lam': list(lam), 'weight_family': wf}
        ctx.case(('btwb2d', wf, x.tobytes(), z.tobytes(), nks, ks, W.tobytes()), nontrivial=True, kind=f'oracle-btwb2d:{wf}')
        try:
            err = check_btwb_2d(x, z, nks, ks, W, y, lam)
        except Exception as exc:  # noqa
            err = (f'btwb2d:exception:{type(exc).__name__}', f'2-D normal equations raised {type(exc).__name__}: {exc}')
        if err:
            ctx.fail(err[0], err[1] + f' [weights {wf}, num_knots {nks}, degree {ks}, N {len(x)}, M {len(z)}, knots_r/knots_c = '
                     f'_spline_knots of x/z]', case)


# -- pins (fail-closed) of the 2-D assembly statements
def _fn(tree, cls, name):
    import ast
    body = tree.body
    if cls:
        body = [n for n in tree.body if isinstance(n, ast.ClassDef) and n.name == cls][0].body
    return [n for n in body if isinstance(n, ast.FunctionDef) and n.name == name][0]


def pin_btwb_2d(ctx):
    """_face_splitting, SplineBasis2D._make_btwb and PSpline2D.solve must have exactly the statement shapes that
    coq/C12/Btwb2D.v models: no extra branch, helper or name may take part in the assembly."""
    import ast
    import os
    from .common import REPO
    ob = 'pin:_face_splitting+SplineBasis2D._make_btwb+PSpline2D.solve(statement-shapes-of-the-modelled-assembly)'
    ctx.obligations.append(ob)
    flow = (ast.If, ast.IfExp, ast.BoolOp, ast.Compare, ast.Try, ast.While, ast.For, ast.With, ast.Match, ast.Lambda,
            ast.ListComp, ast.GeneratorExp, ast.DictComp, ast.SetComp)
    try:
        t1 = ast.parse(open(os.path.join(REPO, 'pybaselines', 'two_d', '_spline_utils.py')).read())
        t2 = ast.parse(open(os.path.join(REPO, 'pybaselines', 'two_d', '_whittaker_utils.py')).read())

        def stmts(fn):
            body = fn.body
            if body and isinstance(body[0], ast.Expr) and isinstance(getattr(body[0], 'value', None), ast.Constant):
                body = body[1:]
            return body

        # _face_splitting
        fs = _fn(t2, None, '_face_splitting')
        got = [ast.unparse(n) for n in stmts(fs)]
        want = ['ones = np.ones((1, basis.shape[1]))', 'return kron(basis, ones).multiply(kron(ones, basis))']
        if got != want:
            raise ValueError(f'_face_splitting body is {got}')
        # _make_btwb
        mb = _fn(t1, 'SplineBasis2D', '_make_btwb')
        body = stmts(mb)
        bad = sorted({type(n).__name__ for st in body for n in ast.walk(st) if isinstance(n, flow)})
        if bad:
            raise ValueError(f'control flow / comparison in _make_btwb: {bad}')
        names = {n.id for st in body for n in ast.walk(st) if isinstance(n, ast.Name)}
        if not names <= {'self', 'weights', 'np', 'csr_object', 'F'}:
            raise ValueError(f'_make_btwb uses unexpected names {sorted(names - {"self", "weights", "np", "csr_object", "F"})}')
        if [type(st).__name__ for st in body] != ['Assign', 'Return'] or ast.unparse(body[1]) != 'return F':
            raise ValueError(f'_make_btwb statements are {[ast.unparse(st)[:60] for st in body]}')
        want_expr = ("csr_object(np.transpose((self._G_r.T @ weights @ self._G_c).reshape((self._num_bases[0], self._num_bases[0], "
                     "self._num_bases[1], self._num_bases[1])), [0, 2, 1, 3]).reshape((np.prod(self._num_bases), "
                     "np.prod(self._num_bases))))")
        if ast.unparse(body[0].value) != want_expr:
            raise ValueError(f'_make_btwb expression is {ast.unparse(body[0].value)}')
        # PSpline2D.solve
        sv = _fn(t1, 'PSpline2D', 'solve')
        body = stmts(sv)
        tests = [ast.unparse(n.test) for st in body for n in ast.walk(st) if isinstance(n, (ast.If, ast.IfExp, ast.While))]
        if tests != ['penalty is None', 'rhs_extra is not None']:
            raise ValueError(f'PSpline2D.solve branches on {tests}')
        text = [ast.unparse(st) for st in body]
        for need in ('rhs = (self.basis.basis_r.T @ (weights * y) @ self.basis.basis_c).ravel()',
                     'self.coef = spsolve(self.basis._make_btwb(weights) + penalty, rhs)'):
            if need not in text:
                raise ValueError(f'PSpline2D.solve lacks the statement `{need}`')
        ctx.discharged.append(ob)
    except Exception as exc:  # noqa
        ctx.broke(ob, f'2-D assembly no longer has the pinned shape: {exc}')


HEADER_Z = """From Coq Require Import ZArith List Bool.
From PB Require Import lib.CaseUtil C12.Num C12.Btwb2D.
Import ListNotations.
Open Scope Z_scope.
"""

OK_BTWB2D = """
Definition ok (c : nat * nat * nat * nat * list (list Z) * list (list Z) * list (list Z) * list (list Z)) : bool :=
  let '(M, Nn, P, Q, Br, W, Bc, exp) := c in
  zll_eqb (tab2 (P * Q) (P * Q) (make_btwb Num_Z M Nn P Q (of_rows Br) (of_rows W) (of_rows Bc))) exp.
Eval vm_compute in (bad ok cases).
"""


def zrows(a):
    return '[' + '; '.join('[' + '; '.join(str(int(v)) if v >= 0 else f'({int(v)})' for v in r) + ']' for r in a) + ']'


def correspondence_btwb_2d(ctx):
    """Exact-integer tie of the Gallina model of _make_btwb (Z instance, evaluated inside Coq) to the real method, run on a
    SplineBasis2D object whose two bases are small integer matrices (every product and sum is then exact in binary64)."""
    from scipy import sparse
    from pybaselines.two_d import _spline_utils as S2
    from pybaselines.two_d._whittaker_utils import _face_splitting
    rng = np.random.default_rng(ctx.seed + 3131)
    ob = 'correspondence:SplineBasis2D._make_btwb-exact-integers-vs-model(all-weight-families)'
    lits, metas = [], []
    fams = ['ones', 'const-2', 'const-0', 'const-3', 'one-off', 'mask', 'random', 'separable', 'row-const', 'negative']
    for c in range(ctx.n(60, 400)):
        M, Nn = int(rng.integers(1, 6)), int(rng.integers(1, 6))
        P, Q = int(rng.integers(1, 5)), int(rng.integers(1, 5))
        Br = rng.integers(-2, 4, (M, P)).astype(float)
        Bc = rng.integers(-2, 4, (Nn, Q)).astype(float)
        fam = fams[c % len(fams)]
        if fam == 'ones':
            W = np.ones((M, Nn))
        elif fam.startswith('const-'):
            W = np.full((M, Nn), float(fam.split('-')[1]))
        elif fam == 'one-off':
            W = np.full((M, Nn), 2.0)
            W[int(rng.integers(M)), int(rng.integers(Nn))] = 5.0
        elif fam == 'mask':
            W = rng.integers(0, 2, (M, Nn)).astype(float)
        elif fam == 'separable':
            W = np.outer(rng.integers(0, 4, M), rng.integers(0, 4, Nn)).astype(float)
        elif fam == 'row-const':
            W = np.repeat(rng.integers(0, 4, M)[:, None], Nn, axis=1).astype(float)
        elif fam == 'negative':
            W = rng.integers(-3, 4, (M, Nn)).astype(float)
        else:
            W = rng.integers(0, 5, (M, Nn)).astype(float)
        case = {'kind': 'btwb2d-int', 'B_r': Br.tolist(), 'B_c': Bc.tolist(), 'weights': W.tolist(), 'weight_family': fam}
        try:
            sb = S2.SplineBasis2D.__new__(S2.SplineBasis2D)
            sb.basis_r, sb.basis_c = sparse.csr_matrix(Br), sparse.csr_matrix(Bc)
            sb._num_bases = (P, Q)
            sb._G_r, sb._G_c = _face_splitting(sb.basis_r), _face_splitting(sb.basis_c)
            F = sb._make_btwb(W)
            F = F.toarray() if hasattr(F, 'toarray') else np.asarray(F)
            if F.shape != (P * Q, P * Q) or not np.all(F == np.round(F)):
                raise ValueError(f'result shape {F.shape} / non-integer entries')
        except Exception as exc:  # noqa
            ctx.broke(ob, f'_make_btwb on integer stand-in bases raised {type(exc).__name__}: {exc}')
            ctx.fail('btwb2d:int:exception', f'_make_btwb raised {type(exc).__name__}: {exc} on integer bases', case)
            continue
        lits.append(f'({M}%nat, {Nn}%nat, {P}%nat, {Q}%nat, {zrows(Br)}, {zrows(W)}, {zrows(Bc)}, {zrows(F)})')
        metas.append(case)
        ctx.case(('btwb2d-int', fam, Br.tobytes(), Bc.tobytes(), W.tobytes()), nontrivial=M * Nn > 1 and P * Q > 1,
                 kind=f'btwb2d-corr:{fam}')
    ctx.obligations.append(ob)
    bad = False
    per = 120
    for s0 in range(0, len(lits), per):
        sh = lits[s0:s0 + per]
        text = (HEADER_Z + '\nDefinition cases : list (nat * nat * nat * nat * list (list Z) * list (list Z) * list (list Z) * '
                'list (list Z)) := [\n' + ';\n'.join(sh) + '\n].\n' + OK_BTWB2D)
        vals = ctx.coq_eval(f'btwb2d{s0 // per}', text)
        if vals is None:
            bad = True
            continue
        v = vals[0] if vals else ''
        if not v.startswith('(0'):
            bad = True
            import re
            m = re.match(r'\((\d+)(?:%nat)?,\s*\[(.*)\]\)', v)
            idx = [int(t.replace('%nat', '')) for t in (m.group(2).split(';') if m else []) if t.strip()]
            ctx.broke(ob, f'_make_btwb differs from the verified model (coq/C12/Btwb2D.v, integer instance) on {v}')
            for i in idx[:2]:
                mc = metas[s0 + i]
                ctx.fail('corr:btwb2d', 'SplineBasis2D._make_btwb on exact integer bases differs from the verified model of the face-splitting '
                         f'assembly = (B_r kron B_c)\' W (B_r kron B_c) [weights {mc["weight_family"]}]', mc)
    if not bad and ob not in [b[0] for b in ctx.broken]:
        ctx.discharged.append(ob)
    return bad


# ------------------------------------------------------------------------------ what solve_pspline hands to the solver
SOLVE_PSPLINE_BODY = [
    'use_backup = True',
    "if self._use_numba:\n    basis_data = self.basis.basis.tocsr().data\n    ab = np.zeros((self.basis.spline_degree + 1, "
    "self.basis._num_bases), order='F')\n    rhs = np.zeros(self.basis._num_bases)\n    _numba_btb_bty(self.basis.x, self.basis.knots, "
    "self.basis.spline_degree, y, weights, ab, rhs, basis_data)\n    if not self.lower:\n        ab = _lower_to_full(ab)\n    "
    "use_backup = False",
    'if use_backup:\n    full_matrix = self.basis.basis.T @ dia_object((weights, 0), shape=(self.basis._x_len, self.basis._x_len))'
    '.tocsr() @ self.basis.basis\n    rhs = self.basis.basis.T @ (weights * y)\n    ab = _sparse_to_banded(full_matrix, '
    'self.basis._num_bases)[0]\n    if self.lower:\n        ab = ab[len(ab) // 2:]',
    'if penalty is None:\n    penalty = self.penalty',
    'lhs = _add_diagonals(ab, penalty, self.lower)',
    'if rhs_extra is not None:\n    rhs = rhs + rhs_extra',
    'self.coef = self.solve(lhs, rhs, overwrite_ab=True, overwrite_b=True, check_finite=False)',
    'return self.basis.basis @ self.coef',
]


def pin_solve_pspline(ctx):
    """Fail-closed pin of the body of PSpline.solve_pspline: between the assembly of B'WB (the modelled _numba_btb_bty, or the
    sparse product) and the solver call only the layout conversion, the choice of the penalty and `_add_diagonals(ab, penalty,
    self.lower)` may occur; between B'Wy and the solver only `+ rhs_extra`."""
    import ast
    import os
    from .common import REPO
    ob = 'pin:PSpline.solve_pspline(body:assembly->_add_diagonals->solver,nothing-else)'
    ctx.obligations.append(ob)
    try:
        tree = ast.parse(open(os.path.join(REPO, 'pybaselines', '_spline_utils.py')).read())
        fn = _fn(tree, 'PSpline', 'solve_pspline')
        body = fn.body
        if body and isinstance(body[0], ast.Expr) and isinstance(getattr(body[0], 'value', None), ast.Constant):
            body = body[1:]
        got = [ast.unparse(st) for st in body]
        if got != SOLVE_PSPLINE_BODY:
            diff = [g for g in got if g not in SOLVE_PSPLINE_BODY][:3] or ['(statements missing or reordered)']
            raise ValueError('statements not in the pinned body: ' + ' | '.join(d[:160] for d in diff))
        ctx.discharged.append(ob)
    except Exception as exc:  # noqa
        ctx.broke(ob, f'PSpline.solve_pspline no longer has the pinned body: {exc}')


HEADER_ZI = """From Coq Require Import ZArith List Bool.
From PB Require Import lib.CaseUtil C12.Num C12.LArr C12.Model.
Import ListNotations.
Open Scope Z_scope.
"""

OK_LHS_INT = """
Definition ok (c : nat * list Z * list Z * list Z * list Z * list Z * list (list (list Z) * list Z)) : bool :=
  let '(k, x, knots, y, w, d, outs) := c in
  let nb := (length knots - (k + 1))%nat in
  let '(ab, rhs) := numba_btb_bty Num_Z x knots k y w (repeat (repeat 0 nb) (k + 1)) (repeat 0 nb) d in
  forallb (fun o => zll_eqb ab (fst o) && zl_eqb rhs (snd o)) outs.
Eval vm_compute in (bad ok cases).
"""


def zlist_(v):
    return '[' + '; '.join(str(int(a)) if a >= 0 else f'({int(a)})' for a in v) + ']'


def correspondence_lhs_int(ctx):
    """Exact integers: x and knots on an integer grid, the CSR data of the basis replaced by small integers (same sparsity), integer
    weights (with zeros) and y, and an all-zero penalty array: the banded matrix and vector CAPTURED AT THE SOLVER ENTRY of
    solve_pspline (both assembly paths, both layouts) must be exactly the B'WB / B'Wy of the verified model (Z instance)."""
    S = su()
    rng = np.random.default_rng(ctx.seed + 4141)
    ob = 'correspondence:solve_pspline-lhs/rhs-at-solver-entry-exact-integers-vs-model(numba+sparse,lower+full)'
    lits, metas = [], []
    grid = [(k, nk, h) for k in (0, 1, 2, 3) for nk in (2, 3, 5) for h in (1, 2)]
    extra = ctx.n(12, 120)
    for c in range(len(grid) + extra):
        if c < len(grid):
            k, nk, h = grid[c]
        else:
            k, nk, h = int(rng.integers(0, 5)), int(rng.integers(2, 8)), int(rng.integers(1, 5))
        lo = int(rng.integers(-5, 6))
        hi = lo + (nk - 1) * h
        n = int(rng.integers(2, 10))
        x = np.concatenate(([lo, hi], rng.integers(lo, hi + 1, n - 2))).astype(float)
        if c % 2:
            x = np.sort(x)
        basis = S.SplineBasis(x, nk, k)
        if not np.all(basis.knots == np.round(basis.knots)):
            continue
        csr = basis.basis.tocsr()
        if len(csr.data) != n * (k + 1):
            continue
        data = rng.integers(0, 4, len(csr.data)).astype(float)
        from scipy import sparse
        basis.basis = sparse.csr_matrix((data, csr.indices.copy(), csr.indptr.copy()), shape=csr.shape)
        wk = c % 4
        w = rng.integers(0, 4, n).astype(float)
        if wk == 1:
            w[:] = 1.0
        elif wk == 2:
            w[rng.random(n) < 0.6] = 0.0
        elif wk == 3 and n > 2:
            w[n // 2:] = 0.0
        y = rng.integers(-3, 4, n).astype(float)
        nbs = basis._num_bases
        d = 1 if nbs > 1 else 0
        if d == 0:
            continue
        outs = []
        case = {'kind': 'lhs-int', 'x': x.tolist(), 'num_knots': nk, 'degree': k, 'knots': basis.knots.tolist(), 'basis_data': data.tolist(),
                'weights': w.tolist(), 'y': y.tolist()}
        failed = False
        for use_numba in (True, False):
            for allow_lower in (True, False):
                ps = S.PSpline(basis, lam=1.0, diff_order=d, allow_lower=allow_lower)
                ps._use_numba = bool(use_numba and ps._use_numba)
                got = {}

                def capture(lhs, rhs, *a, **kw):
                    got['lhs'] = np.array(lhs, dtype=float, copy=True)
                    got['rhs'] = np.array(rhs, dtype=float, copy=True)
                    return np.zeros(len(rhs))

                ps.solve = capture
                try:
                    with warnings.catch_warnings():
                        warnings.simplefilter('ignore')
                        ps.solve_pspline(y, w, penalty=np.zeros_like(ps.penalty))
                    A = lower_to_dense(got['lhs'], nbs) if ps.lower else full_to_dense(got['lhs'], nbs)
                    if A is None:
                        raise ValueError('non-zero corner entries')
                    if not np.all(A == np.round(A)) or not np.all(got['rhs'] == np.round(got['rhs'])):
                        i, j = np.argwhere(A != np.round(A))[0] if np.any(A != np.round(A)) else (0, 0)
                        raise ValueError(f'entry ({i},{j}) = {A[i, j]!r} is not an integer although every input is')
                    if np.any(np.triu(A, k + 1) != 0):
                        raise ValueError('entries outside the degree+1 bands')
                    rows = [[A[cc + dd, cc] if cc + dd < nbs else 0.0 for cc in range(nbs)] for dd in range(k + 1)]
                    outs.append(f'({"[" + "; ".join(zlist_(r) for r in rows) + "]"}, {zlist_(got["rhs"])})')
                except Exception as exc:  # noqa
                    failed = True
                    if ob not in [b[0] for b in ctx.broken]:
                        ctx.broke(ob, f'solve_pspline on exact integer inputs: {type(exc).__name__}: {exc}')
                    ctx.fail('lhs-int:not-exact', f'PSpline.solve_pspline ({"numba" if use_numba else "sparse"} path, '
                             f'{"lower" if allow_lower else "full"} layout) with integer basis data, integer weights/y and a zero penalty '
                             f'hands the solver a matrix that is not the exact integer B\'WB: {exc}',
                             dict(case, use_numba=use_numba, allow_lower=allow_lower))
        ctx.case(('lhs-int', k, nk, h, x.tobytes(), w.tobytes(), data.tobytes()), nontrivial=True, kind=f'lhs-int:deg{k}:w{wk}')
        if not failed:
            lits.append(f'({k}%nat, {zlist_(x)}, {zlist_(basis.knots)}, {zlist_(y)}, {zlist_(w)}, {zlist_(data)}, [{"; ".join(outs)}])')
            metas.append(case)
    ctx.obligations.append(ob)
    bad = False
    per = 150
    for s0 in range(0, len(lits), per):
        sh = lits[s0:s0 + per]
        text = (HEADER_ZI + '\nDefinition cases : list (nat * list Z * list Z * list Z * list Z * list Z * list (list (list Z) * list Z)) := [\n'
                + ';\n'.join(sh) + '\n].\n' + OK_LHS_INT)
        vals = ctx.coq_eval(f'lhsint{s0 // per}', text)
        if vals is None:
            bad = True
            continue
        v = vals[0] if vals else ''
        if not v.startswith('(0'):
            bad = True
            import re
            m = re.match(r'\((\d+)(?:%nat)?,\s*\[(.*)\]\)', v)
            idx = [int(t.replace('%nat', '')) for t in (m.group(2).split(';') if m else []) if t.strip()]
            ctx.broke(ob, f'the system captured at the solver entry differs from the verified model (integer instance) on {v}')
            for i in idx[:2]:
                ctx.fail('corr:lhs-int', 'PSpline.solve_pspline: the banded matrix / vector handed to the solver (zero penalty passed) is not the '
                         'B\'WB / B\'Wy of the verified model of _numba_btb_bty on exact integer inputs', metas[s0 + i])
    if not bad and ob not in [b[0] for b in ctx.broken]:
        ctx.discharged.append(ob)
    return bad


# ------------------------------------------------------------------------------ design matrix USED by a fitter with a history
SETUP_CACHE_STMT = ('if self._spline_basis is None or not self._spline_basis.same_basis(num_knots, spline_degree):\n'
                    '    self._spline_basis = {ctor}')


def pin_same_basis(ctx):
    """Fail-closed pins of the cache key of the fitters' design matrix: SplineBasis.same_basis / SplineBasis2D.same_basis compare
    the REQUESTED (num_knots, spline_degree) with the settings the stored basis was built from (stored by __init__ from its own
    arguments), and _setup_spline (1-D, 2-D) rebuilds the basis exactly when same_basis says no and hands THAT object to PSpline."""
    import ast
    import os
    from .common import REPO
    ob = 'pin:same_basis(1-D,2-D)+_setup_spline-cache-statement(requested-settings-are-the-cache-key)'
    ctx.obligations.append(ob)
    try:
        t1 = ast.parse(open(os.path.join(REPO, 'pybaselines', '_spline_utils.py')).read())
        t2 = ast.parse(open(os.path.join(REPO, 'pybaselines', 'two_d', '_spline_utils.py')).read())

        def body(fn):
            b = fn.body
            if b and isinstance(b[0], ast.Expr) and isinstance(getattr(b[0], 'value', None), ast.Constant):
                b = b[1:]
            return [ast.unparse(st) for st in b]

        got = body(_fn(t1, 'SplineBasis', 'same_basis'))
        if got != ['return num_knots == self.num_knots and spline_degree == self.spline_degree']:
            raise ValueError(f'SplineBasis.same_basis body is {got}')
        got = body(_fn(t2, 'SplineBasis2D', 'same_basis'))
        want = ["num_knots = _check_scalar_variable(num_knots, allow_zero=False, variable_name='number of knots', two_d=True, dtype=int)",
                "spline_degree = _check_scalar_variable(spline_degree, allow_zero=True, variable_name='spline degree', two_d=True, dtype=int)",
                'return np.array_equal(num_knots, self.num_knots) and np.array_equal(spline_degree, self.spline_degree)']
        if got != want:
            raise ValueError(f'SplineBasis2D.same_basis body is {got}')
        init1 = body(_fn(t1, 'SplineBasis', '__init__'))
        for need in ('self.knots = _spline_knots(self.x, num_knots, spline_degree, True)',
                     'self.spline_degree = np.asarray(spline_degree).item()', 'self.num_knots = np.asarray(num_knots).item()',
                     'self.basis = _spline_basis(self.x, self.knots, spline_degree)'):
            if init1.count(need) != 1:
                raise ValueError(f'SplineBasis.__init__ lacks `{need}`')
        for f, cls, ctor, ps in (('_algorithm_setup.py', '_Algorithm', 'SplineBasis(self.x, num_knots, spline_degree)',
                                  'pspline = PSpline(self._spline_basis, lam, diff_order, allow_lower, reverse_diags)'),
                                 (os.path.join('two_d', '_algorithm_setup.py'), '_Algorithm2D',
                                  'SplineBasis2D(self.x, self.z, num_knots, spline_degree)',
                                  'pspline = PSpline2D(self._spline_basis, lam, diff_order)')):
            tree = ast.parse(open(os.path.join(REPO, 'pybaselines', f)).read())
            fn = _fn(tree, cls, '_setup_spline')
            text = [ast.unparse(st) for st in fn.body]
            if text.count(SETUP_CACHE_STMT.format(ctor=ctor)) != 1 or text.count(ps) != 1:
                raise ValueError(f'{cls}._setup_spline lacks the pinned cache statement / PSpline construction')
            assigns = [ast.unparse(n) for n in ast.walk(fn) if isinstance(n, (ast.Assign, ast.AugAssign))
                       and any('_spline_basis' in ast.unparse(t) for t in (n.targets if isinstance(n, ast.Assign) else [n.target]))]
            if len(assigns) != 1:
                raise ValueError(f'{cls}._setup_spline assigns _spline_basis {len(assigns)} times')
        ctx.discharged.append(ob)
    except Exception as exc:  # noqa
        ctx.broke(ob, f'the design-matrix cache key no longer has the pinned shape: {exc}')


# FIXED grid of consecutive (num_knots, spline_degree) requests on ONE fitter
HISTORY_PAIRS = [
    # equal num_knots + 2*degree (= len(knots))
    ((10, 3), (12, 2)), ((6, 0), (4, 1)), ((8, 1), (4, 3)), ((12, 2), (10, 3)), ((5, 2), (9, 0)),
    # equal num_knots + degree - 1 (= number of basis functions)
    ((10, 3), (11, 2)), ((5, 1), (4, 2)), ((7, 0), (4, 3)), ((6, 2), (8, 0)),
    # one of the two equal, swapped, identical (legitimate reuse)
    ((8, 3), (8, 1)), ((8, 3), (9, 3)), ((3, 5), (5, 3)), ((8, 3), (8, 3)), ((20, 3), (3, 1)),
]
HISTORY_TRIPLES = [((10, 3), (12, 2), (10, 3)), ((6, 0), (4, 1), (5, 1)), ((8, 3), (8, 3), (4, 5))]
HISTORY_METHODS = ['pspline_asls', 'pspline_arpls', 'mixture_model', 'irsqr', 'pspline_airpls']


def used_basis_1d(x, y, seq, methods, rejected=False):
    """Runs the requests of `seq` one after the other on ONE Baseline and returns, for the LAST one, the SplineBasis that
    PSpline.solve_pspline actually worked with (solve_pspline is wrapped), the sorted x of the fitter and the public result."""
    S = su()
    from pybaselines import Baseline
    fitter = Baseline(x_data=x)
    seen = []
    orig = S.PSpline.solve_pspline

    def spy(self, *a, **kw):
        seen.append(self.basis)
        return orig(self, *a, **kw)

    out = None
    with warnings.catch_warnings():
        warnings.simplefilter('ignore')
        for step, (nk, k) in enumerate(seq):
            if rejected and step == len(seq) - 1:
                for bad_kw in ({'num_knots': 1, 'spline_degree': k}, {'num_knots': nk, 'spline_degree': -1},
                               {'num_knots': nk, 'spline_degree': k, 'diff_order': nk + k + 5}):
                    try:
                        getattr(fitter, methods[0])(y, lam=10.0, **dict({'diff_order': 1}, **bad_kw))
                    except Exception:  # noqa
                        pass
            del seen[:]
            S.PSpline.solve_pspline = spy
            try:
                kw = {'lam': 10.0, 'num_knots': nk, 'spline_degree': k, 'diff_order': 1, 'max_iter': 2}
                out = getattr(fitter, methods[step % len(methods)])(y, **kw)
            finally:
                S.PSpline.solve_pspline = orig
    return (seen[0] if seen else None), np.sort(x), out


def check_used_basis(basis, xs, nk, k, label):
    """The basis a solve worked with must be THE B-spline basis of (xs, num_knots=nk, degree=k)."""
    S = su()
    if basis is None:
        return 'history:no-solve', f'{label}: no solve_pspline call was observed'
    knots = S._spline_knots(xs, nk, k, True)
    if len(basis.knots) != len(knots) or not np.array_equal(basis.knots, knots) or basis.spline_degree != k:
        return 'history:stale-basis:knots', (f'{label}: the solve used knots/degree of another request (degree {basis.spline_degree}, '
                                             f'{len(basis.knots)} knots) instead of degree {k}, {len(knots)} knots')
    B = basis.basis
    if B.shape != (len(xs), nk + k - 1):
        return 'history:stale-basis:shape', f'{label}: the design matrix used has shape {B.shape} instead of {(len(xs), nk + k - 1)}'
    ref = dense_ref(xs, knots, k)
    if np.abs(B.toarray() - ref).max() > 1e-11:
        return 'history:stale-basis:values', f'{label}: the design matrix used differs from the B-spline basis of the requested settings'
    return None


def history_cells(ctx):
    cells = []
    for i, (a, b) in enumerate(HISTORY_PAIRS):
        cells.append(((a, b), i % 2 == 1, i % 3 == 2))
    for i, t in enumerate(HISTORY_TRIPLES):
        cells.append((t, i % 2 == 0, False))
    if ctx.tier == 'thorough':
        for a, b in HISTORY_PAIRS:
            cells.append(((b, a), True, True))
    return cells


def oracle_history(ctx):
    """Enumerated history family, 1-D: bit-exact rows of the basis used by the last request against the float model evaluated for
    the REQUESTED settings (Coq), plus the direct oracle (knots, shape, SciPy reference, tck, fresh-fitter result)."""
    S = su()
    from pybaselines import Baseline
    n = 41
    x0 = np.linspace(-3.0, 17.0, n)
    y0 = np.sin(x0 / 2.0) + 0.05 * x0 + 2.0 * np.exp(-0.5 * ((x0 - 6.0) / 0.7) ** 2)
    lits, metas = [], []
    for ci, (seq, unsorted, rejected) in enumerate(history_cells(ctx)):
        if unsorted:
            perm = np.random.default_rng(77).permutation(n)
            x, y = x0[perm], y0[perm]
        else:
            x, y = x0, y0
        methods = HISTORY_METHODS[ci % len(HISTORY_METHODS):] + HISTORY_METHODS[:ci % len(HISTORY_METHODS)]
        nk, k = seq[-1]
        case = {'kind': 'history1d', 'x': x.tolist(), 'y': y.tolist(), 'requests': [list(r) for r in seq], 'methods': methods,
                'rejected': rejected}
        label = ' -> '.join(f'(num_knots={a}, degree={b})' for a, b in seq)
        ctx.case(('history1d', seq, unsorted, rejected), nontrivial=len(set(seq)) > 1, kind='history1d:' + (
            'same-len-knots' if len(set(a + 2 * b for a, b in seq[-2:])) == 1 and len(set(seq[-2:])) > 1 else
            'same-num-bases' if len(set(a + b for a, b in seq[-2:])) == 1 and len(set(seq[-2:])) > 1 else 'other'))
        try:
            basis, xs, out = used_basis_1d(x, y, seq, methods, rejected)
            err = check_used_basis(basis, xs, nk, k, label)
            if not err:
                tck = out[1].get('tck')
                if tck is not None and (tck[2] != k or len(tck[0]) != nk + 2 * k or len(tck[1]) != nk + k - 1):
                    err = ('history:tck', f'{label}: the returned tck does not have the requested knot count / degree')
            if not err:
                fresh = getattr(Baseline(x_data=x), methods[(len(seq) - 1) % len(methods)])(
                    y, lam=10.0, num_knots=nk, spline_degree=k, diff_order=1, max_iter=2)[0]
                if not np.array_equal(out[0], fresh):
                    err = ('history:differs-from-fresh', f'{label}: the baseline of the last request differs from a fresh fitter\'s')
        except Exception as exc:  # noqa
            basis = None
            err = (f'history:exception:{type(exc).__name__}', f'{label}: raised {type(exc).__name__}: {exc}')
        if err:
            ctx.fail(err[0], err[1] + f' [one Baseline, x {"unsorted" if unsorted else "sorted"} linspace(-3,17,41), methods '
                     f'{methods[:len(seq)]}, rejected calls before the last request: {rejected}]', case)
        if basis is not None:
            knots = S._spline_knots(xs, nk, k, True)
            B = basis.basis.tocsr()
            rows = np.repeat(np.arange(B.shape[0]), np.diff(B.indptr))
            lits.append(f'({k}, {fl(xs)}, {fl(knots)}, {fl(B.data)}, {nl(rows)}, {nl(B.indices)})')
            metas.append(case)
    return run_cases(ctx, 'history', 'nat * list float * list float * list float * list nat * list nat', lits, OK_ROWS, 60,
                     'correspondence:design-matrix-USED-after-a-call-history-bit-exact-vs-model-for-REQUESTED-settings(1-D)',
                     'design matrix used by the last request of a call history', lambda i: metas[i])


HISTORY_2D = [
    (((6, 6), (0, 0)), ((4, 4), (1, 1))), (((10, 5), (3, 2)), ((12, 5), (2, 2))), (((5, 8), (2, 1)), ((5, 4), (2, 3))),
    (((6, 4), (1, 2)), ((4, 6), (2, 1))), (((5, 5), (3, 3)), ((6, 6), (2, 2))), (((7, 4), (0, 3)), ((4, 7), (3, 0))),
    (((5, 6), (2, 2)), ((5, 6), (2, 2))),
]


def oracle_history_2d(ctx):
    """The same on ONE Baseline2D with M != N: the bases PSpline2D.solve works with after a second request must be the bases of
    the requested per-axis settings; rows bit-exact against the 1-D float model on each axis."""
    S = su()
    from pybaselines import Baseline2D
    from pybaselines.two_d import _spline_utils as S2
    x = np.linspace(0.0, 9.0, 13)
    z = np.linspace(-2.0, 5.0, 10)
    X, Z = np.meshgrid(x, z, indexing='ij')
    y = np.sin(X / 2) + 0.1 * Z + np.exp(-((X - 4) ** 2 + (Z - 1) ** 2))
    lits, metas = [], []
    for ci, (first, second) in enumerate(HISTORY_2D):
        scalar = first[0][0] == first[0][1] and first[1][0] == first[1][1] and second[0][0] == second[0][1] and second[1][0] == second[1][1]
        case = {'kind': 'history2d', 'requests': [[list(first[0]), list(first[1])], [list(second[0]), list(second[1])]]}
        label = f'(num_knots={first[0]}, degree={first[1]}) -> (num_knots={second[0]}, degree={second[1]})'
        ctx.case(('history2d', first, second), nontrivial=first != second, kind='history2d')
        seen = []
        orig = S2.PSpline2D.solve

        def spy(self, *a, **kw):
            seen.append(self.basis)
            return orig(self, *a, **kw)

        err = None
        try:
            fitter = Baseline2D(x, z)
            with warnings.catch_warnings():
                warnings.simplefilter('ignore')
                for step, (nks, ks) in enumerate((first, second)):
                    del seen[:]
                    S2.PSpline2D.solve = spy
                    try:
                        kw = {'num_knots': nks[0] if scalar else nks, 'spline_degree': ks[0] if scalar else ks}
                        getattr(fitter, ('pspline_asls', 'pspline_arpls')[(ci + step) % 2])(y, lam=10.0, diff_order=1, max_iter=1, **kw)
                    finally:
                        S2.PSpline2D.solve = orig
            sb = seen[0] if seen else None
            if sb is None:
                err = ('history2d:no-solve', f'{label}: no PSpline2D.solve call was observed')
            else:
                nks, ks = second
                for side, ax, nk, k, knots_used, B in (('r', x, nks[0], ks[0], sb.knots_r, sb.basis_r),
                                                       ('c', z, nks[1], ks[1], sb.knots_c, sb.basis_c)):
                    knots = S._spline_knots(ax, nk, k, True)
                    if len(knots_used) != len(knots) or not np.array_equal(knots_used, knots) or B.shape != (len(ax), nk + k - 1) \
                            or np.abs(B.toarray() - dense_ref(ax, knots, k)).max() > 1e-11:
                        err = (f'history2d:stale-basis_{side}', f'{label}: the solve used a basis_{side} of shape {B.shape} with '
                               f'{len(knots_used)} knots instead of the requested num_knots {nk}, degree {k} ({(len(ax), nk + k - 1)}, '
                               f'{len(knots)} knots)')
                    Bc = B.tocsr()
                    rows = np.repeat(np.arange(Bc.shape[0]), np.diff(Bc.indptr))
                    lits.append(f'({k}, {fl(ax)}, {fl(knots)}, {fl(Bc.data)}, {nl(rows)}, {nl(Bc.indices)})')
                    metas.append(case)
        except Exception as exc:  # noqa
            err = (f'history2d:exception:{type(exc).__name__}', f'{label}: raised {type(exc).__name__}: {exc}')
        if err:
            ctx.fail(err[0], err[1] + ' [one Baseline2D, x = linspace(0,9,13), z = linspace(-2,5,10)]', case)
    return run_cases(ctx, 'history2d', 'nat * list float * list float * list float * list nat * list nat', lits, OK_ROWS, 60,
                     'correspondence:bases-USED-by-PSpline2D.solve-after-a-call-history-bit-exact-vs-model-for-REQUESTED-settings(2-D)',
                     'bases used by the last request of a 2-D call history', lambda i: metas[i])


def run(ctx):
    ctx.rule = ('penalized knot vectors from _spline_knots with num_knots 2..200, degree 0..6; x ranges ordinary, SCALED by 1e-15/1e-12/1e-9/1e-6/1e6/1e12/1e-300 '
                '(and 1e-310, denormal, in the bit-exact cases) and OFFSET by +-1e6/+-1e12; x kinds '
                'uniform / exactly on knots / one ulp beside knots / clustered / repeated / unsorted / fewer points than basis '
                'functions / end points only; hand-made non-decreasing knot vectors with duplicate knots (degenerate branch of '
                '_de_boor); weights random / half zeros / all zeros / signed many decades; non-trivial = at least 2 points and '
                'more basis functions than the degree')
    ctx.trusted += [
        'IEEE rounding between the rational/semiring theorems and the binary64 run is not proved (the binary64 instance of the '
        'same definitions is tied bit-for-bit to the kernels instead)',
        'numba compiles _find_interval/_de_boor/__make_design_matrix/_numba_btb_bty without fast-math (bit equality with .py_func '
        'and with the Coq float model is checked on every run)',
        'np.linspace rounding of the knots, scipy csr construction/conversion (.tocsr().data order is checked by the oracle)',
        'scipy.interpolate.BSpline as differential reference (tolerance 1e-11 on values in [0,1]); solver, penalty bands (C11) '
        'and _add_diagonals enter the normal-equation oracle only through the captured left-hand side',
    ]
    ctx.gate()
    ok = ctx.build_props()
    pin_init_2d(ctx)
    pin_btwb_2d(ctx)
    pin_solve_pspline(ctx)
    pin_same_basis(ctx)
    bad = correspondence(ctx)
    bad |= correspondence_2d(ctx)
    bad |= correspondence_btwb_2d(ctx)
    bad |= correspondence_lhs_int(ctx)
    bad |= oracle_history(ctx)
    bad |= oracle_history_2d(ctx)
    budget = 1 if (ok and not bad and not ctx.broken and ctx.tier == 'quick') else 5
    oracle_lhs_grid(ctx)
    oracle(ctx, budget)
    oracle_2d(ctx, budget)
    oracle_btwb_2d(ctx, budget)
    ctx.note(f'oracle budget x{budget}; histories: the design matrix USED by the last of 2-3 consecutive spline requests on one Baseline / Baseline2D (fixed grid of colliding settings, rejected calls in between) is tied bit-exactly to the model for the requested settings; 1-D system: the lhs/rhs handed to the solver inside PSpline.solve_pspline are captured (numba + sparse path, lower + full layout, own and zero penalty, strided views, objects with rejected calls in their history) on a FIXED grid of weight magnitudes 1e-300..1e290 and on random magnitudes 1e-250..1e250, compared relative to the largest entry; exact-integer cases against the Z instance of the model; 2-D: SplineBasis2D construction (each side vs its own axis, _G_r/_G_c, full basis) is oracle + bit-exact rows + pin; _make_btwb is modelled and proved (C12_btwb_2d, C12_btwb_2d_separable), pinned, tied by exact integers and searched with 14 weight families incl. constant non-unit / near-constant; the 2-D penalty and solver belong to C20; NOT covered: _spline_knots(penalized=False) '
             'percentile knots only through hand-made clamped knot vectors, _basis_midpoints; values are compared with SciPy up to 1e-11, '
             'not bit-for-bit; theorems are exact-arithmetic (float rounding outside)')


def replay(rep):
    case = rep.get('case') or {}
    kind = case.get('kind')
    if kind == 'basis':
        err = check_basis(np.array(case['x']), np.array(case['knots']), case['degree'], tuple(case.get('paths', ('compiled', 'scipy', 'slow'))))
        print('replay basis:', err or 'property holds on this input')
        return 1 if err else 0
    if kind == 'btb':
        try:
            err = check_normal_equations(np.array(case['x']), case['num_knots'], case['degree'], np.array(case['y']),
                                         np.array(case['weights']), case['lam'], case['diff_order'], case['allow_lower'],
                                         case['use_numba'], case.get('penalty_mode', 'own'), case.get('views', False),
                                         case.get('history', False))
        except Exception as exc:  # noqa
            err = f'solve_pspline raised {type(exc).__name__}: {exc}'
        print('replay btb:', err or 'property holds on this input')
        return 1 if err else 0
    if kind == 'history1d':
        x, y = np.array(case['x']), np.array(case['y'])
        seq = [tuple(r) for r in case['requests']]
        basis, xs, out = used_basis_1d(x, y, seq, case['methods'], case.get('rejected', False))
        err = check_used_basis(basis, xs, seq[-1][0], seq[-1][1], str(seq))
        print('replay history1d:', err or 'property holds on this input')
        return 1 if err else 0
    if kind == 'history2d':
        from pybaselines import Baseline2D
        from pybaselines.two_d import _spline_utils as S2
        S = su()
        x, z = np.linspace(0.0, 9.0, 13), np.linspace(-2.0, 5.0, 10)
        X, Z = np.meshgrid(x, z, indexing='ij')
        y = np.sin(X / 2) + 0.1 * Z + np.exp(-((X - 4) ** 2 + (Z - 1) ** 2))
        fitter = Baseline2D(x, z)
        seen = []
        orig = S2.PSpline2D.solve
        S2.PSpline2D.solve = lambda self, *a, **kw: (seen.append(self.basis), orig(self, *a, **kw))[1]
        try:
            with warnings.catch_warnings():
                warnings.simplefilter('ignore')
                for nks, ks in case['requests']:
                    del seen[:]
                    fitter.pspline_asls(y, lam=10.0, diff_order=1, max_iter=1, num_knots=tuple(nks), spline_degree=tuple(ks))
        finally:
            S2.PSpline2D.solve = orig
        nks, ks = case['requests'][-1]
        sb = seen[0]
        bad = None
        for side, ax, nk, k, B in (('r', x, nks[0], ks[0], sb.basis_r), ('c', z, nks[1], ks[1], sb.basis_c)):
            knots = S._spline_knots(ax, nk, k, True)
            if B.shape != (len(ax), nk + k - 1) or np.abs(B.toarray() - dense_ref(ax, knots, k)).max() > 1e-11:
                bad = f'basis_{side} used by the solve has shape {B.shape}, not the basis of the requested num_knots {nk}, degree {k}'
        print('replay history2d:', bad or 'property holds on this input')
        return 1 if bad else 0
    if kind == 'lhs-int':
        from scipy import sparse
        S = su()
        x, w, y = np.array(case['x']), np.array(case['weights']), np.array(case['y'])
        basis = S.SplineBasis(x, case['num_knots'], case['degree'])
        csr = basis.basis.tocsr()
        basis.basis = sparse.csr_matrix((np.array(case['basis_data']), csr.indices.copy(), csr.indptr.copy()), shape=csr.shape)
        B = basis.basis.toarray()
        ref = B.T @ (w[:, None] * B)
        bad = None
        for use_numba in (True, False):
            for allow_lower in (True, False):
                ps = S.PSpline(basis, lam=1.0, diff_order=1, allow_lower=allow_lower)
                ps._use_numba = bool(use_numba and ps._use_numba)
                got = {}
                ps.solve = lambda lhs, rhs, *a, **kw: (got.update(lhs=np.array(lhs, dtype=float, copy=True)), np.zeros(len(rhs)))[1]
                ps.solve_pspline(y, w, penalty=np.zeros_like(ps.penalty))
                A = lower_to_dense(got['lhs'], B.shape[1]) if ps.lower else full_to_dense(got['lhs'], B.shape[1])
                if A is None or not np.array_equal(A, ref):
                    bad = f'{"numba" if use_numba else "sparse"} path, {"lower" if allow_lower else "full"} layout: matrix at the solver entry is not the exact integer B\'WB'
        print('replay lhs-int:', bad or 'property holds on this input')
        return 1 if bad else 0
    if kind == 'btwb2d':
        try:
            err = check_btwb_2d(np.array(case['x']), np.array(case['z']), tuple(case['num_knots']), tuple(case['degree']),
                                np.array(case['weights']), np.array(case['y']), tuple(case.get('lam', (1.0, 1.0))))
        except Exception as exc:  # noqa
            err = f'2-D normal equations raised {type(exc).__name__}: {exc}'
        print('replay btwb2d:', err or 'property holds on this input')
        return 1 if err else 0
    if kind == 'btwb2d-int':
        from scipy import sparse
        from pybaselines.two_d import _spline_utils as S2
        from pybaselines.two_d._whittaker_utils import _face_splitting
        Br, Bc, W = np.array(case['B_r']), np.array(case['B_c']), np.array(case['weights'])
        sb = S2.SplineBasis2D.__new__(S2.SplineBasis2D)
        sb.basis_r, sb.basis_c = sparse.csr_matrix(Br), sparse.csr_matrix(Bc)
        sb._num_bases = (Br.shape[1], Bc.shape[1])
        sb._G_r, sb._G_c = _face_splitting(sb.basis_r), _face_splitting(sb.basis_c)
        F = sb._make_btwb(W)
        F = F.toarray() if hasattr(F, 'toarray') else np.asarray(F)
        B = np.kron(Br, Bc)
        ok = np.array_equal(F, B.T @ (W.ravel()[:, None] * B))
        print('replay btwb2d-int:', 'property holds on this input' if ok else '_make_btwb differs from (B_r kron B_c)\' W (B_r kron B_c) on exact integer input')
        return 0 if ok else 1
    if kind == 'basis2d':
        try:
            err = check_basis_2d(np.array(case['x']), np.array(case['z']), tuple(case['num_knots']), tuple(case['degree']),
                                 case.get('scalar_args', False))
        except Exception as exc:  # noqa
            err = f'SplineBasis2D raised {type(exc).__name__}: {exc}'
        print('replay basis2d:', err or 'property holds on this input')
        return 1 if err else 0
    if kind == 'slow-unsorted':
        msg = slow_unsorted_probe(np.array(case['x']), case['num_knots'], case['degree'])
        print('replay slow-unsorted:', msg or 'property holds on this input')
        return 1 if msg else 0
    if kind in ('design-corr',):
        S = su()
        x, knots, k = np.array(case['x']), np.array(case['knots']), case['degree']
        f = getattr(S, '__make_design_matrix')
        d1 = f(x, knots, k)[0]
        d2 = f.py_func(x, knots, k)[0]
        nb = len(knots) - k - 1
        inner_ok = np.all(np.diff(knots[k:nb + 1]) > 0)
        err = None
        if not np.array_equal(d1, d2):
            err = 'jitted and pure-Python kernels differ'
        elif inner_ok:
            err = check_basis(x, knots, k, ('compiled',))
        print('replay design-corr:', err or 'no direct violation on this input (the bit-exact model comparison needs coqc: run the check)')
        return 1 if err else 0
    print('replay: nothing concrete to replay; broken obligations were:', rep.get('broken_obligations'))
    return 1
