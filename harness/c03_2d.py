"""2-D part of the C03 harness: Baseline2D call catalogue, runner, observation, Coq literals."""
import warnings

import numpy as np

from .common import zl

POLY2_PINV = ['poly', 'modpoly', 'imodpoly', 'penalized_poly']
SPLINES2 = ['pspline_asls', 'pspline_arpls', 'pspline_airpls', 'mixture_model', 'irsqr', 'pspline_psalsa']
PLAIN2 = {'mor': {'half_window': 2}, 'asls': {'lam': 1e2, 'max_iter': 5, 'num_eigens': (5, 5)},
          'arpls': {'lam': 1e2, 'max_iter': 5, 'num_eigens': (5, 5)},
          'noise_median': {'half_window': 2}}
SPEED2 = {'modpoly': {'max_iter': 10}, 'imodpoly': {'max_iter': 10}, 'penalized_poly': {'max_iter': 10},
          'quant_reg': {'max_iter': 10}, 'pspline_asls': {'max_iter': 5}, 'pspline_arpls': {'max_iter': 5},
          'pspline_airpls': {'max_iter': 5}, 'mixture_model': {'max_iter': 5}, 'irsqr': {'max_iter': 5},
          'pspline_psalsa': {'max_iter': 5}, 'iasls': {'max_iter': 5, 'lam': 1e2}, 'pspline_iasls': {'max_iter': 5}}
K4_POOL = [(4, 4, 2, 2), (5, 3, 1, 3), (3, 5, 3, 1), (4, 5, 2, 1), (5, 5, 1, 1), (3, 3, 3, 3), (6, 4, 2, 2), (4, 4, 3, 1),
           (2, 4, 2, 2), (4, 4, 2, 3)]


def coq_opt(v):
    return 'None' if v is None else f'(Some {zl(v)})'


def coq_optp(v):
    return 'None' if v is None else f'(Some ({zl(v[0])}, {zl(v[1])}))'


def coq_b(b):
    return 'true' if b else 'false'


def gen_call_2d(rng, last=None):
    last = last if last is not None else {}
    r = rng.random()
    w = None
    kw = {}
    data = 'ok'
    if r < 0.06:
        return {'m': 'set_solver', 'v': rng.choice([1, 2, 3, 4, 0, 5])}
    if r < 0.14:
        m = rng.choice(['adaptive_minmax', 'collab_pls', 'individual_axes'])
        if m == 'adaptive_minmax':
            p = rng.choice([0, 1, 2, 3])
            kw = {'method': rng.choice(['modpoly', 'imodpoly', 'poly']),
                  'poly_order': p if rng.random() < 0.6 else [p, rng.choice([1, 2, 3])]}
            w = rng.choice([None, 'ok'])
        elif m == 'collab_pls':
            im = rng.choice(['pspline_asls', 'pspline_arpls', 'asls'])
            mk = {'max_iter': 4, 'lam': 10}
            if im.startswith('pspline'):
                k = rng.choice(K4_POOL)
                mk.update(num_knots=[k[0], k[1]], spline_degree=[k[2], k[3]])
            else:
                mk.update(num_eigens=(5, 5), lam=1e2)
            kw = {'method': im, 'method_kwargs': mk}
        else:
            kw = {'method': 'asls', 'method_kwargs': {'lam': 1e2, 'max_iter': 4}, 'axes': rng.choice([0, 1, (0, 1)])}
        call = {'m': m, 'kw': kw, 'data': 'ok', 'w': w}
        if rng.random() < 0.3:
            make_failing_2d(call, rng.choice(['inner_body', 'bad_kw']))
        return call
    if r < 0.55:
        m = rng.choice(POLY2_PINV + ['poly', 'quant_reg'])
        px, pz = rng.choice([0, 1, 2, 2, 3]), rng.choice([0, 1, 2, 2, 3])
        if rng.random() < 0.05:
            px = -1
        mc = rng.choice([None, None, None, 0, 1, 1, 2, -1])
        if 'p' in last and rng.random() < 0.5:
            # near-collision with the previous key: change exactly one of (x order, z order, max_cross)
            px, pz, mc = last['p']
            which = rng.choice([0, 1, 2, 2])
            if which == 0:
                px = max(0, px + rng.choice([-1, 1]))
            elif which == 1:
                pz = max(0, pz + rng.choice([-1, 1]))
            else:
                mc = rng.choice([v for v in (None, 0, 1, 2) if v != mc])
        last['p'] = (px, pz, mc)
        kw = {'poly_order': [px, pz] if (px != pz or rng.random() < 0.5) else px, 'max_cross': mc}
        w = rng.choice([None, None, 'ok', 'pool', 'pool', 'bad']) if rng.random() < 0.6 else None
        if 'pool_call' in last and rng.random() < 0.4:
            m, px, pz, mc = last['pool_call']
            kw = {'poly_order': [px, pz], 'max_cross': mc}
            last['p'] = (px, pz, mc)
            w = 'pool'
        if w == 'pool':
            last['pool_call'] = (m, px, pz, mc)
    elif r < 0.65:
        m = rng.choice(['iasls', 'pspline_iasls'])
        kw = {'diff_order': rng.choice([2, 2, 3, 1])}
        if m == 'pspline_iasls':
            k = rng.choice(K4_POOL)
            kw.update(num_knots=[k[0], k[1]], spline_degree=[k[2], k[3]])
        if rng.random() < 0.25:
            w = 'ok'
        if rng.random() < 0.12:
            kw['p'] = 2.0
    elif r < 0.92:
        m = rng.choice(SPLINES2)
        k = list(rng.choice(K4_POOL))
        if 'k' in last and rng.random() < 0.5:
            # near-collision: change exactly one of (knots_x, knots_z, degree_x, degree_z), or keep the key
            k = list(last['k'])
            j = rng.choice([0, 1, 2, 3, 3, 2])
            k[j] = max(2 if j < 2 else 0, k[j] + rng.choice([-1, 1]))
        last['k'] = tuple(k)
        t = rng.random()
        if t < 0.05:
            k[rng.choice([0, 1])] = 1
        elif t < 0.10:
            k[rng.choice([2, 3])] = -1
        do = [rng.choice([1, 2, 2, 3]), rng.choice([1, 2, 2])]
        t = rng.random()
        if t < 0.06:
            do[rng.choice([0, 1])] = 0
        elif t < 0.12:
            do[0] = k[0] + k[2] - 1
        kw = {'num_knots': [k[0], k[1]], 'spline_degree': [k[2], k[3]], 'diff_order': do}
        w = rng.choice([None, None, None, 'ok', 'pool', 'bad'])
    else:
        m = rng.choice(sorted(PLAIN2))
        if 'half_window' in PLAIN2[m]:
            kw = {'half_window': rng.choice([2, 3, [2, 3]])}
    t = rng.random()
    if t < 0.05:
        data = 'short'
    elif t > 0.75:
        data = 'pool'
    elif t < 0.08:
        data = 'nan'
    elif t < 0.10:
        data = 'none'
    from .c03 import add_pp, ARRAYABLE_2D
    return add_pp(rng, {'m': m, 'kw': kw, 'data': data, 'w': w}, ARRAYABLE_2D)


def pair(v):
    return (v, v) if not isinstance(v, (list, tuple)) else (v[0], v[1])


def data_shape(call, M, N):
    return {'ok': (M, N), 'pool': (M, N), 'nan': (M, N), 'short': (M, N - 1), 'none': None}[call['data']]


def pre_raise_2d(call):
    m, kw = call['m'], call['kw']
    if m in ('iasls', 'pspline_iasls'):
        return kw.get('p', 0.01) >= 1 or kw.get('diff_order', 2) < 2
    return False


def item_2d(call, M, N, raised, pre=False):
    """Coq `item2`: registered method name + the concrete values of the parameters the generated table refers to
    (defaults of the method's signature where not passed)."""
    import inspect
    from pybaselines import Baseline2D
    if call['m'] == 'set_solver':
        return f'ISolver2 {zl(call["v"])}'
    m, kw, w = call['m'], dict(call['kw']), call['w']
    sig = inspect.signature(getattr(Baseline2D, m)).parameters

    def val(name, fallback):
        if name in kw:
            return kw[name]
        d = sig[name].default if name in sig else fallback
        return d if isinstance(d, (int, list, tuple)) and not isinstance(d, bool) else fallback
    sh = data_shape(call, M, N)
    base = sh if sh is not None else (0, 0)
    wl = None if w is None else (base if w in ('ok', 'pool') else (base[0] + 1, base[1]))
    px, pz = pair(val('poly_order', 0))
    k1, k2 = pair(val('num_knots', 0))
    d1, d2 = pair(val('spline_degree', 0))
    do1, do2 = pair(val('diff_order', 0))
    mc = kw.get('max_cross')
    return ('IMethod2 "%s" {| b_data := %s; b_dataok := %s; b_w := %s; b_px := %s; b_pz := %s; b_mc := %s; '
            'b_k := (%s, %s, %s, %s); b_dox := %s; b_doz := %s; b_pre_raise := %s; b_post_raise := %s |}'
            % (m, coq_optp(sh), coq_b(call['data'] != 'nan'), coq_optp(wl), zl(px), zl(pz), coq_opt(mc),
               zl(k1), zl(k2), zl(d1), zl(d2), zl(do1), zl(do2), coq_b(pre or pre_raise_2d(call)), coq_b(raised)))


FLOAT_KW2 = {'modpoly': {'tol': 1e-3}, 'imodpoly': {'tol': 1e-3, 'num_std': 1.0}, 'penalized_poly': {'tol': 1e-3},
             'quant_reg': {'quantile': 0.05}, 'pspline_asls': {'lam': 10.0, 'p': 0.02}, 'pspline_arpls': {'lam': 10.0},
             'pspline_airpls': {'lam': 10.0}, 'mixture_model': {'lam': 10.0, 'p': 0.02}, 'irsqr': {'lam': 10.0, 'quantile': 0.05},
             'pspline_psalsa': {'lam': 10.0}, 'pspline_iasls': {'lam': 10.0}, 'iasls': {'lam': 1e2},
             'adaptive_minmax': {'constrained_fraction': 0.05}}
OPTIMIZERS2 = {'adaptive_minmax', 'collab_pls', 'individual_axes'}


def inner_calls_2d(call):
    m, kw = call['m'], call['kw']
    if m == 'adaptive_minmax':
        po = kw['poly_order']
        orders = list(po) if isinstance(po, (list, tuple)) else [po, po + 1]
        return [(kw['method'], {'poly_order': o, 'max_cross': None}, 'ok') for o in orders for _ in range(2)]
    if m == 'collab_pls':
        mk = dict(kw.get('method_kwargs') or {})
        return [(kw['method'], mk, None), (kw['method'], mk, 'ok'), (kw['method'], mk, 'ok')]
    return []   # individual_axes fits on new 1-D Baseline objects


def group_2d(call, M, N, raised):
    if call['m'] not in OPTIMIZERS2:
        return [item_2d(call, M, N, raised)]
    inner = inner_calls_2d(call)
    fail = call.get('fail')
    items = [item_2d(dict(call, kw={}), M, N, raised and not inner)]
    for k, (im, ikw, iw) in enumerate(inner):
        post = (fail == 'inner_body' and k == 0) or (raised and k == len(inner) - 1)
        items.append(item_2d({'m': im, 'kw': ikw, 'w': iw, 'data': 'ok'}, M, N, post, pre=(fail == 'bad_kw' and k == 0)))
    return items


def make_data2(M, N, seed):
    rng = np.random.default_rng(seed)
    X, Z = np.meshgrid(np.linspace(0, 1, M), np.linspace(0, 1, N), indexing='ij')
    y = 2 + 3 * X + 2 * Z + X * Z + 20 * np.exp(-0.5 * (((X - 0.5) / 0.12) ** 2 + ((Z - 0.4) / 0.15) ** 2))
    return y + rng.normal(0, 0.2, (M, N))


def make_axes(kind, M, N):
    x = np.linspace(-3.0, 8.0, M)
    z = np.linspace(10.0, 50.0, N)
    return {'none': (None, None), 'x': (x, None), 'z': (None, z), 'both': (x, z),
            'unsorted': (x[::-1].copy(), z)}[kind]


def call_args_2d(call, M, N, y, pool=None, idx=0, fresh=False, unpool=()):
    from .c03 import refill, pool_params
    data = {'ok': y, 'pool': y, 'none': None, 'short': y[:, :-1], 'nan': None}[call['data']]
    if call['data'] == 'pool' and pool is not None:
        if not fresh:
            refill(pool['y'], y, idx)
        data = pool['y'].copy() if fresh else pool['y']
    if call['data'] == 'nan':
        data = y.copy()
        data[M // 2, N // 3] = np.nan
    kw = dict(SPEED2.get(call['m'], {}))
    kw.update(PLAIN2.get(call['m'], {}))
    kw.update({k: (dict(v) if isinstance(v, dict) else v) for k, v in call['kw'].items()})
    if call['m'] == 'collab_pls':
        data = np.array([y, 1.1 * y + 1])
    sh = data_shape(call, M, N) or (M, N)
    if call['w'] == 'ok' or (call['w'] == 'pool' and (pool is None or sh != (M, N))):
        kw['weights'] = np.linspace(0.5, 1.5, sh[0] * sh[1]).reshape(sh)
    elif call['w'] == 'pool':
        if not fresh:
            refill(pool['w'], np.linspace(0.5, 1.5, M * N).reshape(M, N), idx)
        kw['weights'] = pool['w'].copy() if fresh else pool['w']
    elif call['w'] == 'bad':
        kw['weights'] = np.ones((sh[0] + 1, sh[1]))
    pool_params(call, kw, pool, fresh, 2, unpool)
    return data, kw


def observe_2d(f):
    def oz(v):
        return -1 if v is None else int(v)
    sh = f._shape
    o = [1 if f.x is None else 0, 1 if f.z is None else 0, oz(sh[0]), oz(sh[1]), oz(f._size),
         1 if f._validated_x else 0, 1 if f._validated_z else 0]
    P = f._polynomial
    if P is None:
        o += [0] + [-1] * 8
    else:
        pi = P._pseudo_inverse
        po = np.asarray(P.poly_order).ravel()
        zero_cols = int(np.sum(~P.vandermonde.any(axis=0)))
        o += [1, int(po[0]), int(po[1]), oz(P.max_cross), int(P.vandermonde.shape[1]), zero_cols,
              1 if P.pinv_stale else 0, 1 if pi is None else 0, -1 if pi is None else int(pi.shape[0])]
    S = f._spline_basis
    if S is None:
        o += [0, -1, -1, -1, -1, -1, -1, 1, -1, -1]
    else:
        full = getattr(S, '_basis', None)
        if full is None:
            fo = [1, -1, -1]
        else:
            from scipy.sparse import kron
            cur = kron(S.basis_r, S.basis_c)
            same = full.shape == cur.shape and (full != cur).nnz == 0
            fo = [0, int(full.shape[1]), 1 if same else 0]
        o += [1, int(S.num_knots[0]), int(S.num_knots[1]), int(S.spline_degree[0]), int(S.spline_degree[1]),
              int(S.basis_r.shape[1]), int(S.basis_c.shape[1])] + fo
    o += [int(f._banded_solver)]
    return o


def invariant_2d(f):
    try:
        return _invariant_2d(f)
    except Exception as exc:  # noqa
        return f'the cached objects are unusable: recomputing them for their own attributes raised {type(exc).__name__}: {exc}'


def _invariant_2d(f):
    P = f._polynomial
    if P is not None and f.x is not None and f.z is not None:
        from pybaselines.two_d._algorithm_setup import _PolyHelper2D
        T = _PolyHelper2D(f.x, f.z, f.x_domain, f.z_domain, P.poly_order, P.max_cross)
        if P.vandermonde.shape != T.vandermonde.shape or not np.array_equal(P.vandermonde, T.vandermonde):
            return f'cached 2-D Vandermonde is not the one for orders {list(P.poly_order)}, max_cross {P.max_cross}'
        if not P.pinv_stale and P._pseudo_inverse is not None:
            pv = np.linalg.pinv(T.vandermonde)
            if P._pseudo_inverse.shape != pv.shape or not np.array_equal(P._pseudo_inverse, pv):
                return 'cached 2-D pseudo-inverse (not flagged stale) is not pinv of the current Vandermonde'
    S = f._spline_basis
    if S is not None and f.x is not None and f.z is not None:
        from pybaselines.two_d._spline_utils import SplineBasis2D
        T = SplineBasis2D(f.x, f.z, S.num_knots, S.spline_degree)
        if ((S.basis_r != T.basis_r).nnz or (S.basis_c != T.basis_c).nnz
                or not np.array_equal(S.knots_r, T.knots_r) or not np.array_equal(S.knots_c, T.knots_c)):
            return f'cached 2-D spline basis is not SplineBasis2D(x, z, {list(S.num_knots)}, {list(S.spline_degree)})'
        full = getattr(S, '_basis', None)
        if full is not None:
            from scipy.sparse import kron
            want = kron(T.basis_r, T.basis_c)
            if full.shape != want.shape or (full != want).nnz:
                return ('the lazily created full basis (_basis) is not kron(basis_r, basis_c) for '
                        f'{list(S.num_knots)}, {list(S.spline_degree)}')
    return None


def new_2d(x, z, cfg=None):
    from pybaselines import Baseline2D
    from .c03 import cfg_kwargs
    with warnings.catch_warnings():
        warnings.simplefilter('ignore')
        return Baseline2D(None if x is None else np.array(x, dtype=float), None if z is None else np.array(z, dtype=float),
                          **cfg_kwargs(cfg))


def fresh_2d(f, x_in, z_in, cfg=None):
    x = x_in if x_in is not None else (None if f.x is None else f.x.copy())
    z = z_in if z_in is not None else (None if f.z is None else f.z.copy())
    g = new_2d(x, z, cfg)
    g.banded_solver = f.banded_solver
    return g


def do_call(f, call, args):
    with warnings.catch_warnings():
        warnings.simplefilter('ignore')
        try:
            if call['m'] == 'set_solver':
                f.banded_solver = call['v']
                return ('ok', None, {})
            data, kw = args
            b, p = getattr(f, call['m'])(data, **kw)
            return ('ok', b, p)
        except Exception as exc:  # noqa
            return ('raise', type(exc).__name__, str(exc)[:200])


def run_history_2d(h, check_fresh=True, unpool=()):
    from .c03 import same_result, describe_diff, config_invariant
    M, N, seed = h['M'], h['N'], h['seed']
    y = make_data2(M, N, seed)
    x_in, z_in = make_axes(h['x'], M, N)
    cfg = h.get('cfg')
    f = new_2d(x_in, z_in, cfg)
    recs = []
    diffs = []
    pool = {'w': np.ones((M, N)), 'y': y.copy()}
    for i, call in enumerate(h['calls']):
        args = None if call['m'] == 'set_solver' else call_args_2d(call, M, N, y, pool, i, unpool=unpool)
        ref = None
        if check_fresh and call['m'] != 'set_solver':
            g = fresh_2d(f, x_in, z_in, cfg)
            ref = do_call(g, call, call_args_2d(call, M, N, y, pool, i, fresh=True))
        res = do_call(f, call, args)
        recs.append((observe_2d(f) + [1 if res[0] == 'raise' else 0], res[0], res[1] if res[0] == 'raise' else None))
        if ref is not None and not any(d[2] == 'result' for d in diffs) and not same_result(res, ref):
            diffs.append((i, describe_diff(res, ref), 'result'))
        if check_fresh and not any(d[2] == 'invariant' for d in diffs):
            inv = config_invariant(f, cfg) or invariant_2d(f)
            if inv:
                diffs.append((i, 'invariant: ' + inv, 'invariant'))
    return recs, diffs


LAM_HOSTS_2D = [('asls', {'diff_order': 2, 'max_iter': 4, 'num_eigens': [5, 5]}), ('arpls', {'diff_order': 2, 'max_iter': 4, 'num_eigens': [5, 4]}),
                ('airpls', {'diff_order': [2, 1], 'max_iter': 4, 'num_eigens': [4, 5]}), ('asls', {'diff_order': 2, 'max_iter': 4, 'num_eigens': None}),
                ('iasls', {'diff_order': 2, 'max_iter': 4}),
                ('pspline_asls', {'num_knots': [4, 5], 'spline_degree': [2, 2], 'diff_order': [2, 2], 'max_iter': 4}),
                ('pspline_arpls', {'num_knots': [4, 4], 'spline_degree': [3, 1], 'diff_order': [2, 2], 'max_iter': 4}),
                ('mixture_model', {'num_knots': [4, 4], 'spline_degree': [2, 2], 'diff_order': [2, 2], 'max_iter': 4}),
                ('pspline_iasls', {'num_knots': [4, 4], 'spline_degree': [2, 2], 'diff_order': 2, 'max_iter': 4})]
W_HOSTS_2D = [('poly', {'poly_order': [2, 1], 'max_cross': None}), ('penalized_poly', {'poly_order': [1, 2], 'max_cross': 1, 'max_iter': 8}),
              ('quant_reg', {'poly_order': [1, 1], 'max_cross': None, 'max_iter': 8}), ('modpoly', {'poly_order': 2, 'max_cross': None, 'max_iter': 8})]
SHAPES_2D = [{'M': 12, 'N': 10, 'x': 'both'}, {'M': 9, 'N': 11, 'x': 'none'}, {'M': 10, 'N': 14, 'x': 'x'}]


def enumerated_2d():
    from .c03 import lam_family, weights_family
    return _rejected_2d() + lam_family(2, LAM_HOSTS_2D, SHAPES_2D) + weights_family(2, W_HOSTS_2D, SHAPES_2D)


def _rejected_2d():
    """Fixed grid: 2-D optimizers rejected inside / right after / before their delegated fit, on objects with a
    non-default output dtype, followed by ordinary probes."""
    import json
    out = []
    probes = [{'m': 'poly', 'kw': {'poly_order': [1, 2], 'max_cross': None}, 'data': 'ok', 'w': None},
              {'m': 'pspline_asls', 'kw': {'num_knots': [4, 4], 'spline_degree': [2, 2], 'diff_order': [2, 2]}, 'data': 'ok', 'w': None}]
    k = 0
    for m, modes in (('collab_pls', ('inner_body', 'bad_kw')), ('adaptive_minmax', ('inner_body', 'bad_kw')),
                     ('individual_axes', ('inner_body', 'bad_kw'))):
        for mode in modes:
            for dt in ('float32', 'int64'):
                if m == 'collab_pls':
                    kw = {'method': 'pspline_asls', 'method_kwargs': {'max_iter': 4, 'lam': 10, 'num_knots': [4, 4], 'spline_degree': [2, 2]}}
                elif m == 'adaptive_minmax':
                    kw = {'method': 'modpoly', 'poly_order': 1}
                else:
                    kw = {'method': 'asls', 'method_kwargs': {'lam': 1e2, 'max_iter': 4}, 'axes': 0}
                ok = {'m': m, 'kw': json.loads(json.dumps(kw)), 'data': 'ok', 'w': None}
                bad = make_failing_2d({'m': m, 'kw': json.loads(json.dumps(kw)), 'data': 'ok', 'w': None}, mode)
                out.append({'dim': 2, 'M': 12, 'N': 10, 'x': ['both', 'none', 'x'][k % 3], 'seed': 21 + k,
                            'cfg': {'dtype': dt, 'cf': True, 'as': False}, 'calls': [bad] + json.loads(json.dumps(probes)) + [ok]})
                k += 1
    return out


def make_failing_2d(call, mode):
    kw = call['kw']
    mk = dict(kw.get('method_kwargs') or {})
    if mode == 'bad_kw':
        mk['no_such_parameter'] = 1
    elif call['m'] == 'adaptive_minmax':
        if kw['method'] == 'poly':      # poly has no max_iter: that would be an unknown keyword, rejected before the setup
            kw['method'] = 'modpoly'
        mk['max_iter'] = 'many'
    else:
        mk['lam'] = -1.0
    kw['method_kwargs'] = mk
    call['fail'] = mode
    return call


def gen_history_2d(rng, nmax=10, k=0):
    hist_index = k
    M, N = rng.choice([(9, 11), (12, 10), (10, 14)])
    xk = rng.choice(['none', 'none', 'x', 'z', 'both', 'both', 'unsorted'])
    last = {}
    calls = [gen_call_2d(rng, last) for _ in range(rng.randint(1, nmax))]
    if rng.random() < 0.3:
        # two pspline_iasls calls (the only reader of the lazy full basis) whose keys differ on exactly ONE axis,
        # keeping or changing that axis' number of basis functions, possibly with another call in between
        k = list(rng.choice(K4_POOL))
        k2 = list(k)
        ax = rng.choice([0, 1])
        t = rng.random()
        if t < 0.4 and k[2 + ax] >= 1:
            k2[ax], k2[2 + ax] = k[ax] + 1, k[2 + ax] - 1        # same number of basis functions
        elif t < 0.7:
            k2[ax] = k[ax] + 1
        else:
            k2[2 + ax] = k[2 + ax] + 1
        mk = lambda kk: {'m': 'pspline_iasls', 'kw': {'diff_order': 2, 'num_knots': [kk[0], kk[1]],  # noqa: E731
                                                     'spline_degree': [kk[2], kk[3]]}, 'data': 'ok', 'w': None}
        seq = [mk(k)] + ([gen_call_2d(rng, last)] if rng.random() < 0.4 else []) + [mk(k2)]
        if rng.random() < 0.3:
            seq.append(mk(k))
        pos = rng.randint(0, len(calls))
        calls = calls[:pos] + seq + calls[pos:]
    from .c03 import echo
    calls = echo(rng, calls, FLOAT_KW2)
    from .c03 import CONFIGS
    cfg = CONFIGS[hist_index % len(CONFIGS)]
    if not cfg['cf']:
        calls = [dict(c, data='ok') if c.get('data') == 'nan' else c for c in calls]
    return {'dim': 2, 'cfg': cfg, 'M': M, 'N': N, 'x': xk, 'seed': rng.randrange(10 ** 6), 'calls': calls}


def nontrivial_2d(h):
    ps = [(tuple(pair(c['kw']['poly_order'])), c['kw'].get('max_cross')) for c in h['calls']
          if c.get('kw') and 'poly_order' in c['kw'] and c['m'] not in OPTIMIZERS2]
    ks = [(tuple(c['kw']['num_knots']), tuple(c['kw']['spline_degree'])) for c in h['calls']
          if c.get('kw') and 'num_knots' in c['kw']]
    return len(set(ps)) > 1 or len(set(ks)) > 1


def history_literal_2d(h, recs):
    from .c03 import unpredicted_ok
    M, N = h['M'], h['N']
    ops = ['[' + '; '.join(group_2d(c, M, N, unpredicted_ok(c, r))) + ']' for c, r in zip(h['calls'], recs)]
    exp = '[' + '; '.join('[' + '; '.join(zl(v) for v in rec[0]) + ']' for rec in recs) + ']'
    x0 = 'None' if h['x'] in ('none', 'z') else f'(Some {M})'
    z0 = 'None' if h['x'] in ('none', 'x') else f'(Some {N})'
    return f'({x0}, {z0}, [{"; ".join(ops)}], {exp})'
