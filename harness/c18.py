"""C18 -- padding and kernel helpers preserve the data and its length.  DESIGN.md section 4 / C18."""
import math
import warnings
from fractions import Fraction

import numpy as np

from .common import zl, zlist

PROP = 'C18'

HEADER = """From Coq Require Import ZArith QArith Qabs List Bool.
From PB Require Import lib.PySlice lib.CaseUtil C18.Model C18.Model2D C18.Cmp.
Import ListNotations.
Open Scope Z_scope.
"""

NP_MODELLED = ['edge', 'reflect', 'symmetric', 'wrap', 'constant']       # concrete in C18/Model.v
NP_MODES = ['constant', 'edge', 'linear_ramp', 'maximum', 'mean', 'median', 'minimum', 'reflect',
            'symmetric', 'wrap', 'empty']
CONST_KEEPING = ['edge', 'maximum', 'mean', 'median', 'minimum', 'reflect', 'symmetric', 'wrap', 'extrapolate']
MODE_CODE = {'extrapolate': 0, 'edge': 1, 'reflect': 2, 'symmetric': 3, 'wrap': 4, 'constant': 5}


def U():
    from pybaselines import utils
    return utils


def quiet(fn, *a, **k):
    with warnings.catch_warnings():
        warnings.simplefilter('ignore')
        with np.errstate(all='ignore'):
            return fn(*a, **k)


def call(fn, *a, **k):
    """('ok', value) or ('err', exception class name)."""
    try:
        return 'ok', quiet(fn, *a, **k)
    except Exception as exc:  # noqa
        return 'err', type(exc).__name__


# ---------------------------------------------------------------- Coq literals
def ql(fr):
    fr = Fraction(fr)
    n, d = fr.numerator, fr.denominator
    return f'({n} # {d})' if n >= 0 else f'(({n}) # {d})'


def qlist(vs):
    return '[' + '; '.join(ql(v) for v in vs) + ']'


def qrows(rows):
    return '[' + '; '.join(qlist(r) for r in rows) + ']'


def zrows(rows):
    return '[' + '; '.join(zlist(r) for r in rows) + ']'


def ew_lit(ew):
    if ew is None:
        return 'None'
    if isinstance(ew, int):
        return f'(Some [{zl(ew)}])'
    return f'(Some {zlist(ew)})'


def fr_list(a):
    return [Fraction(float(v)) for v in np.asarray(a, dtype=float).ravel()]


def tol_for(vals, data):
    """absolute tolerance for values produced by a library least-squares fit (Polynomial.fit/pinv)."""
    m = max([1.0] + [abs(float(v)) for v in np.asarray(vals, dtype=float).ravel()]
            + [abs(float(v)) for v in np.asarray(data, dtype=float).ravel()])
    return Fraction(m) / 10**8


def first_bad(vals):
    return not vals or not (vals[0].startswith('(0%nat, [])') or vals[0].startswith('(0, [])'))


def run_cases(ctx, name, decl, okdef, lits, per=300, header=None):
    """Evaluates `bad ok cases` shard by shard inside Coq; True when all agree."""
    header = header or HEADER
    ob = f'correspondence:{name}'
    ctx.obligations.append(ob)
    good = True
    shards = list(range(0, len(lits), per))

    def one(k):
        sh = lits[k:k + per]
        body = ';\n'.join('  ' + l for l in sh)
        text = header + f'\nDefinition cases : list ({decl}) := [\n{body}\n].\n{okdef}\nEval vm_compute in (bad ok cases).\n'
        return ctx.coq_eval(f'{name}{k // per}', text)
    # shards are independent coqc processes: evaluate up to four at a time, report in shard order
    from concurrent.futures import ThreadPoolExecutor
    with ThreadPoolExecutor(max_workers=4) as pool:
        results = list(pool.map(one, shards))
    for k, vals in zip(shards, results):
        if vals is None:
            good = False
        elif first_bad(vals):
            good = False
            ctx.broke(f'{ob}:shard{k // per}', f'model and implementation disagree ({name}); (count, first case indices in shard) = {vals}')
    if good:
        ctx.discharged.append(ob)
    return good


# ---------------------------------------------------------------- generators
def int_data(rng, n, kind=None):
    kind = kind or rng.choice(['rand', 'rand', 'linear', 'const', 'step', 'big'])
    if kind == 'linear':
        a, b = rng.randint(-20, 20), rng.randint(-9, 9)
        return [a + b * i for i in range(n)]
    if kind == 'const':
        return [rng.randint(-30, 30)] * n
    if kind == 'step':
        k = rng.randint(0, n)
        return [0] * k + [rng.randint(1, 50)] * (n - k)
    if kind == 'big':
        return [rng.randint(-10**6, 10**6) for _ in range(n)]
    return [rng.randint(-50, 50) for _ in range(n)]


def window_choices(rng, n, p):
    c = rng.random()
    if c < 0.15:
        return None
    if c < 0.55:
        return rng.choice([1, 2, 3, max(1, n - 1), n, n + 1, 2 * n + 3, rng.randint(1, n + 4)])
    return [rng.choice([1, 2, n, n + 2, rng.randint(1, n + 3)]), rng.choice([1, 2, 3, n, 3 * n, rng.randint(1, n + 3)])]


def pad_kwargs(mode, ew):
    if mode == 'extrapolate':
        return dict(mode='extrapolate', extrapolate_window=ew)
    return dict(mode=mode)


# ---------------------------------------------------------------- independent reference (Fractions)
def lsq_ref(xs, ys, ts):
    """exact least-squares line through (xs, ys) evaluated at ts (len >= 2, distinct xs)."""
    m = len(xs)
    xb = Fraction(sum(xs), m)
    yb = Fraction(sum(ys), m)
    sxx = sum((Fraction(x) - xb) ** 2 for x in xs)
    sxy = sum((Fraction(x) - xb) * (Fraction(y) - yb) for x, y in zip(xs, ys))
    b = sxy / sxx
    return [yb + b * (Fraction(t) - xb) for t in ts]


def ref_pad_extrapolate(y, p, ew):
    n = len(y)
    if ew is None:
        wl = wr = p
    elif isinstance(ew, int):
        wl = wr = ew
    else:
        wl, wr = ew
    y = [Fraction(v) for v in y]
    if wl == 1:
        left = [y[0]] * p
    else:
        m = min(wl, n)
        left = lsq_ref(range(0, m), y[:m], range(-p, 0))
    if wr == 1:
        right = [y[-1]] * p
    else:
        m = min(wr, n)
        right = lsq_ref(range(n - m, n), y[n - m:], range(n, n + p))
    return left + y + right


# ---------------------------------------------------------------- A/B. pad_edges correspondence
PAD_DECL = 'list Z * Z * Z * option (list Z) * option (list Q) * Q'
PAD_OK = """Definition ok (c : list Z * Z * Z * option (list Z) * option (list Q) * Q) : bool :=
  let '(data, p, code, ew, expected, tol) := c in
  match pad_edges (of_zlist data) p (mode_of code ew), expected with
  | Ok out, Some e => (vlen out =? Z.of_nat (length e)) && cmp_pad p (Z.of_nat (length data)) tol (vtab out) e
  | Err _, None => true
  | _, _ => false
  end."""


def pad_case(ctx, lits, y, p, mode, ew, kind):
    utils = U()
    st, out = call(utils.pad_edges, np.array(y, dtype=float), p, **pad_kwargs(mode, ew))
    n = len(y)
    if st == 'err':
        lits.append(f'({zlist(y)}, {zl(p)}, {MODE_CODE[mode]}, {ew_lit(ew)}, None, (0 # 1))')
    else:
        tol = tol_for(out, y) if mode == 'extrapolate' else 0
        lits.append(f'({zlist(y)}, {zl(p)}, {MODE_CODE[mode]}, {ew_lit(ew)}, Some {qlist(fr_list(out))}, {ql(tol)})')
    ctx.case(('pad', tuple(y), p, mode, repr(ew)), nontrivial=(p > 0 and st == 'ok'), kind=kind)
    return st, out


def corr_pad(ctx):
    rng = ctx.rng
    lits = []
    nmax = ctx.n(7, 12)
    # exhaustive small grid: every N, every pad length 0..3N, the five modelled numpy modes
    for n in range(1, nmax + 1):
        y = int_data(rng, n, 'rand')
        for p in range(0, 3 * n + 1):
            for mode in NP_MODELLED:
                pad_case(ctx, lits, y, p, mode, None, f'pad:{mode}')
    # extrapolate: N >= 2, pad 0..3N, windows None / scalar / per side, 1, > N
    for n in range(2, nmax + 1):
        for p in range(0, 3 * n + 1):
            for _ in range(ctx.n(2, 6)):
                y = int_data(rng, n)
                ew = window_choices(rng, n, p)
                pad_case(ctx, lits, y, p, 'extrapolate', ew, 'pad:extrapolate')
    for _ in range(ctx.n(150, 1500)):
        n = rng.randint(2, 40)
        p = rng.choice([1, 2, n // 2 + 1, n, n + 1, 3 * n, rng.randint(0, 3 * n)])
        mode = rng.choice(NP_MODELLED + ['extrapolate'] * 5)
        ew = window_choices(rng, n, p) if mode == 'extrapolate' else None
        pad_case(ctx, lits, int_data(rng, n), p, mode, ew, f'pad:{mode}:random')
    # rejected inputs
    for (y, p, mode, ew) in [([1, 2, 3], -1, 'extrapolate', None), ([1, 2, 3], -2, 'edge', None),
                             ([1, 2, 3], 2, 'extrapolate', 0), ([1, 2, 3], 2, 'extrapolate', [2, -1]),
                             ([1, 2, 3], 2, 'extrapolate', [1, 2, 3]), ([1, 2, 3], 0, 'extrapolate', 0),
                             ([1, 2, 3], 2, 'extrapolate', [0, 2])]:
        pad_case(ctx, lits, y, p, mode, ew, 'pad:rejected')
    ctx.sample({'kind': 'pad', 'data': [3, -1, 4], 'pad_length': 5, 'mode': 'extrapolate', 'extrapolate_window': [2, 7]})
    return run_cases(ctx, 'pad_edges', PAD_DECL, PAD_OK, lits)


# ---------------------------------------------------------------- C. padded_convolve correspondence
CONV_DECL = 'list Z * list Z * Z * option (list Z) * option (list Q) * Q'
CONV_OK = """Definition ok (c : list Z * list Z * Z * option (list Z) * option (list Q) * Q) : bool :=
  let '(data, ker, code, ew, expected, tol) := c in
  match padded_convolve (of_zlist data) (of_zlist ker) (mode_of code ew), expected with
  | Ok out, Some e => (vlen out =? Z.of_nat (length e)) && cmp_tol tol (vtab out) e
  | Err _, None => true
  | _, _ => false
  end."""


def conv_case(ctx, lits, y, k, mode, ew, kind):
    utils = U()
    kw = pad_kwargs(mode, ew)
    if mode == 'extrapolate' and ew is None:
        kw = dict(mode='extrapolate')
    # integer dtype for the numpy modes: scipy rounds an FFT-based result for integer input, so the
    # comparison is exact whichever method scipy.signal.convolve chooses
    dt = float if mode == 'extrapolate' else np.int64
    st, out = call(utils.padded_convolve, np.array(y, dtype=dt), np.array(k, dtype=dt), **kw)
    if st == 'err':
        lits.append(f'({zlist(y)}, {zlist(k)}, {MODE_CODE[mode]}, {ew_lit(ew)}, None, (0 # 1))')
    else:
        tol = tol_for(out, y) if mode == 'extrapolate' else 0
        lits.append(f'({zlist(y)}, {zlist(k)}, {MODE_CODE[mode]}, {ew_lit(ew)}, Some {qlist(fr_list(out))}, {ql(tol)})')
    n, m = len(y), len(k)
    ctx.case(('conv', tuple(y), tuple(k), mode, repr(ew)), nontrivial=st == 'ok',
             kind=f'conv:{"M<N" if m < n else "M=N" if m == n else "M>N"}')


def corr_conv(ctx):
    rng = ctx.rng
    lits = []
    nmax = ctx.n(7, 11)
    for n in range(1, nmax + 1):
        for m in list(range(1, 2 * n + 4)) + [3 * n + 5]:
            y = int_data(rng, n, 'rand')
            k = [rng.randint(-5, 9) for _ in range(m)]
            modes = NP_MODELLED if n <= 4 else [rng.choice(NP_MODELLED), 'reflect']
            for mode in modes:
                conv_case(ctx, lits, y, k, mode, None, 'conv')
            if n >= 2:
                conv_case(ctx, lits, y, k, 'extrapolate', rng.choice([None, 1, 2, n, [2, n + 3]]), 'conv')
    for _ in range(ctx.n(60, 600)):
        n = rng.randint(1, 30)
        m = rng.choice([1, 2, n - 1, n, n + 1, 2 * n + 1, rng.randint(1, 40)])
        m = max(1, m)
        conv_case(ctx, lits, int_data(rng, n), [rng.randint(0, 7) for _ in range(m)], rng.choice(NP_MODELLED), None, 'conv')
    ctx.sample({'kind': 'padded_convolve', 'data': [1, 2, 3], 'kernel': [1, 1, 1, 1, 1, 1, 1], 'mode': 'reflect'})
    return run_cases(ctx, 'padded_convolve', CONV_DECL, CONV_OK, lits)



# ---------------------------------------------------------------- D. kernels: model with exp given as a table
KER_DECL = 'Z * Z * Q * list (Q * Q) * list Q'
KER_OK = """Fixpoint lookupQ (t : list (Q * Q)) (x : Q) : Q :=
  match t with [] => 0%Q | (k, v) :: t' => if Qeq_bool x k then v else lookupQ t' x end.
Definition ok (c : Z * Z * Q * list (Q * Q) * list Q) : bool :=
  let '(kind, ws, sigma, table, expected) := c in
  let g := if kind =? 0 then gaussian_kernel (lookupQ table) ws sigma else mollifier_kernel (lookupQ table) ws in
  (vlen g =? Z.of_nat (length expected)) && cmp_tol (1 # 1000000000000) (vtab g) expected."""


def exp_table(args):
    seen = {}
    for a in args:
        if a not in seen:
            seen[a] = Fraction(math.exp(float(a)))
    return '[' + '; '.join(f'({ql(a)}, {ql(v)})' for a, v in seen.items()) + ']'


def corr_kernels(ctx):
    utils = U()
    lits = []
    sigmas = [Fraction(1), Fraction(1, 2), Fraction(5, 2), Fraction(7), Fraction(3, 4)]
    for ws in list(range(-1, ctx.n(14, 30))) + [25, 40]:
        for sg in sigmas[:ctx.n(3, 5)] if ws < 12 else sigmas[:1]:
            st, g = call(utils.gaussian_kernel, ws, float(sg))
            ctx.case(('k-gauss', ws, sg), nontrivial=ws > 1, kind='kernel:gaussian')
            if st == 'err':
                ctx.fail('gaussian_kernel:raises', f'gaussian_kernel({ws}, {float(sg)}) raised {g}', {'kind': 'gauss', 'window_size': ws, 'sigma': float(sg)})
                continue
            n = max(1, ws)
            args = [-Fraction(1, 2) * (Fraction(i) - Fraction(n - 1, 2)) ** 2 / (sg * sg) for i in range(n)]
            lits.append(f'(0, {zl(ws)}, {ql(sg)}, {exp_table(args)}, {qlist(fr_list(g))})')
    for w in list(range(1, ctx.n(12, 30))) + [20, 33]:
        st, g = call(utils._mollifier_kernel, w)
        ctx.case(('k-moll', w), nontrivial=True, kind='kernel:mollifier')
        if st == 'err':
            ctx.fail('mollifier_kernel:raises', f'_mollifier_kernel({w}) raised {g}', {'kind': 'moll', 'window_size': w})
            continue
        args = [Fraction(-1) / (1 - Fraction(i - w, w) ** 2) for i in range(1, 2 * w)]
        lits.append(f'(1, {zl(w)}, (1 # 1), {exp_table(args)}, {qlist(fr_list(g))})')
    return run_cases(ctx, 'kernels', KER_DECL, KER_OK, lits, per=100)

# ---------------------------------------------------------------- E. optimize_window trace validation
OW_DECL = 'list (Z * bool) * Z * Z * Z * Z * option Z'
OW_OK = """Definition ok (c : list (Z * bool) * Z * Z * Z * Z * option Z) : bool :=
  let '(trace, inc, max_hits, max_hw, min_hw, expected) := c in
  match optimize_window (close_of trace) inc max_hits max_hw min_hw, expected with
  | Ok r, Some e => (r =? e) && zl_eqb (scan_of trace inc max_hits max_hw min_hw) (map fst trace)
  | Err _, None => true
  | _, _ => false
  end."""


def traced_optimize_window(data, **kw):
    """Runs utils.optimize_window recording (half_window, close?) of every loop pass."""
    utils = U()
    trace = []
    sizes = []
    real_rd, real_go = utils.relative_difference, utils.grey_opening
    tol = kw.get('window_tol', 1e-6)

    def go(y, size, *a, **k):
        sizes.append(int(size[0]))
        return real_go(y, size, *a, **k)

    def rd(old, new, *a, **k):
        v = real_rd(old, new, *a, **k)
        trace.append(((sizes[-1] - 1) // 2, bool(v < tol)))
        return v
    utils.relative_difference, utils.grey_opening = rd, go
    try:
        st, out = call(utils.optimize_window, data, **kw)
    finally:
        utils.relative_difference, utils.grey_opening = real_rd, real_go
    return st, out, trace


def gen_ow_data(rng, two_d=False):
    nrng = np.random.default_rng(rng.randrange(2**32))
    kind = rng.choice(['const', 'noise', 'peaks', 'ramp', 'tiny', 'smooth'])
    n = rng.choice([1, 2, 3, 4, 5]) if kind == 'tiny' else rng.randint(6, 120)
    shape = (rng.randint(2, 12), n) if two_d else (n,)
    if kind == 'const':
        y = np.full(shape, float(rng.randint(-3, 3)))
    elif kind == 'ramp':
        y = np.broadcast_to(np.arange(n, dtype=float), shape).copy()
    elif kind in ('peaks', 'smooth'):
        x = np.arange(n, dtype=float)
        y = np.zeros(n)
        for _ in range(rng.randint(1, 4)):
            y += rng.uniform(1, 10) * np.exp(-0.5 * ((x - rng.uniform(0, n)) / rng.uniform(0.5, max(1, n / 8))) ** 2)
        if kind == 'peaks':
            y += nrng.normal(0, 0.01, n)
        y = np.broadcast_to(y, shape).copy()
    else:
        y = nrng.normal(0, 1, shape)
    return kind, y


def gen_ow_kwargs(rng, n):
    kw = {}
    if rng.random() < 0.4:
        kw['increment'] = rng.choice([1, 2, 3, 5])
    if rng.random() < 0.4:
        kw['max_hits'] = rng.choice([1, 2, 3, 5])
    if rng.random() < 0.3:
        kw['min_half_window'] = rng.choice([1, 2, 3, n // 2 + 1])
    if rng.random() < 0.3:
        kw['max_half_window'] = rng.choice([1, 3, n // 2, n, 2 * n])
    if rng.random() < 0.3:
        kw['window_tol'] = rng.choice([1e-6, 1e-2, 0.5, 10.0])
    return kw


def corr_ow(ctx):
    rng = ctx.rng
    lits = []
    for c in range(ctx.n(200, 1500)):
        two_d = c % 5 == 4
        kind, y = gen_ow_data(rng, two_d)
        n = y.shape[-1]
        kw = gen_ow_kwargs(rng, n)
        st, out, trace = traced_optimize_window(y, **kw)
        inc, mh = kw.get('increment', 1), kw.get('max_hits', 3)
        mx = kw.get('max_half_window', (n - 1) // 2)
        mn = kw.get('min_half_window', 1)
        tl = '[' + '; '.join(f'({zl(h)}, {"true" if b else "false"})' for h, b in trace) + ']'
        if st == 'err':
            exp = 'None'
        else:
            o = np.asarray(out).ravel()
            if two_d and (len(o) != 2 or o[0] != o[1]):
                ctx.fail('optimize_window:2d-shape', f'optimize_window on 2-D data returned {out!r}', {'kind': 'ow', 'data': y.tolist(), 'kwargs': kw})
            exp = f'(Some {zl(int(o[0]))})'
        lits.append(f'({tl}, {zl(inc)}, {zl(mh)}, {zl(mx)}, {zl(mn)}, {exp})')
        hit = any(b for _, b in trace)
        ctx.case(('ow', kind, y.shape, tuple(sorted(kw.items())), tuple(trace)), nontrivial=len(trace) >= 1,
                 kind=f'optimize_window:{kind}:{"hit" if hit else "nohit"}')
        ctx.traces += 1
    # increment = 0 -> range() raises
    st, out, trace = traced_optimize_window(np.arange(20.0), increment=0)
    lits.append(f'([], 0, 3, 9, 1, {"None" if st == "err" else "(Some " + zl(int(out)) + ")"})')
    return run_cases(ctx, 'optimize_window', OW_DECL, OW_OK, lits)


# ---------------------------------------------------------------- direct oracle (implementation only)
def close(a, b, scale=1.0, rel=1e-9):
    return abs(float(a) - float(b)) <= rel * max(1.0, abs(scale))


def oracle_pad(ctx, budget):
    utils = U()
    rng = ctx.rng
    nmax = 8 if budget == 1 else 16
    found = 0
    for n in range(1, nmax + 1):
        y = np.array(int_data(rng, n, 'rand'), dtype=float)
        for p in range(0, 3 * n + 1):
            for mode in NP_MODES:
                st, out = call(utils.pad_edges, y, p, mode=mode)
                ctx.case(('o-pad', n, p, mode), nontrivial=p > 0, kind=f'oracle:pad:{mode}')
                case = {'kind': 'pad', 'data': y.tolist(), 'pad_length': p, 'mode': mode, 'extrapolate_window': None}
                if st == 'err':
                    ctx.fail(f'pad_edges:raises:{mode}', f'pad_edges(N={n}, pad_length={p}, mode={mode!r}) raised {out}', case)
                    found += 1
                elif out.shape != (n + 2 * p,) or not np.array_equal(out[p:p + n], y):
                    ctx.fail(f'pad_edges:len-interior:{mode}', f'pad_edges(N={n}, pad_length={p}, mode={mode!r}): shape {out.shape}, interior changed or misplaced', case)
                    found += 1
            if n < 2:
                continue
            wins = [None, 1, 2, n, n + 3, [1, n], [n + 1, 2], [2, 3 * n]]
            for ew in wins:
                data = np.array(int_data(rng, n), dtype=float)
                found += check_extrapolate(ctx, data, p, ew)
    for _ in range(150 * budget):
        n = rng.randint(2, 300)
        p = rng.choice([1, n // 2, n, 3 * n, rng.randint(0, 3 * n)])
        data = np.array(int_data(rng, n, rng.choice(['rand', 'linear', 'const'])), dtype=float) * rng.choice([1.0, 0.125, 3.5])
        found += check_extrapolate(ctx, data, p, window_choices(rng, n, p))
    return found


def check_extrapolate(ctx, data, p, ew):
    utils = U()
    n = len(data)
    st, out = call(utils.pad_edges, data, p, mode='extrapolate', extrapolate_window=ew)
    case = {'kind': 'pad', 'data': data.tolist(), 'pad_length': p, 'mode': 'extrapolate', 'extrapolate_window': ew}
    ctx.case(('o-ext', data.tobytes(), p, repr(ew)), nontrivial=p > 0, kind='oracle:pad:extrapolate')
    if st == 'err':
        ctx.fail('pad_edges:raises:extrapolate', f'pad_edges(N={n}, pad_length={p}, extrapolate_window={ew}) raised {out}', case)
        return 1
    if out.shape != (n + 2 * p,) or not np.array_equal(out[p:p + n], data):
        ctx.fail('pad_edges:len-interior:extrapolate', f'pad_edges(N={n}, pad_length={p}, extrapolate, window={ew}): shape {out.shape} or interior wrong', case)
        return 1
    if p == 0:
        return 0
    ref = ref_pad_extrapolate([Fraction(float(v)) for v in data], p, ew)
    scale = max(1.0, max(abs(float(v)) for v in ref))
    for i, (a, b) in enumerate(zip(out, ref)):
        if not close(a, b, scale, 1e-8):
            ctx.fail('pad_edges:extrapolate:not-least-squares-line',
                     f'pad_edges(N={n}, pad_length={p}, extrapolate_window={ew}): point {i} is {a!r}, the least-squares continuation is {float(b)!r}', case)
            return 1
    return 0


def oracle_conv(ctx, budget):
    utils = U()
    rng = ctx.rng
    found = 0
    nmax = 9 if budget == 1 else 20
    for n in range(1, nmax + 1):
        for m in list(range(1, 2 * n + 4)) + [4 * n + 1]:
            k = np.array([rng.randint(1, 9) for _ in range(m)], dtype=float)
            k = k / k.sum()
            c = float(rng.choice([1, -2, 5, 0.5]))
            y = np.full(n, c)
            for mode in CONST_KEEPING + ['constant']:
                if mode == 'extrapolate' and n < 2:
                    continue
                st, out = call(utils.padded_convolve, y, k, mode=mode)
                ctx.case(('o-conv', n, m, mode, k.tobytes()), nontrivial=True, kind=f'oracle:conv:{"M<=N" if m <= n else "M>N"}')
                case = {'kind': 'conv', 'data': y.tolist(), 'kernel': k.tolist(), 'mode': mode}
                if st == 'err':
                    ctx.fail(f'padded_convolve:raises:{mode}', f'padded_convolve(N={n}, M={m}, mode={mode!r}) raised {out}', case)
                    found += 1
                    continue
                if out.shape != (n,):
                    ctx.fail('padded_convolve:length', f'padded_convolve(N={n}, M={m}, mode={mode!r}) returned shape {out.shape}', case)
                    found += 1
                    continue
                if mode != 'constant' and m <= n and not np.allclose(out, c, rtol=1e-9, atol=1e-9):
                    ctx.fail('padded_convolve:constant-changed', f'padded_convolve(N={n}, M={m}<=N, mode={mode!r}) changes constant data {c}: {out.tolist()}', case)
                    found += 1
                if mode != 'constant' and m > n:
                    # characterisation of C18_convolve_const_general
                    p = (min(n, m) + 1) // 2
                    exp = [c * sum(k[j] for j in range(m) if 0 <= p + i + (m - 1) // 2 - j < n + 2 * p) for i in range(n)]
                    if not np.allclose(out, exp, rtol=1e-9, atol=1e-9):
                        ctx.fail('padded_convolve:long-kernel-mass', f'padded_convolve(N={n}, M={m}>N, mode={mode!r}) differs from c * (kernel mass inside the padded array)', case)
                        found += 1
    # arbitrary data against an independent direct convolution
    for _ in range(100 * budget):
        n, m = rng.randint(1, 40), rng.randint(1, 60)
        y = np.array(int_data(rng, n), dtype=np.int64)
        k = np.array([rng.randint(-3, 9) for _ in range(m)], dtype=np.int64)
        mode = rng.choice(['reflect', 'edge', 'symmetric', 'wrap', 'maximum'])
        st, out = call(utils.padded_convolve, y, k, mode=mode)
        ctx.case(('o-conv-r', y.tobytes(), k.tobytes(), mode), nontrivial=True, kind='oracle:conv:random')
        case = {'kind': 'conv', 'data': y.tolist(), 'kernel': k.tolist(), 'mode': mode}
        if st == 'err' or out.shape != (n,):
            ctx.fail('padded_convolve:length', f'padded_convolve(N={n}, M={m}, mode={mode!r}) -> {out if st == "err" else out.shape}', case)
            found += 1
            continue
        p = (min(n, m) + 1) // 2
        yp = np.pad(y, p, mode)
        exp = [sum(int(k[j]) * int(yp[t - j]) for j in range(m) if 0 <= t - j < n + 2 * p)
               for t in (p + i + (m - 1) // 2 for i in range(n))]
        if not np.array_equal(out, np.array(exp)):
            ctx.fail('padded_convolve:value', f'padded_convolve(N={n}, M={m}, mode={mode!r}) differs from the centred direct convolution of the padded data', case)
            found += 1
    # C18_pad_index_modes_copy on the implementation: pad(f(y)) == f(pad(y)) for a non-linear, non-monotone f
    import random as _random
    mrng = _random.Random(18181)
    for n in range(1, 9 if budget == 1 else 17):
        for p in sorted({0, 1, 2, n - 1, n, n + 1, 2 * n + 1, 3 * n}):
            for mode in ['reflect', 'edge', 'symmetric', 'wrap']:
                y0 = np.array([mrng.randint(-20, 20) for _ in range(n)], dtype=np.int64)
                fy = y0 * y0 - 7 * y0 + 3
                r0, rf = call(utils.pad_edges, y0, p, mode=mode), call(utils.pad_edges, fy, p, mode=mode)
                ctx.case(('o-pad-map', n, p, mode), nontrivial=p > 0, kind='oracle:pad:map')
                case = {'kind': 'pad', 'data': fy.tolist(), 'pad_length': p, 'mode': mode, 'extrapolate_window': None,
                        'y': y0.tolist(), 'f': 'y*y - 7*y + 3'}
                if r0[0] == 'err' and rf[0] == 'err' and r0[1] == rf[1]:
                    continue
                o0 = np.asarray(r0[1]) if r0[0] == 'ok' else None
                if r0[0] != 'ok' or rf[0] != 'ok' or not np.array_equal(np.asarray(rf[1]), o0 * o0 - 7 * o0 + 3):
                    ctx.fail('pad_edges:not-a-copy', f'pad_edges(N={n}, pad={p}, mode={mode!r}) of f(y) is not f(pad_edges(y))', case)
                    found += 1
    # C18_extrapolate_affine_equivariant on the implementation (float fit: relative tolerance on the scale of the data)
    for n in range(2, 9 if budget == 1 else 17):
        for p in sorted({1, 2, n, 2 * n + 1}):
            for ew in [None, 1, 2, 3, n, n + 5, (1, 3), (4, 2)]:
                y0 = np.array([mrng.randint(-20, 20) for _ in range(n)], dtype=float)
                a, b = mrng.choice([-3, -1, 0, 2, 5]), mrng.randint(-9, 9)
                r0 = call(utils.pad_edges, y0, p, mode='extrapolate', extrapolate_window=ew)
                ra = call(utils.pad_edges, a * y0 + b, p, mode='extrapolate', extrapolate_window=ew)
                ctx.case(('o-pad-aff', n, p, str(ew)), nontrivial=True, kind='oracle:pad:affine')
                case = {'kind': 'pad', 'data': (a * y0 + b).tolist(), 'pad_length': p, 'mode': 'extrapolate',
                        'extrapolate_window': list(ew) if isinstance(ew, tuple) else ew, 'y': y0.tolist(), 'a': a, 'b': b}
                if r0[0] == 'err' and ra[0] == 'err' and r0[1] == ra[1]:
                    continue
                if r0[0] != 'ok' or ra[0] != 'ok' or np.shape(ra[1]) != np.shape(r0[1]):
                    ctx.fail('pad_edges:affine-status', f'pad_edges(N={n}, pad={p}, extrapolate_window={ew}) of {a}*y+{b}: {ra[0]} vs {r0[0]} for y', case)
                    found += 1
                    continue
                exp = a * np.asarray(r0[1]) + b
                tol = 1e-8 * max(1.0, float(np.max(np.abs(exp))), float(np.max(np.abs(r0[1]))) * abs(a))
                if not np.all(np.abs(np.asarray(ra[1]) - exp) <= tol):
                    ctx.fail('pad_edges:not-affine-equivariant', f'pad_edges(N={n}, pad={p}, extrapolate_window={ew}) of {a}*y+{b} is not {a}*pad_edges(y)+{b}', case)
                    found += 1
    # C18_convolve_extrapolate_linear on the implementation (float fit: relative tolerance)
    for n in range(2, 9 if budget == 1 else 17):
        for m in sorted({1, 2, 3, n, n + 1, 2 * n + 1}):
            for ew in [None, 1, 2, n + 3]:
                y1 = np.array([mrng.randint(-20, 20) for _ in range(n)], dtype=float)
                y2 = np.array([mrng.randint(-20, 20) for _ in range(n)], dtype=float)
                kk = np.array([mrng.randint(-3, 9) for _ in range(m)], dtype=float)
                a, b = mrng.choice([-3, -1, 0, 2, 5]), mrng.choice([-2, 1, 4])
                kw = {} if ew is None else {'extrapolate_window': ew}
                r1, r2, r = (call(utils.padded_convolve, v, kk, mode='extrapolate', **kw) for v in (y1, y2, a * y1 + b * y2))
                ctx.case(('o-conv-extlin', n, m, str(ew)), nontrivial=True, kind='oracle:conv:extrapolate-linear')
                case = {'kind': 'conv', 'data': (a * y1 + b * y2).tolist(), 'kernel': kk.tolist(), 'mode': 'extrapolate',
                        'extrapolate_window': ew, 'y1': y1.tolist(), 'y2': y2.tolist(), 'a': a, 'b': b}
                sts = {r1[0], r2[0], r[0]}
                if sts == {'err'} and r1[1] == r[1] == r2[1]:
                    continue
                bad = sts != {'ok'}
                if not bad:
                    exp = a * np.asarray(r1[1]) + b * np.asarray(r2[1])
                    scale = max(1.0, float(np.max(np.abs(r1[1]))) * abs(a) + float(np.max(np.abs(r2[1]))) * abs(b))
                    bad = np.shape(r[1]) != np.shape(exp) or not np.all(np.abs(np.asarray(r[1]) - exp) <= 1e-8 * scale)
                if bad:
                    ctx.fail('padded_convolve:extrapolate-not-linear', f'padded_convolve(N={n}, M={m}, extrapolate_window={ew}) of {a}*y1 + {b}*y2 is not {a}*out1 + {b}*out2', case)
                    found += 1
    # C18_convolve_reflect_offset on the implementation: dyadic unit-sum kernels, integer data and offsets (exact in float64)
    for n in range(1, 9 if budget == 1 else 17):
        for m in range(1, n + 1):
            kk = [mrng.randint(0, 8) for _ in range(m - 1)]
            tot = 64 if m <= 8 else 1024
            kk = np.array(kk + [tot - sum(kk)], dtype=float) / tot
            y0 = np.array([mrng.randint(-50, 50) for _ in range(n)], dtype=float)
            b = float(mrng.choice([-1000, -3, 1, 17, 4096]))
            r0, rb = call(utils.padded_convolve, y0, kk, mode='reflect'), call(utils.padded_convolve, y0 + b, kk, mode='reflect')
            ctx.case(('o-conv-offset', n, m), nontrivial=True, kind='oracle:conv:offset')
            case = {'kind': 'conv', 'data': (y0 + b).tolist(), 'kernel': kk.tolist(), 'mode': 'reflect', 'y': y0.tolist(), 'b': b}
            if r0[0] != 'ok' or rb[0] != 'ok' or np.shape(rb[1]) != (n,) or \
                    not np.all(np.abs(np.asarray(rb[1]) - (np.asarray(r0[1]) + b)) <= 1e-9 * max(1.0, abs(b))):
                ctx.fail('padded_convolve:offset', f'padded_convolve(N={n}, M={m}, unit-sum kernel, reflect) of y + {b} is not padded_convolve(y) + {b}', case)
                found += 1
    # C18_convolve_index_modes_linear on the implementation: exact integer data, enumerated sizes, the four
    # index-function modes; a private generator so that the streams above and below are unchanged
    lrng = _random.Random(18180)
    for n in range(1, 9 if budget == 1 else 17):
        for m in sorted({1, 2, 3, n, n + 1, 2 * n + 1}):
            for mode in ['reflect', 'edge', 'symmetric', 'wrap']:
                y1 = np.array([lrng.randint(-50, 50) for _ in range(n)], dtype=np.int64)
                y2 = np.array([lrng.randint(-50, 50) for _ in range(n)], dtype=np.int64)
                k = np.array([lrng.randint(-3, 9) for _ in range(m)], dtype=np.int64)
                a, b = lrng.randint(-4, 4), lrng.randint(-4, 4)
                r1, r2, r = (call(utils.padded_convolve, v, k, mode=mode) for v in (y1, y2, a * y1 + b * y2))
                ctx.case(('o-conv-lin', n, m, mode), nontrivial=True, kind='oracle:conv:linear')
                case = {'kind': 'conv', 'data': (a * y1 + b * y2).tolist(), 'kernel': k.tolist(), 'mode': mode,
                        'y1': y1.tolist(), 'y2': y2.tolist(), 'a': a, 'b': b}
                sts = {r1[0], r2[0], r[0]}
                if sts == {'err'}:
                    continue
                if sts != {'ok'} or not np.array_equal(np.asarray(r[1]), a * np.asarray(r1[1]) + b * np.asarray(r2[1])):
                    ctx.fail('padded_convolve:not-linear', f'padded_convolve(N={n}, M={m}, mode={mode!r}) of {a}*y1 + {b}*y2 is not {a}*out1 + {b}*out2', case)
                    found += 1
                # C18_convolve_kernel_linear: same data, a*k + b*k2 (exact for the index modes)
                k2 = np.array([lrng.randint(-3, 9) for _ in range(m)], dtype=np.int64)
                q1, q2, q = (call(utils.padded_convolve, y1, kk, mode=mode) for kk in (k, k2, a * k + b * k2))
                ctx.case(('o-conv-klin', n, m, mode), nontrivial=True, kind='oracle:conv:kernel-linear')
                case = {'kind': 'conv', 'data': y1.tolist(), 'kernel': (a * k + b * k2).tolist(), 'mode': mode,
                        'k1': k.tolist(), 'k2': k2.tolist(), 'a': a, 'b': b}
                sts = {q1[0], q2[0], q[0]}
                if sts == {'err'}:
                    continue
                if sts != {'ok'} or not np.array_equal(np.asarray(q[1]), a * np.asarray(q1[1]) + b * np.asarray(q2[1])):
                    ctx.fail('padded_convolve:not-linear-in-kernel', f'padded_convolve(N={n}, M={m}, mode={mode!r}) with {a}*k1 + {b}*k2 is not {a}*out1 + {b}*out2', case)
                    found += 1
    return found


def oracle_kernels(ctx, budget):
    utils = U()
    found = 0
    sigmas = [0.3, 1.0, 2.5, 7.0, 40.0]
    for ws in list(range(-2, 60)) + [101, 256, 1001]:
        for sg in sigmas:
            st, g = call(utils.gaussian_kernel, ws, sg)
            ctx.case(('o-gauss', ws, sg), nontrivial=ws > 1, kind='oracle:gaussian_kernel')
            case = {'kind': 'gauss', 'window_size': ws, 'sigma': sg}
            if st == 'err':
                ctx.fail('gaussian_kernel:raises', f'gaussian_kernel({ws}, {sg}) raised {g}', case)
                found += 1
                continue
            n = max(1, ws)
            x = np.arange(n) - (n - 1) / 2
            ref = np.exp(-0.5 * x**2 / sg**2)
            ref = ref / ref.sum()
            if (g.shape != (n,) or not np.all(g >= 0) or not np.allclose(g, g[::-1], rtol=1e-13, atol=0)
                    or abs(g.sum() - 1) > 1e-12 or not np.allclose(g, ref, rtol=1e-12, atol=1e-300)):
                ctx.fail('gaussian_kernel:props', f'gaussian_kernel({ws}, {sg}): length/sign/symmetry/unit sum/formula violated', case)
                found += 1
    for w in list(range(1, 80)) + [150, 500]:
        st, g = call(utils._mollifier_kernel, w)
        ctx.case(('o-moll', w), nontrivial=True, kind='oracle:mollifier_kernel')
        case = {'kind': 'moll', 'window_size': w}
        if st == 'err':
            ctx.fail('mollifier_kernel:raises', f'_mollifier_kernel({w}) raised {g}', case)
            found += 1
            continue
        x = (np.arange(2 * w + 1) - w) / w
        ref = np.zeros(2 * w + 1)
        ref[1:-1] = np.exp(-1 / (1 - x[1:-1]**2))
        ref = ref / ref.sum()
        if (g.shape != (2 * w + 1,) or not np.all(g >= 0) or g[0] != 0 or g[-1] != 0
                or not np.allclose(g, g[::-1], rtol=1e-13, atol=0) or abs(g.sum() - 1) > 1e-12
                or not np.allclose(g, ref, rtol=1e-12, atol=1e-300)):
            ctx.fail('mollifier_kernel:props', f'_mollifier_kernel({w}): length/sign/zero ends/symmetry/unit sum/formula violated', case)
            found += 1
    return found


def oracle_ow(ctx, budget):
    utils = U()
    rng = ctx.rng
    found = 0
    for c in range(150 * budget):
        two_d = c % 4 == 3
        kind, y = gen_ow_data(rng, two_d)
        kw = gen_ow_kwargs(rng, y.shape[-1])
        st, out = call(utils.optimize_window, y, **kw)
        ctx.case(('o-ow', kind, y.tobytes(), tuple(sorted(kw.items()))), nontrivial=True, kind=f'oracle:optimize_window:{kind}')
        case = {'kind': 'ow', 'data': y.tolist(), 'kwargs': kw}
        if st == 'err':
            ctx.fail('optimize_window:raises', f'optimize_window(shape {y.shape}, {kw}) raised {out}', case)
            found += 1
            continue
        o = np.asarray(out)
        okay = (o.shape == ((2,) if two_d else ())) and np.issubdtype(o.dtype, np.integer) and np.all(o >= 1)
        if not two_d:
            okay = okay and isinstance(out, (int, np.integer))
        if not okay:
            ctx.fail('optimize_window:not-int-ge-1', f'optimize_window(shape {y.shape}, {kw}) returned {out!r}', case)
            found += 1
    return found



# ---------------------------------------------------------------- F. 2-D: pad_edges2d / _extrapolate2d
P2_DECL = 'list (list Z) * Z * Z * option (list Z) * option (list (list Q)) * Q'
P2_OK = """Definition ok (c : list (list Z) * Z * Z * option (list Z) * option (list (list Q)) * Q) : bool :=
  let '(rows, a, b, ew, expected, tol) := c in
  match extrapolate2d (mat_of_zrows rows) a b ew, expected with
  | Ok out, Some e => cmp_otab tol (otab out) e
  | Err _, None => true
  | _, _ => false
  end."""


def gen_mat(rng, r, c):
    kind = rng.choice(['rand', 'plane', 'const', 'rand'])
    if kind == 'plane':
        c0, cr, cc = rng.randint(-9, 9), rng.randint(-5, 5), rng.randint(-5, 5)
        return kind, [[c0 + cr * i + cc * j for j in range(c)] for i in range(r)]
    if kind == 'const':
        v = rng.randint(-9, 9)
        return kind, [[v] * c for _ in range(r)]
    return kind, [[rng.randint(-20, 20) for _ in range(c)] for _ in range(r)]


def window2d_choices(rng, r, c):
    k = rng.random()
    if k < 0.2:
        return None
    if k < 0.45:
        return rng.choice([1, 2, 3, max(r, c) + 2])
    if k < 0.7:
        return [rng.choice([1, 2, r, r + 3]), rng.choice([1, 2, c, c + 3])]
    return [rng.choice([1, 2, r + 1]), rng.choice([1, 2, 3]), rng.choice([1, 2, c]), rng.choice([1, 2, 2 * c])]


def win4(ew, a, b):
    if ew is None:
        return a, a, b, b
    if isinstance(ew, int):
        return ew, ew, ew, ew
    if len(ew) == 2:
        return ew[0], ew[0], ew[1], ew[1]
    return tuple(ew)


def corr_2d(ctx):
    utils = U()
    rng = ctx.rng
    lits = []
    cases = []
    for r in range(1, ctx.n(5, 7)):
        for c in range(1, ctx.n(5, 7)):
            for (a, b) in ((1, 1), (2, 3), (3 * r, 1), (1, 3 * c)):
                cases.append((r, c, a, b))
    for _ in range(ctx.n(30, 400)):
        r, c = rng.randint(2, 6), rng.randint(2, 6)
        cases.append((r, c, rng.randint(1, min(3 * r, 7)), rng.randint(1, min(3 * c, 7))))
    for (r, c, a, b) in cases:
        kind, rows = gen_mat(rng, r, c)
        ew = window2d_choices(rng, r, c)
        st, out = call(utils.pad_edges2d, np.array(rows, dtype=float), [a, b], mode='extrapolate', extrapolate_window=ew)
        if st == 'err':
            exp, tol = 'None', Fraction(0)
        else:
            tol = tol_for(out, rows)
            exp = 'Some ' + qrows([fr_list(row) for row in out])
        lits.append(f'({zrows(rows)}, {zl(a)}, {zl(b)}, {ew_lit(ew)}, {exp}, {ql(tol)})')
        ctx.case(('p2', tuple(map(tuple, rows)), a, b, repr(ew)), nontrivial=st == 'ok', kind=f'pad2d:extrapolate:{kind}')
    for (rows, a, b, ew) in [([[1, 2], [3, 4]], 0, 1, None), ([[1, 2], [3, 4]], 1, -1, None), ([[1, 2], [3, 4]], 1, 1, 0),
                             ([[1, 2], [3, 4]], 1, 1, [1, 2, 3]), ([[1, 2], [3, 4]], 2, 1, [1, -2]), ([[1, 2], [3, 4]], 0, -1, None)]:
        st, out = call(utils.pad_edges2d, np.array(rows, dtype=float), [a, b], mode='extrapolate', extrapolate_window=ew)
        exp = 'None' if st == 'err' else 'Some ' + qrows([fr_list(row) for row in out])
        lits.append(f'({zrows(rows)}, {zl(a)}, {zl(b)}, {ew_lit(ew)}, {exp}, {ql(Fraction(1, 10**8))})')
        ctx.case(('p2-rej', a, b, repr(ew)), nontrivial=False, kind='pad2d:rejected')
    ctx.sample({'kind': 'pad_edges2d', 'shape': [3, 4], 'pad_length': [2, 5], 'extrapolate_window': [1, 2, 3, 9]})
    return run_cases(ctx, 'extrapolate2d', P2_DECL, P2_OK, lits, per=60)


def ref_extrapolate2d(rows, a, b, ew):
    """Reference by the 1-D semantics along each axis (window 1 repeats the edge); corners = mean of
    the two ways of extending (rows then columns, columns then rows)."""
    wt, wb, wl, wr = win4(ew, a, b)
    rows = [[Fraction(v) for v in row] for row in rows]
    R, C = len(rows), len(rows[0])
    cols_ext = [ref_pad_extrapolate([rows[i][j] for i in range(R)], a, [wt, wb]) for j in range(C)]
    E0 = [[cols_ext[j][i] for j in range(C)] for i in range(R + 2 * a)]
    A = [ref_pad_extrapolate(row, b, [wl, wr]) for row in E0]
    E1 = [ref_pad_extrapolate(row, b, [wl, wr]) for row in rows]
    colsB = [ref_pad_extrapolate([E1[i][j] for i in range(R)], a, [wt, wb]) for j in range(C + 2 * b)]
    B = [[colsB[j][i] for j in range(C + 2 * b)] for i in range(R + 2 * a)]
    return [[(A[i][j] + B[i][j]) / 2 for j in range(C + 2 * b)] for i in range(R + 2 * a)]


def oracle_2d(ctx, budget):
    utils = U()
    rng = ctx.rng
    found = 0
    for r in range(1, 5 if budget == 1 else 8):
        for c in range(1, 5 if budget == 1 else 8):
            y = np.array(gen_mat(rng, r, c)[1], dtype=float)
            for pl in (1, [2, 1], [3 * r, 3 * c], [0, 2]):
                for mode in NP_MODES:
                    st, out = call(utils.pad_edges2d, y, pl, mode=mode)
                    a, b = (pl, pl) if isinstance(pl, int) else pl
                    ctx.case(('o-p2', r, c, repr(pl), mode), nontrivial=True, kind=f'oracle:pad2d:{mode}')
                    case = {'kind': 'pad2d', 'data': y.tolist(), 'pad_length': pl, 'mode': mode, 'extrapolate_window': None}
                    if st == 'err':
                        ctx.fail(f'pad_edges2d:raises:{mode}', f'pad_edges2d(shape {(r, c)}, pad_length={pl}, mode={mode!r}) raised {out}', case)
                        found += 1
                    elif out.shape != (r + 2 * a, c + 2 * b) or not np.array_equal(out[a:a + r, b:b + c], y):
                        ctx.fail(f'pad_edges2d:shape-interior:{mode}', f'pad_edges2d(shape {(r, c)}, pad_length={pl}, mode={mode!r}): shape {out.shape} or interior wrong', case)
                        found += 1
    for k in range(120 * budget):
        r, c = rng.randint(2, 10), rng.randint(2, 10)
        a, b = rng.randint(1, 3 * r), rng.randint(1, 3 * c)
        kind, rows = gen_mat(rng, r, c)
        ew = window2d_choices(rng, r, c)
        if k % 3 == 0:
            ew = rng.choice([2, [2, 3], [r, c + 1, 2, 5], None])
            if ew is None and (a < 2 or b < 2):
                ew = 2
        y = np.array(rows, dtype=float)
        st, out = call(utils.pad_edges2d, y, [a, b], mode='extrapolate', extrapolate_window=ew)
        ctx.case(('o-e2', y.tobytes(), a, b, repr(ew)), nontrivial=True, kind=f'oracle:pad2d:extrapolate:{kind}')
        case = {'kind': 'pad2d', 'data': rows, 'pad_length': [a, b], 'mode': 'extrapolate', 'extrapolate_window': ew}
        if st == 'err':
            ctx.fail('pad_edges2d:raises:extrapolate', f'pad_edges2d(shape {(r, c)}, pad_length={[a, b]}, extrapolate_window={ew}) raised {out}', case)
            found += 1
            continue
        if out.shape != (r + 2 * a, c + 2 * b) or not np.array_equal(out[a:a + r, b:b + c], y):
            ctx.fail('pad_edges2d:shape-interior:extrapolate', f'pad_edges2d(shape {(r, c)}, pad_length={[a, b]}, extrapolate): shape {out.shape} or interior wrong', case)
            found += 1
            continue
        ref = ref_extrapolate2d(rows, a, b, ew)
        scale = max(1.0, max(abs(float(v)) for row in ref for v in row))
        bad = [(i, j) for i in range(r + 2 * a) for j in range(c + 2 * b) if not close(out[i, j], ref[i][j], scale, 1e-8)]
        if bad:
            i, j = bad[0]
            if 1 in win4(ew, a, b):
                ctx.fail('pad_edges2d:extrapolate_window=1:edge-not-repeated',
                         'pad_edges2d(mode="extrapolate") with an extrapolate window of 1 does not repeat the edge value as pad_edges does: '
                         'the pseudo-inverse of the single-row Vandermonde gives the minimum-norm line y0*(1+x0*t)/(1+x0^2), which depends on the '
                         'pad length (defect repaired by 8286df4; before it np.ones((3,4)), pad_length=2, extrapolate_window=1 was padded with 0.04..2.04) '
                         f'(found: shape {(r, c)}, pad_length={[a, b]}, extrapolate_window={ew}, cell {(i, j)} = {out[i, j]!r}, expected {float(ref[i][j])!r})', case)
            else:
                ctx.fail('pad_edges2d:extrapolate:value',
                         f'pad_edges2d(shape {(r, c)}, pad_length={[a, b]}, extrapolate_window={ew}): cell {(i, j)} = {out[i, j]!r}, '
                         f'least-squares continuation (corners: mean of the two extensions) is {float(ref[i][j])!r}', case)
            found += 1
    return found

# ---------------------------------------------------------------- run / replay
def run(ctx):
    ctx.rule = ('cases: (integer data, pad length 0..3N, mode, extrapolate window None/scalar/per-side incl. 1 and > N) for '
                'pad_edges; (data, integer kernel shorter/equal/longer than data, mode) for padded_convolve; recorded '
                'tolerance-test traces of optimize_window; 2-D shapes x pads x windows; distinct = distinct canonical case; '
                'non-trivial = pad length > 0 and the call succeeds (pad), successful call (convolve), at least one loop pass '
                '(optimize_window); typed grids (fixed, enumerated): every helper x input dtype bool/int8..int64/uint8..uint64/float16/'
                'float32/float64 x container (ndarray, list/tuple of Python ints, bools, floats) x memory layout (reversed/strided views, '
                'Fortran order, transposed, negative strides) x magnitudes 1e-300..1e300, output dtype compared with coq/C18/DType.v; '
                'optimize_window grid (fixed): min_half_window None/0/1/2 x max_half_window None/2/5 x increment 1/2 x max_hits 1/3 x window_tol 1e-6/1e-2 '
                'x data constant/ramp/monotone/step/noisy/peaked x 1-D sizes 1..60 and 2-D shapes incl. a side of 1-3')
    ctx.trusted += [
        'numpy.pad for the modes used through the contract np_contract (length, interior); five modes are modelled '
        'concretely and compared exactly, all eleven are checked by the oracle on every run',
        'np.polynomial.Polynomial.fit / np.linalg.pinv: the model is the exact least-squares line (minimum-norm for a '
        'single point in 2-D); implementation values are compared with it through Fraction(float) with an absolute '
        'tolerance of 1e-8 * max(1, |values|) evaluated inside Coq',
        'scipy.signal.convolve(mode="same") is modelled as the centred slice of the full convolution with the length of '
        'the first argument; compared exactly on integer data/kernels',
        'exp is an arbitrary positive function in the kernel theorems (in the kernel correspondence it is a table of math.exp values keyed by the exact rational argument, compared within 1e-12); scipy.ndimage.grey_opening and '
        'relative_difference are an oracle (recorded trace) in the optimize_window model',
        'float rounding: sums to one / symmetry / exact continuation hold in exact arithmetic; floats are sampled by the oracle',
    ]
    ctx.gate()
    ok = ctx.build_props(extra=['C18/Cmp.vo', 'C18/Model2D.vo', 'C18/CmpD.vo'])
    corr_pad(ctx)
    corr_conv(ctx)
    corr_kernels(ctx)
    corr_ow(ctx)
    corr_2d(ctx)
    from . import c18_dtypes, c18_ow
    found_typed = c18_dtypes.run_all(ctx)
    found_typed += c18_ow.run_grid(ctx)
    budget = 1 if (ok and not ctx.broken) else 4
    if ctx.tier == 'thorough':
        budget = max(budget, 3)
    found = oracle_pad(ctx, budget) + oracle_conv(ctx, budget) + oracle_kernels(ctx, budget) + oracle_ow(ctx, budget) + oracle_2d(ctx, budget)
    ctx.note(f'direct oracle budget x{budget}: {found} failing inputs; typed (dtype/container/layout/magnitude) and optimize_window option grids: {found_typed} failing inputs')
    ctx.note('not covered: callable pad modes, pad_kwargs (constant_values, end_values, reflect_type=odd), non-integer '
             'extrapolate_window, complex/longdouble/object data, float16 with a fitted window (numpy.linalg rejects float16), bool and float16 data in optimize_window (numpy/scipy raise), 4-value pad_length in pad_edges2d, N = 1 with window >= 2 '
             '(library warns, outside the quantifier); float rounding of the kernels is only sampled')


def replay(rep):
    case = rep.get('case') or {}
    kind = case.get('kind')
    if kind and kind.endswith('-typed'):
        from . import c18_dtypes
        return c18_dtypes.replay(case)
    utils = U()
    if kind == 'pad':
        st, out = call(utils.pad_edges, np.array(case['data'], dtype=float), case['pad_length'],
                       **pad_kwargs(case['mode'], case.get('extrapolate_window')))
        print('replay pad_edges ->', st, out if st == 'err' else out.tolist())
        if st == 'ok' and case['mode'] == 'extrapolate' and case['pad_length'] > 0:
            ref = ref_pad_extrapolate([Fraction(float(v)) for v in case['data']], case['pad_length'], case.get('extrapolate_window'))
            print('least-squares reference:', [float(v) for v in ref])
        return 1
    if kind == 'conv':
        st, out = call(utils.padded_convolve, np.array(case['data']), np.array(case['kernel']), mode=case['mode'])
        print('replay padded_convolve ->', st, out if st == 'err' else out.tolist())
        return 1
    if kind == 'ow':
        st, out = call(utils.optimize_window, np.array(case['data']), **case.get('kwargs', {}))
        from . import c18_ow
        err = c18_ow.replay_verdict(case, st, out)
        print('replay optimize_window ->', st, repr(out), '| contract (integer(s) >= 1, 1 or in [min, max)):', err or 'holds')
        return 1 if err else 0
    if kind == 'gauss':
        print('replay gaussian_kernel ->', call(utils.gaussian_kernel, case['window_size'], case['sigma']))
        return 1
    if kind == 'moll':
        print('replay _mollifier_kernel ->', call(utils._mollifier_kernel, case['window_size']))
        return 1
    if kind == 'pad2d':
        st, out = call(utils.pad_edges2d, np.array(case['data'], dtype=float), case['pad_length'],
                       **pad_kwargs(case['mode'], case.get('extrapolate_window')))
        print('replay pad_edges2d ->', st, out if st == 'err' else out.tolist())
        return 1
    print('replay: nothing concrete to replay; broken obligations were:', rep.get('broken_obligations'))
    return 1
