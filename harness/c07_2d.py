"""C07, 2-D part: Baseline2D penalized-spline methods (two_d/spline.py, PSpline2D.solve, SplineBasis2D._make_btwb,
PenalizedSystem2D penalties).  Used by harness/c07.py.

Tie: scipy's spsolve as bound in pybaselines.two_d._spline_utils is wrapped from this process; the (lhs, rhs) of
every pass is captured on inputs for which every intermediate value is exact (dyadic x / z with unit knot
spacing and degree <= 2 per axis, integer data and weights, power-of-two lam) and compared (a) inside Coq with
the PrimFloat instance of coq/C07/Model2D.v fed with the implementation's own basis matrices, (b) in exact
Fraction arithmetic with the documented Kronecker system built independently.
Oracle: every pass of real runs versus an independent dense Kronecker system built from Cox-de Boor bases."""
import inspect
import warnings
from fractions import Fraction

import numpy as np

from .common import hexf

EPS = 2.0 ** -52
METHODS_2D = ['mixture_model', 'irsqr', 'pspline_asls', 'pspline_iasls', 'pspline_airpls', 'pspline_arpls',
              'pspline_iarpls', 'pspline_psalsa', 'pspline_brpls', 'pspline_lsrpls']

HEADER2 = """From Coq Require Import ZArith List Bool PrimFloat.
From PB Require Import lib.CaseUtil C20.Model gen.GenC20 C07.Model2D C07.Float2D.
Import ListNotations.
Open Scope Z_scope.
"""


class Capture2D:
    def __init__(self):
        self.calls = []
        self.cur = None

    def __enter__(self):
        import pybaselines.two_d._spline_utils as su2
        self.su2 = su2
        self.saved_spsolve = su2.spsolve
        self.saved_solve = su2.PSpline2D.solve
        cap = self
        o_sp, o_solve = self.saved_spsolve, self.saved_solve

        def spsolve(A, b, *a, **kw):
            if cap.cur is not None:
                cap.cur['lhs'] = np.array(A.toarray() if hasattr(A, 'toarray') else A, dtype=float, copy=True)
                cap.cur['rhs'] = np.array(b, dtype=float, copy=True)
            return o_sp(A, b, *a, **kw)

        def solve(self_, y, weights, penalty=None, rhs_extra=None):
            rec = {'y': np.array(y, dtype=float, copy=True), 'w': np.array(weights, dtype=float, copy=True),
                   'penalty_arg': penalty is not None,
                   'rhs_extra': None if rhs_extra is None else np.array(rhs_extra, dtype=float, copy=True),
                   'pspline': self_}
            cap.calls.append(rec)
            cap.cur = rec
            out = o_solve(self_, y, weights, penalty, rhs_extra)
            rec['out'] = np.array(out, dtype=float, copy=True)
            rec['coef'] = np.array(self_.coef, dtype=float, copy=True)
            cap.cur = None
            return out

        su2.spsolve = spsolve
        su2.PSpline2D.solve = solve
        return self

    def __exit__(self, *exc):
        self.su2.spsolve = self.saved_spsolve
        self.su2.PSpline2D.solve = self.saved_solve
        return False


def accepts2(method, name):
    from pybaselines import Baseline2D
    try:
        return name in inspect.signature(getattr(Baseline2D, method)).parameters
    except (TypeError, ValueError, AttributeError):
        return False


def run2d(method, x, z, data, fitter=None, **kw):
    from pybaselines import Baseline2D
    f = fitter if fitter is not None else Baseline2D(x_data=np.asarray(x, dtype=float), z_data=np.asarray(z, dtype=float),
                                                     check_finite=False)
    with warnings.catch_warnings():
        warnings.simplefilter('ignore')
        out = getattr(f, method)(np.asarray(data, dtype=float), **kw)
    return f, out


def is_exact(v):
    for t in np.asarray(v, dtype=float).ravel():
        if not np.isfinite(t) or abs(t) > 4096 or Fraction(float(t)).denominator > 4096:
            return False
    return True


# ------------------------------------------------------------------ exact documented system (Fractions)
def fr(a):
    return [[Fraction(float(v)) for v in row] for row in np.atleast_2d(np.asarray(a, dtype=float))]


def f_T(A):
    return [list(r) for r in zip(*A)]


def f_mul(A, B):
    Bt = f_T(B)
    return [[sum((p * q for p, q in zip(ra, cb) if p and q), Fraction(0)) for cb in Bt] for ra in A]


def f_kron(A, B):
    return [[A[i][j] * B[k][l] for j in range(len(A[0])) for l in range(len(B[0]))]
            for i in range(len(A)) for k in range(len(B))]


def f_eye(n):
    return [[Fraction(int(i == j)) for j in range(n)] for i in range(n)]


def f_pen(n, d):
    D = np.diff(np.eye(n), d, axis=0)
    Df = [[Fraction(int(v)) for v in row] for row in D]
    return f_mul(f_T(Df), Df)


def f_pen2d(a, c, dr, dc, lr, lc):
    Pr = [[Fraction(lr) * v for v in row] for row in f_pen(a, dr)]
    Pc = [[Fraction(lc) * v for v in row] for row in f_pen(c, dc)]
    K1, K2 = f_kron(Pr, f_eye(c)), f_kron(f_eye(a), Pc)
    return [[K1[i][j] + K2[i][j] for j in range(a * c)] for i in range(a * c)]


def doc2d(kind, Br, Bc, W, Y, dr, dc, lr, lc, lam1=None):
    M, a = len(Br), len(Br[0])
    N, c = len(Bc), len(Bc[0])
    B = f_kron(Br, Bc)
    w = [W[i][j] for i in range(M) for j in range(N)]
    y = [Y[i][j] for i in range(M) for j in range(N)]
    if kind == 'iasls':
        w = [v * v for v in w]
    BtW = [[B[i][r] * w[i] for i in range(M * N)] for r in range(a * c)]
    A = f_mul(BtW, B)
    P = f_pen2d(a, c, dr, dc, lr, lc)
    A = [[A[i][j] + P[i][j] for j in range(a * c)] for i in range(a * c)]
    rhs = [sum((BtW[r][i] * y[i] for i in range(M * N) if BtW[r][i]), Fraction(0)) for r in range(a * c)]
    if kind == 'iasls':
        P1 = f_pen2d(M, N, 1, 1, lam1[0], lam1[1])
        pp = f_mul(f_T(B), P1)
        E = f_mul(pp, B)
        A = [[A[i][j] + E[i][j] for j in range(a * c)] for i in range(a * c)]
        rhs = [rhs[r] + sum((pp[r][i] * y[i] for i in range(M * N) if pp[r][i]), Fraction(0)) for r in range(a * c)]
    return A, rhs


# ------------------------------------------------------------------ Coq literals
def fl(vs):
    return '[' + '; '.join(hexf(v) for v in vs) + ']'


def fll(rows):
    return '[' + ';\n    '.join(fl(r) for r in np.atleast_2d(rows)) + ']'


def pair(v):
    v = np.atleast_1d(np.asarray(v))
    return (v[0], v[0]) if len(v) == 1 else (v[0], v[1])


# ------------------------------------------------------------------ correspondence
def gen_axis(rng):
    k = rng.choice([0, 1, 1, 2])
    L = rng.randint(1, 3)
    if k + L > 4:
        L = 4 - k
    grid = [i / 4.0 for i in range(0, 4 * L + 1)]
    pts = sorted({0.0, float(L)} | {rng.choice(grid) for _ in range(rng.randint(1, 3))})
    while len(pts) < 3:
        pts = sorted(set(pts) | {rng.choice(grid)})
    return k, L + 1, pts


def build_case_2d(ctx, rng, method):
    kr, nkr, x = gen_axis(rng)
    kc, nkc, z = gen_axis(rng)
    a, c = nkr + kr - 1, nkc + kc - 1
    dmin = 2 if method == 'pspline_iasls' else 1
    if a - 1 < dmin or c - 1 < dmin or a * c > 16:
        return None
    dr, dc = rng.randint(dmin, min(3, a - 1)), rng.randint(dmin, min(3, c - 1))
    M, N = len(x), len(z)
    Y = np.array([[float(rng.randint(-6, 6)) for _ in range(N)] for _ in range(M)])
    W = np.array([[float(rng.choice([0, 1, 1, 2, 3])) for _ in range(N)] for _ in range(M)])
    if W.sum() == 0:
        W[0, 0] = 1.0
    lr, lc = 2.0 ** rng.randint(-2, 3), 2.0 ** rng.randint(-2, 3)
    kw = dict(num_knots=(nkr, nkc), spline_degree=(kr, kc), diff_order=(dr, dc), lam=(lr, lc))
    if rng.random() < 0.25:       # scalar forms
        kw['lam'] = lr
        lc = lr
    if accepts2(method, 'weights'):
        kw['weights'] = W
    if method in ('pspline_asls', 'pspline_iasls', 'pspline_psalsa', 'mixture_model'):
        kw['p'] = 0.25
    lam1 = None
    if method == 'pspline_iasls':
        lam1 = (2.0 ** rng.randint(-3, 0), 2.0 ** rng.randint(-3, 0))
        kw['lam_1'] = lam1
    if accepts2(method, 'max_iter'):
        kw['max_iter'] = rng.randint(0, 2) if method in ('pspline_asls', 'pspline_iasls') else 0
    if accepts2(method, 'tol'):
        kw['tol'] = 0.0
    xs, zs = np.array(x), np.array(z)
    px = pz = None
    data = Y
    if rng.random() < 0.3:
        px = np.array(rng.sample(range(M), M))
        pz = np.array(rng.sample(range(N), N))
        xs, zs, data = xs[px], zs[pz], Y[px][:, pz]
        if 'weights' in kw:
            kw['weights'] = W[px][:, pz]
    desc = {'kind': 'capture2d', 'method': method, 'x': xs.tolist(), 'z': zs.tolist(), 'data': data.tolist(),
            'kw': {k: (v.tolist() if isinstance(v, np.ndarray) else v) for k, v in kw.items()}}
    try:
        with Capture2D() as cap:
            run2d(method, xs, zs, data, **kw)
    except Exception as exc:  # noqa
        name = type(exc).__name__
        ctx.hist[f'2d-raised:{name}'] = ctx.hist.get(f'2d-raised:{name}', 0) + 1
        if name not in ('LinAlgError', 'ValueError'):
            ctx.fail(f'raises2d:{method}:{name}', f'2-D {method} raised {name}: {exc}', desc)
        return None
    calls = [r for r in cap.calls if 'lhs' in r and is_exact(r['w']) and is_exact(r['y'])]
    if not cap.calls or any('lhs' not in r for r in cap.calls):
        ctx.broke('correspondence2d:capture', f'2-D {method}: PSpline2D.solve did not reach spsolve')
        return None
    if not calls:
        return None
    ps = calls[0]['pspline']
    Br = np.asarray(ps.basis.basis_r.toarray(), dtype=float)
    Bc = np.asarray(ps.basis.basis_c.toarray(), dtype=float)
    if Br.shape != (M, a) or Bc.shape != (N, c):
        ctx.fail(f'basis-shape2d:{method}', f'2-D {method}: bases of shape {Br.shape}, {Bc.shape} for ({M},{a}), ({N},{c})', desc)
        return None
    kind = 'iasls' if method == 'pspline_iasls' else 'asls'
    wl = []
    for r in calls:
        w = r['w']
        if kind == 'iasls':
            rt = np.sqrt(w)
            if not np.array_equal(rt * rt, w):
                return None
            w = rt
        wl.append(w)
    n = a * c
    # (b) exact documented system, independent of the Coq model
    Brf, Bcf = fr(Br), fr(Bc)
    for idx, (r, w) in enumerate(zip(calls, wl)):
        A, rhs = doc2d(kind, Brf, Bcf, fr(w), fr(r['y']), dr, dc, lr, lc, lam1)
        got = fr(r['lhs'])
        grhs = [Fraction(float(v)) for v in r['rhs']]
        bad = None
        if len(got) != n or A != got:
            ij = [(i, j) for i in range(n) for j in range(n) if len(got) != n or got[i][j] != A[i][j]][0]
            bad = f'lhs entry {ij} is {float(got[ij[0]][ij[1]]) if len(got) == n else None!r} but the documented Kronecker system has {float(A[ij[0]][ij[1]])!r}'
        elif grhs != rhs:
            i = [i for i in range(n) if grhs[i] != rhs[i]][0]
            bad = f'rhs[{i}] is {float(grhs[i])!r} but the documented rhs is {float(rhs[i])!r}'
        if bad:
            ctx.fail(f'exact-system2d:{method}', f'2-D {method} (degrees {(kr, kc)}, diff_order {(dr, dc)}, bases {(a, c)}) pass {idx}: {bad}', desc)
            break
    # (a) Coq model
    exp = '[' + ';\n   '.join(f'({fll(r["lhs"])}, {fl(r["rhs"])})' for r in calls) + ']'
    wlit = '[' + '; '.join(f'Mf {fll(w)}' for w in wl) + ']'
    common = f'{M}%nat {N}%nat {a}%nat {c}%nat {dr}%nat {dc}%nat {hexf(lr)} {hexf(lc)}'
    mats = f'(Mf {fll(Br)}) (Mf {fll(Bc)}) (Mf {fll(calls[0]["y"])})'
    if kind == 'iasls':
        term = (f'check2 {n}%nat (iasls2d RF fofZ gen_cfg_spline {common} {hexf(lam1[0])} {hexf(lam1[1])} {mats} {wlit})\n  {exp}')
    else:
        term = f'check2 {n}%nat (asls2d RF fofZ gen_cfg_spline {common} {mats} {wlit})\n  {exp}'
    ctx.case(('cap2d', method, kr, kc, a, c, dr, dc, lr, lc, tuple(x), tuple(z), tuple(Y.ravel()), tuple(W.ravel()), len(calls)),
             nontrivial=True, kind=f'2d:exact:{method}:deg{kr}{kc}:d{dr}{dc}')
    ctx.traces += 1
    return term, desc


def correspondence_2d(ctx):
    rng = ctx.rng
    terms = []
    want = ctx.n(3, 10)
    for method in METHODS_2D:
        got = 0
        for _ in range(want * 6):
            if got >= want:
                break
            res = build_case_2d(ctx, rng, method)
            if res is not None:
                terms.append(res)
                got += 1
    ctx.obligations.append('correspondence:PSpline2D.solve-assembly(exact)')
    if len(terms) < len(METHODS_2D):
        ctx.broke('correspondence2d:coverage', f'only {len(terms)} 2-D captures succeeded')
    bad_any = False
    per = 12
    for s in range(0, len(terms), per):
        chunk = terms[s:s + per]
        defs = '\n'.join(f'Definition case_{i} : bool :=\n  {t}.' for i, (t, _) in enumerate(chunk))
        text = HEADER2 + defs + '\nDefinition cases : list bool := [' + '; '.join(f'case_{i}' for i in range(len(chunk))) + '].\n' \
            'Eval vm_compute in (bad (fun b : bool => b) cases).\n'
        vals = ctx.coq_eval(f'twod{s // per}', text, timeout=900)
        if vals is None:
            bad_any = True
            continue
        if not vals or not (vals[0].startswith('(0%nat, [])') or vals[0].startswith('(0, [])')):
            bad_any = True
            import re
            idxs = [int(v) for v in re.findall(r'(\d+)%nat', vals[0].split(',', 1)[1])] if vals else []
            first = chunk[idxs[0]][1] if idxs and idxs[0] < len(chunk) else None
            ctx.broke(f'correspondence2d:assembly-shard{s // per}',
                      f'2-D model and implementation disagree on the system handed to spsolve: {vals}; first case: '
                      f'{ {k: first.get(k) for k in ("method", "kw")} if first else None}')
    if not bad_any and not any(n.startswith('correspondence2d') for n, _ in ctx.broken):
        ctx.discharged.append('correspondence:PSpline2D.solve-assembly(exact)')


# ------------------------------------------------------------------ oracle
def gen_axis_real(rng, n):
    style = rng.choice(['uniform', 'random', 'clustered'])
    if style == 'uniform':
        v = np.linspace(rng.uniform(-5, 0), rng.uniform(1, 30), n)
    elif style == 'clustered':
        c = rng.uniform(2, 8)
        v = np.sort(np.array([0.0, 10.0] + [min(10.0, max(0.0, rng.gauss(c, 0.7))) for _ in range(n - 2)]))
    else:
        v = np.sort(np.array([rng.uniform(0, 10) for _ in range(n)]))
    return style, v


def oracle_case_2d(ctx, rng, method, c1d):
    M, N = rng.randint(6, 14), rng.randint(6, 14)
    sx, x = gen_axis_real(rng, M)
    sz, z = gen_axis_real(rng, N)
    kr, kc = rng.randint(0, 3), rng.randint(0, 3)
    nkr, nkc = rng.randint(2, 6), rng.randint(2, 6)
    a, c = nkr + kr - 1, nkc + kc - 1
    dmin = 2 if method == 'pspline_iasls' else 1
    if a - 1 < dmin or c - 1 < dmin:
        return 0
    dr, dc = rng.randint(dmin, min(4, a - 1)), rng.randint(dmin, min(4, c - 1))
    lam = (10.0 ** rng.uniform(-3, 4), 10.0 ** rng.uniform(-3, 4))
    tx = (x - x.min()) / (x.max() - x.min())
    tz = (z - z.min()) / (z.max() - z.min())
    data = (2 + tx[:, None] + 2 * tz[None, :]
            + 6 * np.exp(-0.5 * (((tx[:, None] - rng.uniform(0.3, 0.7)) / 0.1) ** 2 + ((tz[None, :] - rng.uniform(0.3, 0.7)) / 0.1) ** 2))
            + np.array([[rng.gauss(0, 0.1) for _ in range(N)] for _ in range(M)]))
    kw = dict(num_knots=(nkr, nkc), spline_degree=(kr, kc), diff_order=(dr, dc), lam=lam)
    if method == 'pspline_iasls':
        kw['lam_1'] = (10.0 ** rng.uniform(-5, -1), 10.0 ** rng.uniform(-5, -1))
    if accepts2(method, 'max_iter'):
        kw['max_iter'] = rng.choice([0, 1, 2])
    if accepts2(method, 'tol'):
        kw['tol'] = rng.choice([0.0, 1e-3])
    style = f'{sx}/{sz}'
    if rng.random() < 0.35:
        px, pz = np.array(rng.sample(range(M), M)), np.array(rng.sample(range(N), N))
        x, z, data = x[px], z[pz], data[px][:, pz]
        style += '/unsorted'
    desc = {'kind': 'oracle2d', 'method': method, 'x': x.tolist(), 'z': z.tolist(), 'data': data.tolist(), 'kw': kw}
    return check_run_2d(ctx, method, x, z, data, kw, desc, c1d, style)


def check_run_2d(ctx, method, x, z, data, kw, desc, c1d, style=''):
    (kr, kc), (nkr, nkc), (dr, dc) = pair(kw['spline_degree']), pair(kw['num_knots']), pair(kw['diff_order'])
    lr, lc = pair(kw['lam'])
    kr, kc, nkr, nkc, dr, dc = int(kr), int(kc), int(nkr), int(nkc), int(dr), int(dc)
    a, c = nkr + kr - 1, nkc + kc - 1
    M, N = len(x), len(z)
    try:
        with Capture2D() as cap:
            fitter, out = run2d(method, x, z, data, **kw)
    except Exception as exc:  # noqa
        name = type(exc).__name__
        ctx.hist[f'2d-oracle-raised:{name}'] = ctx.hist.get(f'2d-oracle-raised:{name}', 0) + 1
        if name not in ('LinAlgError',):
            ctx.fail(f'raises2d:{method}:{name}', f'2-D {method} raised {name}: {exc}', desc)
        return 0
    ox, oz = np.argsort(x, kind='mergesort'), np.argsort(z, kind='mergesort')
    xs, zs = x[ox], z[oz]
    Br = c1d.cox_de_boor(xs, c1d.ref_knots(xs, nkr, kr), kr)
    Bc = c1d.cox_de_boor(zs, c1d.ref_knots(zs, nkc, kc), kc)
    B = np.kron(Br, Bc)
    Dr, Dc = np.diff(np.eye(a), dr, axis=0), np.diff(np.eye(c), dc, axis=0)
    P = lr * np.kron(Dr.T @ Dr, np.eye(c)) + lc * np.kron(np.eye(a), Dc.T @ Dc)
    nbad = 0
    for idx, rec in enumerate(cap.calls):
        ps = rec['pspline']
        if (tuple(int(v) for v in ps.basis.spline_degree), tuple(int(v) for v in ps.basis.num_knots)) != ((kr, kc), (nkr, nkc)):
            ctx.fail(f'basis-params2d:{method}', f'2-D {method} solved with degrees {ps.basis.spline_degree}, knots {ps.basis.num_knots} '
                     f'instead of {(kr, kc)}, {(nkr, nkc)}', desc)
            return 1
        w, yy = rec['w'].ravel(), rec['y'].ravel()
        A = B.T @ (w[:, None] * B) + P
        b = B.T @ (w * yy)
        if method == 'pspline_iasls':
            l1r, l1c = pair(kw['lam_1'])
            D1r, D1c = np.diff(np.eye(M), 1, axis=0), np.diff(np.eye(N), 1, axis=0)
            P1 = l1r * np.kron(D1r.T @ D1r, np.eye(N)) + l1c * np.kron(np.eye(M), D1c.T @ D1c)
            A = A + B.T @ P1 @ B
            b = b + B.T @ (P1 @ yy)
        coef, outp = rec['coef'], rec['out']
        ctx.case(('oracle2d', method, kr, kc, nkr, nkc, dr, dc, float(lr), float(lc), idx, style, M, N, float(yy[0])),
                 nontrivial=True, kind=f'oracle2d:{method}:{style}')
        cond = np.linalg.cond(A)
        scaleA = np.abs(A) @ np.abs(coef) + np.abs(b)
        resid = np.abs(A @ coef - b)
        what = None
        if coef.shape != (a * c,):
            what = f'{coef.shape[0]} coefficients for a {a} x {c} coefficient grid'
        elif (not np.all(np.isfinite(coef)) or float(np.max(resid)) > 1e-9 * (float(np.max(scaleA)) + 1e-300)) \
                and np.isfinite(cond) and cond < 1e12:
            r = int(np.argmax(resid))
            what = (f'coefficients do not solve the documented Kronecker P-spline system (row {r}: residual {resid[r]:.3e}, '
                    f'scale {scaleA[r]:.3e})')
        if what is None and np.all(np.isfinite(coef)):
            fit = (B @ coef).reshape(M, N)
            if outp.shape != (M, N) or float(np.max(np.abs(fit - outp))) > 1e-9 * (float(np.max(np.abs(fit))) + float(np.max(np.abs(coef))) + 1e-300):
                what = 'returned surface differs from B_r C B_c\' (= kron(B_r, B_c) c reshaped)'
            elif np.isfinite(cond) and cond < 1e8:
                ref = (B @ np.linalg.solve(A, b)).reshape(M, N)
                tolf = 1e4 * cond * EPS * (float(np.max(np.abs(ref))) + float(np.max(np.abs(yy)))) + 1e-12
                if float(np.max(np.abs(ref - outp))) > tolf:
                    what = (f'surface differs from the independent dense Kronecker solve by {float(np.max(np.abs(ref - outp))):.3e} '
                            f'(tolerance {tolf:.3e}, cond {cond:.2e})')
        if what:
            ctx.fail(f'system2d:{method}', f'2-D {method} pass {idx} (degrees {(kr, kc)}, knots {(nkr, nkc)}, diff_order {(dr, dc)}, '
                     f'{style}): {what}', desc)
            nbad += 1
            break
    if cap.calls and method not in ('mixture_model', 'pspline_brpls') and not nbad:
        ix, iz = np.empty_like(ox), np.empty_like(oz)
        ix[ox], iz[oz] = np.arange(M), np.arange(N)
        if not np.array_equal(np.asarray(out[0]), cap.calls[-1]['out'][ix][:, iz]):
            ctx.fail(f'returned-baseline2d:{method}', f'2-D {method}: returned baseline is not the surface of the last solve', desc)
            nbad += 1
    return nbad



# ------------------------------------------------------------------ large enumerated grids (size-gated paths)
LARGE_SHAPES = [(260, 250), (1300, 52), (48, 1400)]      # > 62,500 points; square-ish, M >> N, N >> M


def large_cells():
    """FIXED grid of (method, shape, kwargs): every 2-D spline host on grids just above the size where an
    implementation would plausibly switch to a 'memory saving' path (full Kronecker basis > 1e6 stored entries
    with cubic splines), including very non-square grids."""
    cells = []
    for mi, method in enumerate(METHODS_2D):
        shapes = LARGE_SHAPES if method == 'pspline_iasls' else [LARGE_SHAPES[0], LARGE_SHAPES[1 + mi % 2]]
        for si, shape in enumerate(shapes):
            kw = dict(num_knots=(8, 6) if si % 2 == 0 else (5, 9), spline_degree=3, diff_order=(2, 3) if si else 2,
                      lam=(1e2, 3e0))
            if method == 'pspline_iasls':
                for lam_1 in (None, (1e-2, 0.5)):
                    k2 = dict(kw)
                    if lam_1 is not None:
                        k2['lam_1'] = lam_1
                    cells.append((method, shape, k2))
            else:
                cells.append((method, shape, kw))
    return cells


def large_data(M, N, tag):
    g = np.random.default_rng(1000 + tag)
    x = np.sort(np.linspace(0.0, 10.0, M) + 0.3 * (10.0 / M) * g.uniform(-1, 1, M))
    z = np.sort(np.linspace(-3.0, 40.0, N) + 0.3 * (43.0 / N) * g.uniform(-1, 1, N))
    tx = (x - x.min()) / (x.max() - x.min())
    tz = (z - z.min()) / (z.max() - z.min())
    data = (3 + 2 * tx[:, None] + tz[None, :] ** 2
            + 7 * np.exp(-0.5 * (((tx[:, None] - 0.4) / 0.08) ** 2 + ((tz[None, :] - 0.6) / 0.1) ** 2))
            + 0.05 * g.standard_normal((M, N)))
    return x, z, data


def d1_gram(n):
    D = np.diff(np.eye(n), 1, axis=0)
    return D.T @ D


def check_large_2d(ctx, method, shape, kw, desc, c1d):
    """Residual certificate r = (B'WB + P [+ B'P_1B]) c - (B'Wy [+ B'P_1 y]) of every pass, evaluated through the
    Kronecker structure (never forming kron(B_r, B_c) or a dense reference), plus surface = B_r C B_c'."""
    M, N = shape
    x, z, data = large_data(M, N, desc['tag'])
    kw = dict(kw)
    if accepts2(method, 'max_iter'):
        kw['max_iter'] = 1
    if accepts2(method, 'tol'):
        kw['tol'] = 0.0
    (kr, kc), (nkr, nkc), (dr, dc) = pair(kw['spline_degree']), pair(kw['num_knots']), pair(kw['diff_order'])
    kr, kc, nkr, nkc, dr, dc = int(kr), int(kc), int(nkr), int(nkc), int(dr), int(dc)
    lr, lc = pair(kw['lam'])
    a, c = nkr + kr - 1, nkc + kc - 1
    try:
        with Capture2D() as cap:
            run2d(method, x, z, data, **kw)
    except Exception as exc:  # noqa
        name = type(exc).__name__
        ctx.fail(f'raises2d-large:{method}:{name}', f'2-D {method} on a {M} x {N} grid raised {name}: {exc}', desc)
        return 1
    Br = c1d.cox_de_boor(x, c1d.ref_knots(x, nkr, kr), kr)
    Bc = c1d.cox_de_boor(z, c1d.ref_knots(z, nkc, kc), kc)
    Dr, Dc = np.diff(np.eye(a), dr, axis=0), np.diff(np.eye(c), dc, axis=0)
    Pr, Pc = lr * (Dr.T @ Dr), lc * (Dc.T @ Dc)
    iasls = method == 'pspline_iasls'
    if iasls:
        l1r, l1c = pair(kw.get('lam_1', 1e-4))
        P1r, P1c = float(l1r) * d1_gram(M), float(l1c) * d1_gram(N)
    for idx, rec in enumerate(cap.calls):
        W, Y, coef, outp = rec['w'], rec['y'], rec['coef'], rec['out']
        ctx.case(('large2d', method, M, N, nkr, nkc, dr, dc, idx, desc['tag']), nontrivial=True, kind=f'oracle2d-large:{method}:{M}x{N}')
        what = None
        if coef.shape != (a * c,) or not np.all(np.isfinite(coef)):
            what = f'{coef.shape} coefficients (finite: {bool(np.all(np.isfinite(coef)))}) for a {a} x {c} coefficient grid'
        else:
            C = coef.reshape(a, c)
            F = Br @ C @ Bc.T
            t1 = Br.T @ (W * F) @ Bc
            t2 = Pr @ C + C @ Pc
            b = Br.T @ (W * Y) @ Bc
            t3 = np.zeros_like(t1)
            if iasls:
                t3 = Br.T @ (P1r @ F + F @ P1c) @ Bc
                b = b + Br.T @ (P1r @ Y + Y @ P1c) @ Bc
            resid = np.abs(t1 + t2 + t3 - b)
            scale = float(np.max(np.abs(t1)) + np.max(np.abs(t2)) + np.max(np.abs(t3)) + np.max(np.abs(b))) + 1e-300
            if float(np.max(resid)) > 1e-9 * scale:
                r = np.unravel_index(int(np.argmax(resid)), resid.shape)
                what = (f'coefficients do not solve the documented Kronecker P-spline system (coefficient {tuple(int(v) for v in r)}: '
                        f'residual {resid[r]:.3e}, scale {scale:.3e})')
            elif outp.shape != (M, N) or float(np.max(np.abs(F - outp))) > 1e-9 * (float(np.max(np.abs(F))) + float(np.max(np.abs(coef))) + 1e-300):
                what = "returned surface differs from B_r C B_c'"
        if what:
            ctx.fail(f'system2d-large:{method}', f'2-D {method} on a {M} x {N} grid, pass {idx} (knots {(nkr, nkc)}, degree {(kr, kc)}, '
                     f'diff_order {(dr, dc)}, kwargs {({k: v for k, v in kw.items() if k.startswith("lam")})}): {what}', desc)
            return 1
    if not cap.calls:
        ctx.fail(f'system2d-large:{method}', f'2-D {method} on a {M} x {N} grid never called PSpline2D.solve', desc)
        return 1
    return 0


def search_large_2d(ctx, c1d, every=1):
    found = 0
    for tag, (method, shape, kw) in enumerate(large_cells()):
        if tag % every:
            continue
        desc = {'kind': 'large2d', 'method': method, 'shape': list(shape), 'kw': kw, 'tag': tag}
        found += check_large_2d(ctx, method, shape, kw, desc, c1d)
    return found


def search_2d(ctx, budget, c1d):
    rng = ctx.rng
    found = search_large_2d(ctx, c1d)     # fixed enumerated cells first; they do not consume the random stream
    for method in METHODS_2D:
        for _ in range(ctx.n(5, 15) * budget):
            found += oracle_case_2d(ctx, rng, method, c1d) or 0
    return found


class _MiniCtx:
    def __init__(self):
        self.fails, self.hist, self.traces = [], {}, 0

    def case(self, *a, **k):
        pass

    def fail(self, key, what, case):
        self.fails.append((key, what))

    def broke(self, *a):
        self.fails.append(a)


def replay_2d(case, c1d):
    c = _MiniCtx()
    if case.get('kind') == 'large2d':
        kw = {k: (tuple(v) if isinstance(v, list) else v) for k, v in case['kw'].items()}
        check_large_2d(c, case['method'], tuple(case['shape']), kw, case, c1d)
        print('replay 2-D large grid:', c.fails or 'property holds on this input')
        return 1 if c.fails else 0
    kw = dict(case['kw'])
    for k in ('weights',):
        if k in kw:
            kw[k] = np.array(kw[k])
    for k in ('num_knots', 'spline_degree', 'diff_order', 'lam', 'lam_1'):
        if k in kw and isinstance(kw[k], list):
            kw[k] = tuple(kw[k])
    check_run_2d(c, case['method'], np.array(case['x']), np.array(case['z']), np.array(case['data']), kw, case, c1d)
    print('replay 2-D:', c.fails or 'property holds on this input (oracle)')
    return 1 if c.fails else 0
