"""C17 -- optimizer methods are the documented composition of the underlying method.
DESIGN.md section 4 / C17.

Flow: gate -> build props -> correspondence (model inside Coq vs. the implementation, exact):
  A  collab_pls trace validation: the keyword dictionaries every call of the wrapped method receives
  B  adaptive_minmax: reported weight arrays (ceil arithmetic in binary64, sort / un-sort sandwich)
  C  custom_bc: x_fit / y_fit for random regions / sampling (np.linspace intp semantics, forced end points,
     mask, stable sort) bit-for-bit on integer-valued data
  D  optimize_extended_range with a probe as wrapped method: added window, padded weights, sort order,
     roll-and-slice residuals, first-minimiser selection, slicing back
-> direct oracle: the recomposition identities of the property on the real methods."""
import math
import random
import re
import warnings

import numpy as np

from . import methods as M
from .common import coqbool, hexf, zl, zlist

PROP = 'C17'

HEADER = """From Coq Require Import ZArith List Bool String PrimFloat.
From PB Require Import lib.PySlice lib.Arr lib.CaseUtil C17.Model C17.Float.
Import ListNotations.
Open Scope Z_scope.
Definition val_eqb (a b : val) : bool :=
  match a, b with
  | VInf, VInf => true | VTrue, VTrue => true | VAvgW, VAvgW => true | VAvgA, VAvgA => true
  | VUser i, VUser j => i =? j | _, _ => false
  end.
Fixpoint dict_eqb (a b : dict val) : bool :=
  match a, b with
  | [], [] => true
  | (k, v) :: a', (k', v') :: b' => String.eqb k k' && val_eqb v v' && dict_eqb a' b'
  | _, _ => false
  end.
Fixpoint calls_eqb (a b : list (entry * dict val)) : bool :=
  match a, b with
  | [], [] => true
  | (e, d) :: a', (e', d') :: b' => ent_eqb e e' && dict_eqb d d' && calls_eqb a' b'
  | _, _ => false
  end.
Fixpoint sl_eqb (a b : list string) : bool :=
  match a, b with
  | [], [] => true
  | x :: a', y :: b' => String.eqb x y && sl_eqb a' b'
  | _, _ => false
  end.
Definition err_eqb (a b : cb_err) : bool :=
  match a, b with
  | ErrOverlap, ErrOverlap => true | ErrNegative, ErrNegative => true
  | ErrTooLarge, ErrTooLarge => true | ErrNum, ErrNum => true | _, _ => false
  end.
Definition sumsq (l : list Z) : Z := fold_left (fun a v => a + v * v) l 0.
"""

# wrapped methods collab_pls accepts (they take and report 'weights'); KW from the shared catalogue
COLLAB_1D = ['airpls', 'arpls', 'asls', 'aspls', 'brpls', 'derpsalsa', 'drpls', 'fabc', 'iarpls', 'iasls',
             'irsqr', 'lsrpls', 'mixture_model', 'mpls', 'mpspline', 'psalsa', 'pspline_airpls',
             'pspline_arpls', 'pspline_asls', 'pspline_aspls', 'pspline_brpls', 'pspline_derpsalsa',
             'pspline_drpls', 'pspline_iarpls', 'pspline_iasls', 'pspline_lsrpls', 'pspline_mpls',
             'pspline_psalsa']
COLLAB_2D = ['airpls', 'arpls', 'asls', 'aspls', 'brpls', 'drpls', 'iarpls', 'iasls', 'lsrpls', 'psalsa',
             'irsqr', 'mixture_model', 'pspline_airpls', 'pspline_arpls', 'pspline_asls', 'pspline_brpls',
             'pspline_iarpls', 'pspline_iasls', 'pspline_lsrpls', 'pspline_psalsa']
NO_LOOP = ('mpls', 'pspline_mpls', 'mpspline', 'fabc')


def coqstr(s):
    return '"' + s + '"%string'


def same(a, b):
    a = np.asarray(a)
    b = np.asarray(b)
    return a.shape == b.shape and np.array_equal(a, b, equal_nan=True)


def parse_bad(vals):
    """(count, indices) from the printed `bad ok cases` value; None when unparsable."""
    m = re.match(r'\((\d+)(?:%nat)?, \[(.*)\]\)', vals[0]) if vals else None
    if not m:
        return None
    idx = [int(t.replace('%nat', '')) for t in m.group(2).split(';') if t.strip()]
    return int(m.group(1)), idx


def run_cases(ctx, ob, name, ctype, okdef, lits, on_bad, per=250):
    """Evaluates `bad ok cases` in shards; lits = [(coq literal, python call description)]."""
    ctx.obligations.append(ob)
    good = True
    for s in range(0, len(lits), per):
        sh = lits[s:s + per]
        text = HEADER + f"""
Definition cases : list ({ctype}) := [
{chr(10).join('  ' + l[0] + (';' if i + 1 < len(sh) else '') for i, l in enumerate(sh))}
].
{okdef}
Eval vm_compute in (bad ok cases).
"""
        vals = ctx.coq_eval(f'{name}{s // per}', text)
        if vals is None:
            good = False
            continue
        res = parse_bad(vals)
        if res is None:
            good = False
            ctx.broke(ob, f'unparsable Coq output {vals}')
        elif res[0]:
            good = False
            for i in res[1][:4]:
                on_bad(sh[i][1])
            ctx.broke(ob, f'{res[0]} of {len(sh)} cases differ between model and implementation; first: '
                          f'{[sh[i][1] for i in res[1][:2]]}')
    if good and lits:
        ctx.discharged.append(ob)
    return good


class Patched:
    """Temporarily replaces a fitter-class method from the harness process (nothing in /repo changes)."""

    def __init__(self, klass, name, make):
        self.klass, self.name, self.make = klass, name, make

    def __enter__(self):
        self.had = self.name in self.klass.__dict__
        self.old = self.klass.__dict__.get(self.name)
        self.orig = getattr(self.klass, self.name)
        setattr(self.klass, self.name, self.make(self.orig))
        return self

    def __exit__(self, *a):
        if self.had:
            setattr(self.klass, self.name, self.old)
        else:
            delattr(self.klass, self.name)


# ------------------------------------------------------------------ A. collab_pls trace validation
def encode_val(key, v, user, params, prefer_user=False):
    if prefer_user:      # a wrapped method may hand the caller's own array back as its 'weights' (mpls)
        for i, (k, uv) in enumerate(user.items()):
            if k == key and v is uv:
                return f'VUser {i}'
    if isinstance(v, (float, np.floating)) and v == np.inf:
        return 'VInf'
    if v is True:
        return 'VTrue'
    if params is not None and v is params.get('average_weights'):
        return 'VAvgW'
    if params is not None and 'average_alpha' in params and v is params['average_alpha']:
        return 'VAvgA'
    for i, (k, uv) in enumerate(user.items()):
        if k == key and v is uv:
            return f'VUser {i}'
    return 'VUser (-1)'


def dict_lit(d):
    return '[' + '; '.join(f'({coqstr(k)}, {v})' for k, v in d) + ']'


def collab_run(method, two_d, avg, user, dataset, x, z=None, stub=False):
    """Runs collab_pls with a recorder around the wrapped method.  Returns (baselines, params, calls, results)
    where calls = [(data, kwargs dict as received)] and results = what each call returned."""
    from pybaselines import Baseline, Baseline2D
    klass = Baseline2D if two_d else Baseline
    calls, results = [], []

    def make(orig):
        def rec(self, data, *args, **kwargs):
            calls.append((np.array(data), dict(kwargs), args))
            if stub:
                n = len(calls)
                shp = np.shape(data)
                out = (np.zeros(shp), {'weights': np.full(shp, float(n)), 'alpha': np.full(shp, 100.0 + n)})
            else:
                out = orig(self, data, *args, **kwargs)
            results.append(out)
            return out
        return rec

    with Patched(klass, method.lower(), make):
        fitter = klass(x, z) if two_d else klass(x)
        b, p = fitter.collab_pls(dataset, average_dataset=avg, method=method, method_kwargs=user)
    return b, p, calls, results


def entry_of(data, dataset):
    for i, row in enumerate(dataset):
        if same(data, row):
            return f'Row {i}%nat'
    if same(data, np.mean(dataset, axis=0)):
        return 'Mean'
    return 'Row 999%nat'


def case_variant(name, i):
    """Another spelling of a method name: upper case, capitalised, or alternating."""
    forms = [name.upper(), name.capitalize(), ''.join(c.upper() if k % 2 else c for k, c in enumerate(name)),
             name[:-3] + name[-3:].upper()]
    out = forms[i % len(forms)]
    return out if out != name else name.upper()


def collab_trace(ctx):
    rng = np.random.default_rng(ctx.seed + 11)
    prng = random.Random(ctx.seed + 11)
    n = 41
    x = M.make_x(prng, n)
    y = M.make_y(rng, x)
    data1 = np.vstack([y, y * 1.1 + 1, y[::-1] * 0.9 + rng.normal(0, 0.1, n)])
    x2, z2, y2 = M.make_z2d(rng, 11, 12)
    data2 = np.array([y2, y2 * 1.2 + 0.5])
    lits = []

    def add(method, two_d, avg, user, stub, tag):
        dataset = data2 if two_d else data1
        call = {'kind': 'collab-trace', 'method': method, 'two_d': two_d, 'average_dataset': avg, 'name_case': method != method.lower(),
                'user_keys': list(user), 'stub': stub, 'seed': ctx.seed}
        user_snapshot = list(user.items())
        try:
            with warnings.catch_warnings():
                warnings.simplefilter('ignore')
                b, p, calls, results = collab_run(method, two_d, avg, user, dataset, x2 if two_d else x, z2, stub)
        except Exception as exc:  # noqa
            ctx.fail(f'collab:{method}:{"2d" if two_d else "1d"}:raises',
                     f'collab_pls(method={method!r}, average_dataset={avg}, method_kwargs keys {list(user)}) raised '
                     f'{type(exc).__name__}: {exc}', call)
            return
        if list(user.items()) != user_snapshot or any(a is not b_ for (_, a), (_, b_) in zip(user.items(), user_snapshot)):
            ctx.fail(f'collab:{method}:mutates-kwargs', 'collab_pls modified the caller\'s method_kwargs', call)
        obs = []
        n_step1 = 1 if avg else len(dataset)
        for ci, (data, kw, args) in enumerate(calls):
            if args:
                obs.append(('Row 998%nat', []))
                continue
            obs.append((entry_of(data, dataset), [(k, encode_val(k, v, user, p, ci < n_step1)) for k, v in kw.items()]))
        # reported averages are what step 1 produced
        M_ = len(dataset)
        step1 = results[:1] if avg else results[:M_]
        if avg:
            okavg = p['average_weights'] is step1[0][1]['weights']
        else:
            okavg = same(p['average_weights'], np.mean(np.array([r[1]['weights'] for r in step1]), axis=0))
        if not okavg:
            ctx.fail(f'collab:{method}:average-weights',
                     f'collab_pls(method={method!r}, average_dataset={avg}): params["average_weights"] is not the '
                     '(mean of the) weights the first step produced', call)
        if 'average_alpha' in p:
            if avg:
                oka = p['average_alpha'] is step1[0][1]['alpha']
            else:
                oka = same(p['average_alpha'], np.mean(np.array([r[1]['alpha'] for r in step1]), axis=0))
            if not oka:
                ctx.fail(f'collab:{method}:average-alpha', f'collab_pls(method={method!r}): params["average_alpha"] is not '
                         'the (mean of the) alpha of the first step', call)
        # every output row is what the corresponding step-2 call returned
        step2 = results[-M_:]
        if len(results) < M_ or not all(same(b[i], step2[i][0]) for i in range(M_)):
            ctx.fail(f'collab:{method}:rows', f'collab_pls(method={method!r}): output rows are not the step-2 fits', call)
        user_lit = dict_lit([(k, f'VUser {i}') for i, k in enumerate(user)])
        obs_lit = '[' + '; '.join(f'({e}, {dict_lit(d)})' for e, d in obs) + ']'
        keys_lit = '[' + '; '.join(coqstr(k) for k in p) + ']'
        ctx.case(('collab', method, two_d, avg, tuple(user), stub), nontrivial=len(user) >= 1,
                 kind=f'collab-trace:{"2d" if two_d else "1d"}:{tag}')
        lits.append((f'({coqbool(two_d)}, {coqstr(method)}, {coqbool(avg)}, {M_}%nat, {user_lit}, {obs_lit}, {keys_lit})', call))

    w1 = np.linspace(0.2, 0.9, n)
    a1 = np.linspace(0.5, 1.5, n)
    for two_d, names, kwtab in ((False, COLLAB_1D, M.KW_1D), (True, COLLAB_2D, M.KW_2D)):
        for mi, method in enumerate(names):
            base = dict(kwtab[method])
            shape = y2.shape if two_d else (n,)
            for avg in (True, False):
                # real method, valid keys incl. the ones collab_pls must override
                user = dict(base)
                if method not in NO_LOOP:
                    user['tol'] = 1e-2
                    user['max_iter'] = 3
                user['weights'] = np.broadcast_to(w1[:shape[-1]] if two_d else w1, shape).copy()
                if method in ('aspls', 'pspline_aspls'):
                    user['alpha'] = np.broadcast_to(a1[:shape[-1]] if two_d else a1, shape).copy()
                if method in ('brpls', 'pspline_brpls'):
                    user['tol_2'] = 1e-2
                    user['max_iter_2'] = 2
                if method == 'fabc':
                    user['weights_as_mask'] = False
                if (mi + avg + ctx.seed) % 2 == 0 or ctx.tier == 'thorough':
                    add(method, two_d, avg, user, False, 'real')
                else:
                    add(method, two_d, avg, dict(base), False, 'real')
                # probe as wrapped method: any key set, any order
                keys = ['tol', 'weights', 'lam', 'alpha', 'tol_2', 'weights_as_mask', 'max_iter', 'p']
                prng.shuffle(keys)
                vals = {'tol': 0.5, 'weights': np.ones(shape), 'lam': 10.0, 'alpha': np.ones(shape), 'tol_2': 0.25,
                        'weights_as_mask': False, 'max_iter': 4, 'p': 0.1}
                user = {k: vals[k] for k in keys[:prng.randint(0, len(keys))]}
                add(method, two_d, avg, user, True, 'probe')
                # the name in another spelling: same protocol as the lower-case name
                user = {k: vals[k] for k in keys[:prng.randint(2, len(keys))]}
                add(case_variant(method, mi + avg), two_d, avg, user, True, 'probe-name-case')

    def on_bad(call):
        ctx.fail(f'collab:{call["method"]}:{"2d" if call["two_d"] else "1d"}:forwarded-kwargs',
                 f'collab_pls(method={call["method"]!r}, average_dataset={call["average_dataset"]}, method_kwargs keys '
                 f'{call["user_keys"]}) {"2D" if call["two_d"] else "1D"}: the calls of the wrapped method (data entry / keyword '
                 'dictionary: forced weights, alpha, tol=inf, tol_2=inf, weights_as_mask, untouched user keys) or the params keys '
                 'differ from the two-step protocol', call)

    ctx.traces += len(lits)
    if lits:
        ctx.sample({'kind': 'collab-trace-case', 'coq_literal': lits[0][0][:500], 'call': lits[0][1]})
    run_cases(ctx, 'correspondence:collab_pls-call-trace', 'collab',
              'bool * string * bool * nat * dict val * list (entry * dict val) * list string',
              """Definition ok (c : bool * string * bool * nat * dict val * list (entry * dict val) * list string) : bool :=
  let '(two_d, m, avg, M, user, obs, keys) := c in
  calls_eqb (collab_calls_named two_d m avg M user) obs && sl_eqb (collab_param_keys_named m) keys.""", lits, on_bad)


# ------------------------------------------------------------------ B. adaptive_minmax weights
def frac_values(prng, n):
    specials = [0.0, 1.0, 0.01, 0.1, 0.2, 0.3, 0.5, 1 / 3, 1 / n, 2 / n, (n - 1) / n, 0.07, 0.29]
    return prng.choice(specials) if prng.random() < 0.6 else prng.random()


def minmax_cases(ctx):
    from pybaselines import Baseline, Baseline2D
    prng = random.Random(ctx.seed + 23)
    rng = np.random.default_rng(ctx.seed + 23)
    lits = []
    for k in range(ctx.n(160, 1200)):
        n = prng.choice([4, 5, 7, 10, 13, 20, 29, 50, 100]) if k % 3 else prng.randint(4, 120)
        x = np.sort(rng.uniform(0, 50, n)) + np.arange(n) * 1e-3
        unsorted = k % 2 == 1
        perm = rng.permutation(n) if unsorted else np.arange(n)
        xs = x[perm]
        ys = 3 + 0.1 * xs + rng.normal(0, 0.1, n)
        default_w = k % 4 >= 2
        w = None if default_w else np.arange(10, 10 + n, dtype=float)
        scalar_f = k % 5 == 0
        f0 = frac_values(prng, n)
        f1 = f0 if scalar_f else frac_values(prng, n)
        if k < 12:      # fixed cells: zero fractions in every position, scalar / pair, whole-range fractions
            scalar_f, f0, f1 = [(True, 0.0, 0.0), (False, 0.1, 0.0), (False, 0.0, 0.1), (False, 0.0, 0.0), (True, 1.0, 1.0),
                                (False, 1.0, 0.0), (False, 0.0, 1.0), (True, 0.2, 0.2), (False, 0.3, 0.05), (False, 1.0, 1.0),
                                (False, 0.5, 0.5), (False, 0.6, 0.7)][k]
        cf = f0 if scalar_f else (f0, f1)
        po = prng.choice([1, (1, 3), (2, 2), 0])
        call = {'kind': 'minmax', 'n': n, 'unsorted': unsorted, 'default_weights': default_w,
                'constrained_fraction': cf, 'poly_order': po, 'seed': ctx.seed, 'k': k}
        fitter = Baseline(xs)
        recorded = []

        def make(orig):
            def rec(self, data=None, *args, **kwargs):
                recorded.append((int(kwargs.get('poly_order', -1)), kwargs.get('weights')))
                return orig(self, data, *args, **kwargs)
            return rec
        with warnings.catch_warnings():
            warnings.simplefilter('ignore')
            with Patched(Baseline, 'modpoly', make):
                b, p = fitter.adaptive_minmax(ys, poly_order=po, weights=w, constrained_fraction=cf,
                                              constrained_weight=(1007.0, 1009.0), method_kwargs={'max_iter': 3})
        wobs = [int(v) for v in p['weights']]
        cobs = [int(v) for v in p['constrained_weights']]
        # the four fits in order: which order, which array
        seq = []
        for o, wt in recorded:
            which = 'false' if wt is p['weights'] else ('true' if wt is p['constrained_weights'] else None)
            seq.append(None if which is None else f'({o}, {which})')
        if None in seq:
            ctx.fail('minmax:fit-arrays', 'adaptive_minmax: a fit received a weight array that is not one of the reported arrays', call)
            continue
        if fitter._sort_order is None:
            order = 'None'
        else:
            order = f'Some (of_list 0 {zlist(fitter._sort_order)}, of_list 0 {zlist(fitter._inverted_order)})'
        win = zlist(range(10, 10 + n)) if not default_w else zlist([1] * n)
        pol = f'(inl {po})' if not isinstance(po, tuple) else f'(inr ({po[0]}, {po[1]}))'
        ctx.case(('minmax', n, unsorted, default_w, cf, po), nontrivial=(f0 > 0 or f1 > 0), kind=f'minmax:{"unsorted" if unsorted else "sorted"}')
        lits.append((f'({n}, {order}, {hexf(f0)}, {hexf(f1)}, {win}, {pol}, {zlist(wobs)}, {zlist(cobs)}, '
                     f'[{"; ".join(seq)}], {zlist(p["poly_order"])})', call))

    def on_bad(call):
        ctx.fail(f'minmax:weights:{"unsorted" if call["unsorted"] else "sorted"}:{"default" if call["default_weights"] else "given"}',
                 f'adaptive_minmax(N={call["n"]}, constrained_fraction={call["constrained_fraction"]}, '
                 f'{"unsorted" if call["unsorted"] else "sorted"} x, {"default" if call["default_weights"] else "given"} weights): '
                 'reported weights / constrained_weights / order of the four fits differ from ceil(N*f) points at each end in x order', call)

    if lits:
        ctx.sample({'kind': 'minmax-case', 'coq_literal': lits[1][0][:400], 'call': lits[1][1]})
    run_cases(ctx, 'correspondence:adaptive_minmax-weights-and-fit-order', 'minmax',
              'Z * option ((Z -> Z) * (Z -> Z)) * float * float * list Z * (Z + Z * Z) * list Z * list Z * list (Z * bool) * list Z',
              """Definition ok (c : Z * option ((Z -> Z) * (Z -> Z)) * float * float * list Z * (Z + Z * Z) * list Z * list Z * list (Z * bool) * list Z) : bool :=
  let '(n, order, f0, f1, w, po, wobs, cobs, seq, pobs) := c in
  let cl := edge_count Num_F n f0 in let cr := edge_count Num_F n f1 in
  let r := minmax_weights n order cl cr 1007 1009 (of_list 0 w) in
  zl_eqb (to_list n (fst r)) wobs && zl_eqb (to_list n (snd r)) cobs &&
  zl_eqb (map fst (fit_sequence (poly_orders po))) (map fst seq) &&
  bl_eqb (map snd (fit_sequence (poly_orders po))) (map snd seq) &&
  zl_eqb [fst (poly_orders po); snd (poly_orders po)] pobs.""", lits, on_bad)


# ------------------------------------------------------------------ C. custom_bc x_fit / y_fit
ERRS = [('Sections cannot overlap', 'ErrOverlap'), ('must be positive', 'ErrNegative'),
        ('less than len(data)', 'ErrTooLarge'), ('Number of samples', 'ErrNum')]


def gen_regions(prng, n):
    mode = prng.random()
    if mode < 0.12:
        return [(None, None)], [prng.choice([1, 1, 2, 3, n, n + 3])]
    regs, steps = [], []
    pos = 0
    for _ in range(prng.randint(1, 4)):
        if pos >= n:
            break
        start = pos + prng.choice([0, 0, 1, 2, 5])
        stop = start + prng.randint(1, max(1, n // 2))
        if stop > n and prng.random() < 0.85:
            stop = n
        if prng.random() < 0.06:
            stop = n + prng.randint(0, 2)
        if prng.random() < 0.05:
            start = max(0, start - prng.randint(1, 4))       # may overlap the previous region
        if prng.random() < 0.04:
            start, stop = stop, start                        # reversed
        if prng.random() < 0.03:
            start = -1
        regs.append((None if (start == 0 and prng.random() < 0.5) else start,
                     None if (stop == n and prng.random() < 0.5) else stop))
        steps.append(prng.choice([1, 1, 2, 3, 4, 7, 50]))
        pos = max(stop, 0)
    return regs, steps


def custom_cases(ctx):
    from pybaselines import Baseline
    prng = random.Random(ctx.seed + 37)
    lits = []
    got = {}

    def make(orig):
        def stub(self, data=None, *args, **kwargs):
            got['n'] = len(data)
            return np.zeros(len(data)), {}
        return stub

    for k in range(ctx.n(220, 2000)):
        n = prng.choice([1, 2, 3, 5, 8, 13, 21, 34]) if k % 4 == 0 else prng.randint(2, 45)
        xi = sorted(prng.randint(0, 3 * n) for _ in range(n)) if k % 3 == 0 else list(range(0, 2 * n, 2))
        yi = [prng.randint(-20, 60) for _ in range(n)]
        regs, steps = gen_regions(prng, n)
        sampling = steps[0] if (len(steps) == 1 and k % 2) else steps
        call = {'kind': 'custom', 'n': n, 'x': xi, 'y': yi, 'regions': regs, 'sampling': steps, 'seed': ctx.seed}
        res = None
        with warnings.catch_warnings():
            warnings.simplefilter('ignore')
            with Patched(Baseline, 'poly', make):
                try:
                    b, p = Baseline(np.array(xi, dtype=float)).custom_bc(
                        np.array(yi, dtype=float), method='poly', regions=regs, sampling=sampling)
                    res = ('ok', p['x_fit'], p['y_fit'])
                except ValueError as exc:
                    for frag, name in ERRS:
                        if frag in str(exc):
                            res = ('err', name)
                    if res is None:
                        ctx.case(('custom-skip', k), nontrivial=False, kind='custom:other-error')
                        continue
                except Exception:  # noqa
                    ctx.case(('custom-skip', k), nontrivial=False, kind='custom:other-error')
                    continue
        reglit = '[' + '; '.join(
            f'({"None" if a is None else f"Some {zl(a)}"}, {"None" if b_ is None else f"Some {zl(b_)}"}, {s})'
            for (a, b_), s in zip(regs, steps)) + ']'
        xl = '[' + '; '.join(hexf(v) for v in xi) + ']'
        yl = '[' + '; '.join(hexf(v) for v in yi) + ']'
        if res[0] == 'ok':
            if np.isnan(res[1]).any():
                ctx.case(('custom-nan', k), nontrivial=False, kind='custom:empty-section')
                continue
            exp = f'inl ([{"; ".join(hexf(v) for v in res[1])}], [{"; ".join(hexf(v) for v in res[2])}])'
        else:
            exp = f'inr {res[1]}'
        ctx.case(('custom', n, tuple(regs), tuple(steps), tuple(xi)), nontrivial=True,
                 kind='custom:' + ('identity' if regs == [(None, None)] and steps == [1] else res[0] if res[0] == 'ok' else res[1]))
        lits.append((f'({n}, {reglit}, {xl}, {yl}, {exp})', call))

    def on_bad(call):
        ctx.fail('custom_bc:x_fit-y_fit', f'custom_bc(N={call["n"]}, regions={call["regions"]}, sampling={call["sampling"]}): the truncated '
                 'x_fit / y_fit (section boundaries from np.linspace(dtype=intp), forced first / last point, mask, stable sort) or '
                 'the raised error differ from the model', call)

    if lits:
        ctx.sample({'kind': 'custom-case', 'coq_literal': lits[2][0][:400], 'call': lits[2][1]})
    run_cases(ctx, 'correspondence:custom_bc-truncated-data', 'custom',
              'Z * list (option Z * option Z * Z) * list float * list float * (list float * list float + cb_err)',
              """Definition ok (c : Z * list (option Z * option Z * Z) * list float * list float * (list float * list float + cb_err)) : bool :=
  let '(n, regs, x, y, exp) := c in
  match cb_fit Num_F n f_mean_exact 0%float x y regs, exp with
  | inl xy, inl (xf, yf) => fl_eqb (map fst xy) xf && fl_eqb (map snd xy) yf
  | inr e, inr e' => err_eqb e e'
  | _, _ => false
  end.""", lits, on_bad, per=200)


# ------------------------------------------------------------------ D. optimize_extended_range with a probe
def extended_cases(ctx):
    from pybaselines import Baseline
    prng = random.Random(ctx.seed + 41)
    rng = np.random.default_rng(ctx.seed + 41)
    lits = []
    for k in range(ctx.n(150, 1200)):
        n = prng.choice([3, 5, 10, 11, 20, 33]) if k % 3 == 0 else prng.randint(3, 60)
        ws = prng.choice([0.1, 0.05, 0.2, 0.5, 1.0, 0.3, 0.01, 1 / 3, 1.5]) if prng.random() < 0.7 else prng.uniform(0, 1.2)
        side = prng.choice(['left', 'right', 'both'])
        unsorted = k % 2 == 1
        x = np.sort(rng.uniform(0, 30, n)) + np.arange(n) * 1e-3
        perm = rng.permutation(n) if unsorted else np.arange(n)
        xs = x[perm]
        ys = rng.uniform(1, 9, n)
        poly = k % 5 == 0
        method = 'poly' if poly else 'asls'
        if poly:
            lo, hi, st = prng.choice([(0, 3, 1), (1, 6, 2), (5, 1, 1), (5, 1, -2), (2, 2, 1), (1, 4, 0), (0, 5, 3), (3, 0, 5)])
        else:
            lo, hi, st = prng.choice([(2, 5, 1), (1, 4, 0.5), (3, 3, 1), (6, 2, 1), (2, 3, 0.25)])
        offs = [prng.randint(-3, 3) for _ in range(40)]
        have_w = k % 3 != 2
        uw = np.arange(10, 10 + n, dtype=float) if have_w else None
        rec = []

        def make(orig):
            def stub(self, data=None, *args, **kwargs):
                L = len(data)
                c = offs[len(rec) % len(offs)]
                rec.append({'L': L, 'w': kwargs.get('weights'), 'var': kwargs.get('poly_order' if poly else 'lam'),
                            'order': None if self._sort_order is None else [int(v) for v in self._sort_order]})
                return np.arange(L, dtype=float) + c, {'weights': np.arange(L, dtype=float) + 1000, 'alpha': np.arange(L, dtype=float) + 5000}
            return stub

        call = {'kind': 'extended', 'n': n, 'width_scale': ws, 'side': side, 'unsorted': unsorted, 'method': method,
                'min_max_step': [lo, hi, st], 'user_weights': have_w, 'seed': ctx.seed, 'k': k}
        mk = {} if uw is None else {'weights': uw}
        raised = False
        with warnings.catch_warnings():
            warnings.simplefilter('ignore')
            with Patched(Baseline, method, make):
                fitter = Baseline(xs)
                try:
                    b, p = fitter.optimize_extended_range(ys, method=method, side=side, width_scale=ws, min_value=lo,
                                                          max_value=hi, step=st, method_kwargs=mk,
                                                          pad_kwargs={'mode': 'constant', 'constant_values': 0})
                except ValueError as exc:
                    if 'sigma must be greater than 0' in str(exc):
                        raised = True
                    else:
                        ctx.fail('extended:raises', f'optimize_extended_range raised {exc}', call)
                        continue
        sd = {'left': 'SLeft', 'right': 'SRight', 'both': 'SBoth'}[side]
        order = zlist(fitter._sort_order) if fitter._sort_order is not None else zlist(range(n))
        if raised:
            ctx.case(('extended-zero', n, ws, side), nontrivial=True, kind='extended:zero-window-raises')
            lits.append((f'({n}, {hexf(ws)}, {sd}, true, [], [], [], [], [], [], 0%nat, [], {order}, [])', call))
            continue
        L = rec[0]['L']
        added = L - n
        S = [int(round(float(r) ** 2 * added)) for r in p['rmse']]
        nvar = len(rec)
        best = [i for i, r in enumerate(rec) if r['var'] == p['optimal_parameter']]
        if not best or len(p['rmse']) != nvar:
            ctx.fail('extended:optimal-not-tried', 'optimize_extended_range: optimal_parameter is not one of the values tried', call)
            continue
        wpad = [int(v) for v in rec[0]['w']] if have_w else []
        if have_w and not all(same(r['w'], rec[0]['w']) for r in rec):
            ctx.fail('extended:weights-change', 'optimize_extended_range: the padded weights change between fits', call)
        bobs = [int(v) for v in b]
        wcut = [int(v) for v in p['method_params']['weights']]
        acut = [int(v) - 4000 for v in p['method_params']['alpha']]
        sorder = rec[0]['order'] if rec[0]['order'] is not None else []
        if poly:
            sweep = [int(r['var']) for r in rec]
        else:
            sweep = []
        ctx.case(('extended', n, ws, side, unsorted, method, lo, hi, st), nontrivial=added > 0,
                 kind=f'extended:{side}:{"poly" if poly else "lam"}')
        lits.append((f'({n}, {hexf(ws)}, {sd}, false, {zlist(offs[:nvar])}, {zlist(S)}, {zlist(wpad)}, {zlist(bobs)}, '
                     f'{zlist(wcut)}, {zlist(acut)}, {best[0]}%nat, {zlist(sorder)}, {order}, '
                     f'{zlist([L] + ([lo, hi, st] if poly else []) + sweep)})', call))

    def on_bad(call):
        ctx.fail(f'extended:{call["side"]}:index-arithmetic',
                 f'optimize_extended_range(N={call["n"]}, side={call["side"]!r}, width_scale={call["width_scale"]}, method '
                 f'{call["method"]!r}, {"unsorted" if call["unsorted"] else "sorted"} x): added window / padded weights / extended sort '
                 'order / residual positions (roll-and-slice) / first-minimiser selection / returned baseline slice / weights-alpha '
                 'slices / poly_order sweep differ from the model', call)

    if lits:
        ctx.sample({'kind': 'extended-case', 'coq_literal': lits[0][0][:400], 'call': lits[0][1]})
    ctype = ('Z * float * side * bool * list Z * list Z * list Z * list Z * list Z * list Z * nat * list Z * list Z * list Z')
    run_cases(ctx, 'correspondence:optimize_extended_range-index-arithmetic', 'extended', ctype,
              f"""Definition ok (c : {ctype}) : bool :=
  let '(n, ws, s, raised, offs, sobs, wpad, bobs, wcut, acut, best, sorder, order, misc) := c in
  let aw := added_window Num_F n ws in
  if raised then aw =? 0 else
  let L := n + added_len s aw in
  let fit c := map (fun i => i + c) (zrange 0 L) in
  let errs := map (fun c => sumsq (rolled_part s aw (fit c))) offs in
  (0 <? aw) && (hd 0 misc =? L) && zl_eqb errs sobs &&
  match argmin_first Z.ltb (fun _ => true) errs with
  | Some (b, _) => Nat.eqb b best && zl_eqb (cut_baseline s aw (fit (nth b offs 0))) bobs
  | None => false
  end &&
  zl_eqb (cut_param s aw (fit 1000)) wcut && zl_eqb (cut_param s aw (fit 1000)) acut &&
  (match wpad with [] => true | _ => zl_eqb (pad_const s aw 1 (map (fun i => 10 + i) (zrange 0 n))) wpad end) &&
  (match sorder with [] => true | _ => zl_eqb (ext_sort_order s aw n order) sorder end) &&
  (match misc with
   | _ :: lo :: hi :: st :: sweep => zl_eqb (poly_sweep lo hi st) sweep
   | _ => true
   end).""", lits, on_bad)


# ------------------------------------------------------------------ direct oracle (real methods)
def oracle(ctx, budget):
    from pybaselines import Baseline, Baseline2D
    rng = np.random.default_rng(ctx.seed + 5)
    prng = random.Random(ctx.seed + 5)
    count = 0
    with warnings.catch_warnings():
        warnings.simplefilter('ignore')
        # ---- collab_pls: row k == wrapped method called directly with the reported averages, one pass
        for two_d, names, kwtab in ((False, COLLAB_1D, M.KW_1D), (True, COLLAB_2D, M.KW_2D)):
            for mi, method in enumerate(names):
                if budget == 1 and two_d and (mi + ctx.seed) % 2:
                    continue
                for avg in (True, False):
                    if two_d:
                        x, z, y = M.make_z2d(rng, 11, 12)
                        data = np.array([y, y * 1.3 + 1, y + rng.normal(0, 0.3, y.shape)])
                        mk = lambda: Baseline2D(x, z)   # noqa
                    else:
                        n = prng.choice([35, 48, 61])
                        x = M.make_x(prng, n, 'random' if mi % 2 else 'uniform')
                        y = M.make_y(rng, x)
                        if (mi + avg) % 2:
                            perm = rng.permutation(n)
                            x, y = x[perm], y[perm]
                        data = np.vstack([y, y * 1.3 + 1, y + rng.normal(0, 0.3, n)])
                        mk = lambda: Baseline(x)   # noqa
                    user = dict(kwtab[method])
                    if method not in NO_LOOP:
                        user.update(tol=1e-3, max_iter=prng.choice([1, 3, 6]))
                    call = {'kind': 'oracle-collab', 'method': method, 'two_d': two_d, 'average_dataset': avg,
                            'user': {k: v for k, v in user.items()}, 'seed': ctx.seed}
                    try:
                        b, p = mk().collab_pls(data, average_dataset=avg, method=method, method_kwargs=user)
                    except Exception as exc:  # noqa
                        ctx.fail(f'collab:{method}:{"2d" if two_d else "1d"}:raises', f'collab_pls(method={method!r}) raised {exc}', call)
                        continue
                    direct = dict(kwtab[method])
                    direct['weights'] = p['average_weights']
                    if 'average_alpha' in p:
                        direct['alpha'] = p['average_alpha']
                    if method not in NO_LOOP:
                        direct['tol'] = np.inf
                        direct['max_iter'] = 0 if (mi % 2 == 0) else 9    # any budget: still one pass
                    if method in ('brpls', 'pspline_brpls'):
                        direct['tol_2'] = np.inf
                    if method == 'fabc':
                        direct['weights_as_mask'] = True
                    key = f'collab:{method}:{"2d" if two_d else "1d"}:recomposition'
                    for r in range(len(data)):
                        bb, pp = getattr(mk(), method)(data[r], **direct)
                        count += 1
                        if not same(bb, b[r]):
                            ctx.fail(key, f'collab_pls(method={method!r}, average_dataset={avg}) row {r} differs from {method}(row, '
                                     f'weights=average_weights{", alpha=average_alpha" if "average_alpha" in p else ""}, tol=inf, '
                                     f'max_iter={direct.get("max_iter")}) by {np.abs(bb - b[r]).max():.3g}', call)
                        if 'weights' in p['method_params'] and method != 'fabc':
                            if not same(p['method_params']['weights'][r], p['average_weights']):
                                ctx.fail(f'collab:{method}:{"2d" if two_d else "1d"}:weights-not-returned',
                                         f'collab_pls(method={method!r}): the weights reported by fit {r} are not the average weights '
                                         '(the wrapped loop did more than one pass or re-weighted)', call)
                        if 'average_alpha' in p and not same(p['method_params']['alpha'][r], p['average_alpha']):
                            ctx.fail(f'collab:{method}:alpha-not-returned', f'collab_pls(method={method!r}): alpha of fit {r} is not the average alpha', call)
                    ctx.case(('oracle-collab', method, two_d, avg), nontrivial=True, kind='oracle:collab')
        # ---- adaptive_minmax: maximum of the four direct fits; edges in x order
        for k in range(12 * budget):
            n = prng.choice([30, 45, 80])
            x = np.sort(rng.uniform(0, 100, n)) + np.arange(n) * 1e-3
            y = M.make_y(rng, x)
            if k % 2:
                perm = rng.permutation(n)
                x, y = x[perm], y[perm]
            meth = ['modpoly', 'imodpoly'][k % 2 if k % 3 else 0]
            po = [None, 2, (1, 4)][k % 3]
            w = None if k % 4 < 2 else rng.uniform(0.5, 1.5, n)
            cf = [0.01, 0.2, (0.1, 0.3), (0.0, 1.0), 0.5][k % 5]
            call = {'kind': 'oracle-minmax', 'n': n, 'method': meth, 'poly_order': po, 'default_weights': w is None,
                    'constrained_fraction': cf, 'unsorted': bool(k % 2), 'seed': ctx.seed}
            b, p = Baseline(x).adaptive_minmax(y, poly_order=po, method=meth, weights=w, constrained_fraction=cf,
                                               constrained_weight=(50.0, 70.0))
            fits = [getattr(Baseline(x), meth)(y, poly_order=int(o), weights=ww)[0]
                    for o in p['poly_order'] for ww in (p['weights'], p['constrained_weights'])]
            count += 1
            ctx.case(('oracle-minmax', k, n), nontrivial=True, kind='oracle:minmax')
            if not same(np.maximum.reduce(fits), b):
                ctx.fail('minmax:recomposition', 'adaptive_minmax is not the point-wise maximum of the four fits defined by the '
                         'reported poly orders and weight arrays', call)
            f0, f1 = (cf, cf) if not isinstance(cf, tuple) else cf
            rank = np.argsort(np.argsort(x, kind='mergesort'), kind='mergesort')
            exp = np.ones(n) if w is None else w.copy()
            exp = np.where(rank < math.ceil(n * f0), 50.0, exp)
            exp = np.where(rank >= n - math.ceil(n * f1), 70.0, exp)
            if not same(exp, p['constrained_weights']):
                ctx.fail(f'minmax:edges:{"unsorted" if k % 2 else "sorted"}:{"default" if w is None else "given"}',
                         'adaptive_minmax: the constrained weights are not at the first / last ceil(N*fraction) points in x order', call)
        # ---- custom_bc: identity region == the wrapped method's own baseline
        names = [m for m in M.method_names() if m not in ('collab_pls', 'custom_bc', 'optimize_extended_range', 'adaptive_minmax', 'interp_pts')]
        if budget == 1:
            names = names[ctx.seed % 2::2]
        for mi, method in enumerate(names):
            n = prng.choice([40, 57, 75])
            x = M.make_x(prng, n, 'random' if mi % 2 else 'uniform')
            y = M.make_y(rng, x)
            if mi % 3 == 0:
                perm = rng.permutation(n)
                x, y = x[perm], y[perm]
            kw = dict(M.KW_1D[method] or {})
            call = {'kind': 'oracle-custom', 'method': method, 'n': n, 'unsorted': mi % 3 == 0, 'seed': ctx.seed}
            try:
                b2, p2 = getattr(Baseline(x), method)(y, **kw)
            except Exception:  # noqa
                continue
            try:
                b, p = Baseline(x).custom_bc(y, method=method, method_kwargs=kw)
            except Exception as exc:  # noqa
                ctx.fail(f'custom_bc:identity:{method}:raises', f'custom_bc(method={method!r}) raised {exc} where the method itself runs', call)
                continue
            count += 1
            ctx.case(('oracle-custom', method, n), nontrivial=True, kind='oracle:custom-identity')
            if not (same(b, b2) and same(p['x_fit'], np.sort(x)) and same(p['y_fit'], y[np.argsort(x, kind='mergesort')])
                    and set(p['method_params']) == set(p2)):
                ctx.fail(f'custom_bc:identity:{method}', f'custom_bc(method={method!r}) with the default region and sampling differs from '
                         f'{method} itself (max abs diff {np.abs(b - b2).max():.3g}) or x_fit / y_fit are not the sorted data', call)
        # tied x values (np.interp returns the last tied node): witness of C17_custom_tied_nodes_refuted
        n = 30
        x = np.linspace(0, 29, n)
        x[11] = x[10]
        y = M.make_y(np.random.default_rng(3), np.linspace(0, 29, n))
        b, p = Baseline(x).custom_bc(y, method='asls', method_kwargs={'lam': 1e3})
        b2 = Baseline(x).asls(y, lam=1e3)[0]
        ctx.case(('oracle-custom-ties',), nontrivial=True, kind='oracle:custom-tied-x')
        ctx.known_replayed = getattr(ctx, 'known_replayed', set()) | {'custom_bc:identity:tied-x'}
        if not same(b, b2):
            ctx.fail('custom_bc:identity:tied-x',
                     'custom_bc with the default region (None, None) and sampling=1 on x with a repeated value (x[10] == x[11], N=30, '
                     f'method asls lam=1e3) differs from asls itself at the first tied point by {np.abs(b - b2).max():.3g}: np.interp '
                     'onto x returns the last of the tied nodes', {'kind': 'oracle-custom-ties', 'seed': ctx.seed})
        # ---- optimize_extended_range on real methods
        for k in range(10 * budget):
            n = prng.choice([40, 55, 90])
            x = np.sort(rng.uniform(0, 100, n)) + np.arange(n) * 1e-3
            y = M.make_y(rng, x)
            if k % 2:
                perm = rng.permutation(n)
                x, y = x[perm], y[perm]
            method, kw, rngv = [('asls', {}, (2, 5, 1)), ('poly', {}, (1, 4, 1)), ('pspline_asls', {'num_knots': 8}, (0, 2, 1)),
                                ('aspls', {}, (2, 4, 1)), ('arpls', {}, (5, 2, 1))][k % 5]
            side = ['both', 'left', 'right'][k % 3]
            ws = [0.1, 0.3, 0.05, 0.5][k % 4]
            kw = dict(kw)
            if k % 4 == 1 and method != 'poly':
                kw['weights'] = rng.uniform(0.2, 1.0, n)
            if method == 'aspls' and k % 2 == 0:
                kw['alpha'] = rng.uniform(0.5, 1.0, n)
            call = {'kind': 'oracle-extended', 'method': method, 'n': n, 'side': side, 'width_scale': ws, 'unsorted': bool(k % 2),
                    'keys': list(kw), 'range': rngv, 'seed': ctx.seed}
            rec = []

            def make(orig):
                def wrapper(self, data=None, *args, **kwargs):
                    out = orig(self, data, *args, **kwargs)
                    rec.append((kwargs, out))
                    return out
                return wrapper
            try:
                with Patched(Baseline, method, make):
                    b, p = Baseline(x).optimize_extended_range(y, method=method, side=side, width_scale=ws, min_value=rngv[0],
                                                               max_value=rngv[1], step=rngv[2], method_kwargs=kw)
            except Exception as exc:  # noqa
                ctx.fail(f'extended:{method}:raises', f'optimize_extended_range(method={method!r}) raised {type(exc).__name__}: {exc}', call)
                continue
            count += 1
            ctx.case(('oracle-extended', k, method, side), nontrivial=True, kind='oracle:extended')
            aw = int(n * ws)
            lo_ = 0 if side == 'right' else aw
            pname = 'poly_order' if method == 'poly' else 'lam'
            rm = np.asarray(p['rmse'])
            bi = [i for i, (kws, _) in enumerate(rec) if kws[pname] == p['optimal_parameter']]
            bad = []
            if b.shape != (n,):
                bad.append(f'baseline shape {b.shape}')
            if not bi or rm[bi[0]] != rm.min() or p['min_rmse'] != rm.min() or len(rm) != len(rec):
                bad.append('optimal_parameter does not minimise the reported rmse')
            else:
                fb, fp = rec[bi[0]][1]
                if not same(b, fb[lo_:lo_ + n]):
                    bad.append('baseline is not the fitted baseline over the data')
                for key in ('weights', 'alpha'):
                    if key in p['method_params'] and np.shape(p['method_params'][key]) != (n,):
                        bad.append(f'method_params[{key!r}] has shape {np.shape(p["method_params"][key])}')
                for key in ('weights', 'alpha'):
                    if key in kw:
                        got = rec[0][0][key]
                        if got.shape != (len(fb),) or not same(got[lo_:lo_ + n], kw[key]) or not np.all(np.delete(got, np.s_[lo_:lo_ + n]) == 1):
                            bad.append(f'user {key} not padded with ones on the added side(s)')
            if bad:
                ctx.fail(f'extended:{method}:{side}:composition', f'optimize_extended_range(method={method!r}, side={side!r}, '
                         f'width_scale={ws}): ' + '; '.join(bad), call)
    return count


# ------------------------------------------------------------------ oracle 2: non-default wrapped kwargs, argument snapshots
VARIANT_VALUES = {
    'diff_order': [1, 3], 'spline_degree': [2, 1], 'mask_initial_peaks': [True, False], 'use_original': [True],
    'cost_function': ['asymmetric_huber', 'symmetric_truncated_quadratic', 'asymmetric_indec'], 'threshold': [0.5],
    'num_std': [2.0], 'p': [0.2], 'symmetric_weights': [True], 'quantile': [0.2], 'eta': [0.3], 'k': [2.0],
    'asymmetric_coef': [2.0], 'smooth_half_window': [2], 'min_length': [3], 'num_knots': [6], 'symmetric': [True],
    'interp_half_window': [2], 'alpha_factor': [0.9], 'normalize_weights': [True],
}


def variant_kwargs(klass, name, base, idx):
    """Base catalogue kwargs plus up to two non-default values of the method's own parameters."""
    import inspect
    pars = [q for q in inspect.signature(getattr(klass, name)).parameters if q in VARIANT_VALUES and q not in ('p',) or q == 'p' and name in ('asls', 'iasls', 'pspline_asls', 'pspline_iasls')]
    kw = dict(base)
    for j in range(min(2, len(pars))):
        q = pars[(idx + j) % len(pars)]
        vals = VARIANT_VALUES[q]
        kw[q] = vals[(idx // 2) % len(vals)]
    return kw


class Watch:
    """Wraps a fitter method: snapshots the array arguments of every sub-call on entry, checks that they are unchanged
    when the sub-call returns, keeps (self, data snapshot, kwargs, snapshots, output)."""

    def __init__(self, klass, name):
        self.log = []
        self.klass, self.name = klass, name

        def make(orig):
            self.orig = orig

            def wrapper(fitter, data=None, *args, **kwargs):
                snaps = {k: np.array(v, copy=True) for k, v in kwargs.items() if isinstance(v, np.ndarray)}
                dsnap = np.array(data, copy=True)
                out = orig(fitter, data, *args, **kwargs)
                changed = [k for k, sn in snaps.items() if not same(kwargs[k], sn)]
                if not same(data, dsnap):
                    changed.append('data')
                self.log.append({'self': fitter, 'data': dsnap, 'kwargs': kwargs, 'snaps': snaps, 'changed': changed, 'out': out})
                return out
            return wrapper
        self.patch = Patched(klass, name, make)

    def __enter__(self):
        self.patch.__enter__()
        return self

    def __exit__(self, *a):
        self.patch.__exit__(*a)

    def pristine(self, i):
        e = self.log[i]
        kw = {k: (np.array(e['snaps'][k], copy=True) if k in e['snaps'] else v) for k, v in e['kwargs'].items()}
        return e['self'], np.array(e['data'], copy=True), kw

    def check_args(self, ctx, key, what, call, same_across=()):
        """Arguments unchanged across each sub-call; the named array arguments identical for all sub-calls in `same_across`."""
        for i, e in enumerate(self.log):
            if e['changed']:
                ctx.fail(key + ':subcall-mutates-arguments',
                         f'{what}: sub-call {i} of {self.name} modified its argument(s) {e["changed"]} in place, so later sub-calls '
                         'and the reported arrays no longer are what the earlier fits used', call)
                return False
        idx = list(same_across)
        for k in (self.log[idx[0]]['snaps'] if idx else ()):
            if not all(k in self.log[i]['snaps'] and same(self.log[i]['snaps'][k], self.log[idx[0]]['snaps'][k]) for i in idx):
                ctx.fail(key + ':subcall-arguments-differ', f'{what}: the array argument {k!r} differs between sub-calls', call)
                return False
        return True

    def rerun_equal(self, i):
        fitter, data, kw = self.pristine(i)
        out = self.orig(fitter, data, **kw)
        return same(out[0], self.log[i]['out'][0])


def oracle_variants(ctx, budget):
    from pybaselines import Baseline, Baseline2D
    rng = np.random.default_rng(ctx.seed + 77)
    prng = random.Random(ctx.seed + 77)
    count = 0
    with warnings.catch_warnings():
        warnings.simplefilter('ignore')
        # ---- adaptive_minmax: four fits from pristine copies of what the sub-calls received
        mm_variants = [('modpoly', {}), ('modpoly', {'mask_initial_peaks': True}), ('modpoly', {'mask_initial_peaks': False, 'use_original': True}),
                       ('modpoly', {'mask_initial_peaks': True, 'use_original': True, 'max_iter': 5}),
                       ('imodpoly', {}), ('imodpoly', {'mask_initial_peaks': False}), ('imodpoly', {'num_std': 2.0, 'use_original': True}),
                       ('imodpoly', {'mask_initial_peaks': True, 'tol': 1e-2})]
        k = 0
        for meth, mkw in mm_variants:
            for unsorted in (False, True):
                for have_w in (False, True):
                    k += 1
                    n = prng.choice([36, 50, 77])
                    x = np.sort(rng.uniform(0, 100, n)) + np.arange(n) * 1e-3
                    y = M.make_y(rng, x)
                    if unsorted:
                        perm = rng.permutation(n)
                        x, y = x[perm], y[perm]
                    w = rng.uniform(0.5, 1.5, n) if have_w else None
                    w_in = None if w is None else w.copy()
                    po = [None, 2, (1, 3)][k % 3]
                    cf = [0.05, (0.1, 0.2), 0.3][k % 3]
                    call = {'kind': 'oracle2-minmax', 'method': meth, 'method_kwargs': dict(mkw), 'n': n, 'unsorted': unsorted,
                            'user_weights': have_w, 'poly_order': po, 'constrained_fraction': cf, 'seed': ctx.seed}
                    key = f'minmax:{meth}'
                    what = f'adaptive_minmax(method={meth!r}, method_kwargs={mkw}, {"unsorted" if unsorted else "sorted"} x, {"user" if have_w else "default"} weights)'
                    user_mkw = dict(mkw)
                    with Watch(Baseline, meth) as wt:
                        b, p = Baseline(x).adaptive_minmax(y, poly_order=po, method=meth, weights=w, constrained_fraction=cf,
                                                           constrained_weight=(50.0, 70.0), method_kwargs=user_mkw)
                    count += 1
                    ctx.case(('oracle2-minmax', meth, tuple(sorted(mkw)), unsorted, have_w), nontrivial=True, kind='oracle2:minmax')
                    fits_log = wt.log[-4:]
                    if len(wt.log) < 4:
                        ctx.fail(key + ':four-fits', f'{what}: fewer than four fits', call)
                        continue
                    wt.log = fits_log
                    if have_w and not same(w, w_in):
                        ctx.fail(key + ':mutates-user-weights', f'{what} modified the caller\'s weights', call)
                    wt.check_args(ctx, key, what, call)
                    ws, cws = fits_log[0]['snaps']['weights'], fits_log[1]['snaps']['weights']
                    if not (same(fits_log[2]['snaps']['weights'], ws) and same(fits_log[3]['snaps']['weights'], cws)
                            and same(p['weights'], ws) and same(p['constrained_weights'], cws)):
                        ctx.fail(key + ':reported-arrays-not-used', f'{what}: the weight arrays the four fits received are not bit-identical '
                                 'to the reported weights / constrained_weights', call)
                    fits = [getattr(Baseline(x), meth)(y, poly_order=int(o), weights=np.array(ww, copy=True), **mkw)[0]
                            for o in p['poly_order'] for ww in (ws, cws)]
                    if not same(np.maximum.reduce(fits), b):
                        ctx.fail(key + ':recomposition', f'{what} is not the point-wise maximum of the four fits defined by the reported '
                                 f'poly orders and weight arrays (max abs diff {np.abs(np.maximum.reduce(fits) - b).max():.3g})', call)
        # ---- collab_pls with non-default wrapped kwargs: step-2 arguments stable, rows == direct single-pass fits
        for two_d, names, kwtab, klass in ((False, COLLAB_1D, M.KW_1D, Baseline), (True, COLLAB_2D, M.KW_2D, Baseline2D)):
            for mi, method in enumerate(names):
                if budget == 1 and (mi + ctx.seed + two_d) % 2:
                    continue
                avg = bool((mi + ctx.seed) % 2)
                if two_d:
                    x, z, y = M.make_z2d(rng, 11, 12)
                    data = np.array([y, y * 0.8 + 2, y + rng.normal(0, 0.3, y.shape)])
                    mk = lambda: Baseline2D(x, z)   # noqa
                else:
                    n = prng.choice([37, 52])
                    x = M.make_x(prng, n, 'random')
                    y = M.make_y(rng, x)
                    if mi % 2 == 0:
                        perm = rng.permutation(n)
                        x, y = x[perm], y[perm]
                    data = np.vstack([y, y * 0.8 + 2, y + rng.normal(0, 0.3, n)])
                    mk = lambda: Baseline(x)   # noqa
                kw = variant_kwargs(klass, method, kwtab[method], mi + ctx.seed)
                try:
                    getattr(mk(), method)(data[0], **kw)
                except Exception:  # noqa -- variant not valid for this method: fall back to the catalogue
                    kw = dict(kwtab[method])
                user = dict(kw)
                if method not in NO_LOOP:
                    user.update(tol=1e-3, max_iter=4)
                if mi % 3 == 0:
                    user['weights'] = np.linspace(0.3, 1.0, data[0].size).reshape(data[0].shape)
                call = {'kind': 'oracle2-collab', 'method': method, 'two_d': two_d, 'average_dataset': avg,
                        'user': {k_: (v if not isinstance(v, np.ndarray) else 'array') for k_, v in user.items()}, 'seed': ctx.seed}
                key = f'collab:{method}:{"2d" if two_d else "1d"}'
                what = f'collab_pls(method={method!r}, average_dataset={avg}, method_kwargs={call["user"]})'
                try:
                    with Watch(klass, method) as wt:
                        b, p = mk().collab_pls(data, average_dataset=avg, method=method, method_kwargs=user)
                except Exception as exc:  # noqa
                    ctx.fail(key + ':raises', f'{what} raised {type(exc).__name__}: {exc}', call)
                    continue
                count += 1
                ctx.case(('oracle2-collab', method, two_d, avg, tuple(sorted(kw))), nontrivial=True, kind='oracle2:collab')
                M_ = len(data)
                step2 = list(range(len(wt.log) - M_, len(wt.log)))
                if not wt.check_args(ctx, key, what, call, same_across=step2):
                    continue
                if not same(wt.log[step2[0]]['snaps']['weights'], p['average_weights']) or (
                        'average_alpha' in p and not same(wt.log[step2[0]]['snaps']['alpha'], p['average_alpha'])):
                    ctx.fail(key + ':reported-arrays-not-used', f'{what}: step 2 did not receive the reported average weights / alpha', call)
                    continue
                direct = dict(kw)
                direct['weights'] = np.array(p['average_weights'], copy=True)
                if 'average_alpha' in p:
                    direct['alpha'] = np.array(p['average_alpha'], copy=True)
                if method not in NO_LOOP:
                    direct.update(tol=np.inf, max_iter=[0, 2, 7][mi % 3])
                if method in ('brpls', 'pspline_brpls'):
                    direct['tol_2'] = np.inf
                if method == 'fabc':
                    direct['weights_as_mask'] = True
                for r in range(M_):
                    bb = getattr(mk(), method)(data[r], **{k_: (np.array(v, copy=True) if isinstance(v, np.ndarray) else v) for k_, v in direct.items()})[0]
                    if not same(bb, b[r]):
                        ctx.fail(key + ':recomposition', f'{what}: row {r} differs from {method} called directly with the reported averages, '
                                 f'tol=inf and the same own parameters by {np.abs(bb - b[r]).max():.3g}', call)
                        break
        # ---- custom_bc identity with non-default wrapped kwargs (user weights only with sorted x)
        names = [m for m in M.method_names() if m not in ('collab_pls', 'custom_bc', 'optimize_extended_range', 'adaptive_minmax', 'interp_pts')]
        if budget == 1:
            names = names[(ctx.seed + 1) % 2::2]
        import inspect
        for mi, method in enumerate(names):
            n = prng.choice([41, 58])
            x = M.make_x(prng, n, 'uniform' if mi % 2 else 'random')
            y = M.make_y(rng, x)
            unsorted = mi % 3 == 1
            if unsorted:
                perm = rng.permutation(n)
                x, y = x[perm], y[perm]
            kw = variant_kwargs(Baseline, method, M.KW_1D[method] or {}, mi + ctx.seed)
            if not unsorted and mi % 2 == 0 and 'weights' in inspect.signature(getattr(Baseline, method)).parameters:
                kw['weights'] = rng.uniform(0.4, 1.0, n)
            copykw = lambda: {k_: (np.array(v, copy=True) if isinstance(v, np.ndarray) else v) for k_, v in kw.items()}   # noqa
            try:
                b2, p2 = getattr(Baseline(x), method)(y, **copykw())
            except Exception:  # noqa
                kw = dict(M.KW_1D[method] or {})
                try:
                    b2, p2 = getattr(Baseline(x), method)(y, **copykw())
                except Exception:  # noqa
                    continue
            call = {'kind': 'oracle2-custom', 'method': method, 'n': n, 'unsorted': unsorted,
                    'kwargs': {k_: (v if not isinstance(v, np.ndarray) else 'array') for k_, v in kw.items()}, 'seed': ctx.seed}
            try:
                b, p = Baseline(x).custom_bc(y, method=method, method_kwargs=copykw())
            except Exception as exc:  # noqa
                ctx.fail(f'custom_bc:identity:{method}:raises', f'custom_bc(method={method!r}, method_kwargs={call["kwargs"]}) raised {exc}', call)
                continue
            count += 1
            ctx.case(('oracle2-custom', method, tuple(sorted(kw)), unsorted), nontrivial=True, kind='oracle2:custom-identity')
            if not same(b, b2):
                ctx.fail(f'custom_bc:identity:{method}', f'custom_bc(method={method!r}, method_kwargs={call["kwargs"]}) with the default region '
                         f'and sampling differs from {method} itself with the same parameters (max abs diff {np.abs(b - b2).max():.3g})', call)
        # ---- optimize_extended_range sweeps: arguments stable across the sweep, each fit reproducible from pristine arguments
        ext = [('modpoly', {'mask_initial_peaks': True}, (1, 4, 1), True), ('modpoly', {'use_original': True}, (1, 3, 1), False),
               ('imodpoly', {'num_std': 2.0, 'mask_initial_peaks': True}, (1, 4, 1), True),
               ('penalized_poly', {'cost_function': 'asymmetric_huber'}, (1, 3, 1), True),
               ('penalized_poly', {'cost_function': 'symmetric_truncated_quadratic', 'threshold': 0.5}, (2, 4, 2), False),
               ('asls', {'diff_order': 1, 'p': 0.1}, (1, 3, 1), True), ('arpls', {'diff_order': 3}, (3, 6, 1), True),
               ('aspls', {'diff_order': 1}, (2, 4, 1), True), ('pspline_asls', {'spline_degree': 2, 'num_knots': 7, 'diff_order': 1}, (0, 2, 1), True),
               ('iasls', {'lam_1': 1e-3, 'p': 0.1}, (2, 4, 1), False), ('quant_reg', {'quantile': 0.1, 'max_iter': 30}, (1, 3, 1), True),
               ('mixture_model', {'num_knots': 7, 'diff_order': 2}, (0, 2, 1), False)]
        for k, (method, kw, rngv, have_w) in enumerate(ext):
            for unsorted in ((False, True) if budget > 1 or k % 2 == ctx.seed % 2 else (False,)):
                n = prng.choice([44, 60])
                x = np.sort(rng.uniform(0, 100, n)) + np.arange(n) * 1e-3
                y = M.make_y(rng, x)
                if unsorted:
                    perm = rng.permutation(n)
                    x, y = x[perm], y[perm]
                side = ['both', 'right', 'left'][k % 3]
                ws = [0.1, 0.25][k % 2]
                mkw = dict(kw)
                if have_w:
                    mkw['weights'] = rng.uniform(0.3, 1.0, n)
                if method == 'aspls':
                    mkw['alpha'] = rng.uniform(0.5, 1.0, n)
                ins = {k_: np.array(v, copy=True) for k_, v in mkw.items() if isinstance(v, np.ndarray)}
                call = {'kind': 'oracle2-extended', 'method': method, 'kwargs': dict(kw), 'user_weights': have_w, 'n': n, 'side': side,
                        'width_scale': ws, 'unsorted': unsorted, 'range': rngv, 'seed': ctx.seed}
                key = f'extended:{method}'
                what = (f'optimize_extended_range(method={method!r}, method_kwargs={kw}{" + weights" if have_w else ""}, side={side!r}, '
                        f'{"unsorted" if unsorted else "sorted"} x)')
                try:
                    with Watch(Baseline, method) as wt:
                        b, p = Baseline(x).optimize_extended_range(y, method=method, side=side, width_scale=ws, min_value=rngv[0],
                                                                   max_value=rngv[1], step=rngv[2], method_kwargs=mkw)
                        count += 1
                        ctx.case(('oracle2-extended', method, side, unsorted), nontrivial=True, kind='oracle2:extended')
                        if any(not same(mkw[k_], v) for k_, v in ins.items()):
                            ctx.fail(key + ':mutates-user-arrays', f'{what} modified the caller\'s weights / alpha', call)
                        if not wt.check_args(ctx, key, what, call, same_across=range(len(wt.log))):
                            continue
                        pname = 'poly_order' if 'poly_order' in wt.log[0]['kwargs'] else 'lam'
                        bi = [i for i, e in enumerate(wt.log) if e['kwargs'][pname] == p['optimal_parameter']]
                        aw = int(n * ws)
                        lo_ = 0 if side == 'right' else aw
                        if not bi or not same(b, wt.log[bi[0]]['out'][0][lo_:lo_ + n]):
                            ctx.fail(key + ':composition', f'{what}: the baseline is not the optimal fit over the data', call)
                        elif not wt.rerun_equal(bi[0]):
                            ctx.fail(key + ':recomposition', f'{what}: the optimal fit is not reproduced by calling {method} with the same '
                                     'data, parameter and (pristine) padded weights', call)
                except Exception as exc:  # noqa
                    ctx.fail(key + ':raises', f'{what} raised {type(exc).__name__}: {exc}', call)
    return count


# ------------------------------------------------------------------ E. 2-D adaptive_minmax weights
def rc_lit(v, conv):
    if not isinstance(v, tuple):
        return f'(RC1 {conv(v)})'
    if len(v) == 2:
        return f'(RC2 {conv(v[0])} {conv(v[1])})'
    return f'(RC4 {conv(v[0])} {conv(v[1])} {conv(v[2])} {conv(v[3])})'


ZERO_PATTERNS = [(1, 0, 1, 1), (0, 1, 1, 1), (1, 1, 0, 1), (1, 1, 1, 0), (1, 0, 0, 0), (0, 1, 0, 0), (0, 0, 1, 0), (0, 0, 0, 1),
                 (1, 1, 0, 0), (0, 0, 1, 1), (0, 0, 0, 0), (1, 1, 1, 1)]


def minmax2d_cases(ctx):
    from pybaselines import Baseline2D
    prng = random.Random(ctx.seed + 53)
    rng = np.random.default_rng(ctx.seed + 53)
    lits = []
    for k in range(ctx.n(72, 500)):
        m, n = prng.choice([(5, 6), (6, 5), (7, 9), (8, 8), (10, 7), (4, 11)])
        x = np.linspace(0, 5, m)
        z = np.linspace(10, 30, n)
        layout = k % 4          # 0 sorted, 1 x only, 2 z only, 3 both
        px = rng.permutation(m) if layout in (1, 3) else np.arange(m)
        pz = rng.permutation(n) if layout in (2, 3) else np.arange(n)
        if layout in (1, 3) and (px == np.arange(m)).all():
            px = px[::-1]
        if layout in (2, 3) and (pz == np.arange(n)).all():
            pz = pz[::-1]
        X, Z = np.meshgrid(x[px], z[pz], indexing='ij')
        y = 1 + 0.3 * X + 0.1 * Z + rng.normal(0, 0.05, (m, n))
        default_w = (k // 4) % 2 == 1
        w = None if default_w else np.arange(10, 10 + m * n, dtype=float).reshape(m, n)
        form = k % 3
        fr = [frac_values(prng, prng.choice([m, n])) for _ in range(4)]
        if k < 36:      # fixed cells: a zero in every position / every subset pattern of the fractions
            pat = ZERO_PATTERNS[k % len(ZERO_PATTERNS)]
            fr = [0.0 if pat[i] == 0 else [0.1, 0.25, 0.2, 0.34][i] for i in range(4)]
            form = 2 if k % 3 != 1 else 1
        cf = fr[0] if form == 0 else ((fr[0], fr[1]) if form == 1 else tuple(fr))
        cw = 1001.0 if k % 5 == 0 else ((1001.0, 1003.0) if k % 5 == 1 else (1001.0, 1002.0, 1003.0, 1004.0))
        call = {'kind': 'minmax2d', 'shape': [m, n], 'layout': ['sorted', 'x-unsorted', 'z-unsorted', 'both-unsorted'][layout],
                'default_weights': default_w, 'constrained_fraction': cf, 'constrained_weight': cw, 'seed': ctx.seed, 'k': k}
        fitter = Baseline2D(x[px], z[pz])
        po = [1, (1, 2), 0, (2, 1)][(k // 3) % 4]
        call['poly_order'] = po
        recorded = []

        def make(orig):
            def rec(self, data=None, *args, **kwargs):
                recorded.append((int(kwargs.get('poly_order', -1)), kwargs.get('weights')))
                return orig(self, data, *args, **kwargs)
            return rec
        with warnings.catch_warnings():
            warnings.simplefilter('ignore')
            with Patched(Baseline2D, 'modpoly', make):
                b, p = fitter.adaptive_minmax(y, poly_order=po, weights=w, constrained_fraction=cf, constrained_weight=cw,
                                              method_kwargs={'max_iter': 2})
        seq = []
        for o, wt_ in recorded:
            which = 'false' if wt_ is p['weights'] else ('true' if wt_ is p['constrained_weights'] else None)
            seq.append(None if which is None else f'({o}, {which})')
        if None in seq:
            ctx.fail('minmax2d:fit-arrays', 'Baseline2D.adaptive_minmax: a fit received a weight array that is not one of the reported arrays', call)
            continue
        nrec = [len(v) for v in p['method_params'].values()]
        pol = f'(inl {po})' if not isinstance(po, tuple) else f'(inr ({po[0]}, {po[1]}))'
        so = fitter._sort_order
        io = fitter._inverted_order
        if so is None:
            ox = oz = None
        elif isinstance(so, tuple):
            if so[0] is Ellipsis:
                ox, oz = None, (so[1], io[1])
            else:
                ox, oz = (so[0][:, 0], io[0][:, 0]), (so[1][0], io[1][0])
        else:
            ox, oz = (so, io), None
        olit = lambda o: 'None' if o is None else f'(Some (of_list 0 {zlist(o[0])}, of_list 0 {zlist(o[1])}))'   # noqa
        win = zlist(range(10, 10 + m * n)) if not default_w else zlist([1] * (m * n))
        ctx.case(('minmax2d', m, n, layout, default_w, cf, cw), nontrivial=any(f > 0 for f in fr[:1 if form == 0 else 2 if form == 1 else 4]),
                 kind=f'minmax2d:{call["layout"]}')
        lits.append((f'({m}, {n}, {olit(ox)}, {olit(oz)}, {rc_lit(cf, hexf)}, {rc_lit(cw, lambda v: str(int(v)))}, {win}, '
                     f'{zlist(p["weights"].ravel())}, {zlist(p["constrained_weights"].ravel())}, {pol}, [{"; ".join(seq)}], '
                     f'{zlist(list(p["poly_order"]) + nrec)})', call))

    def on_bad(call):
        ctx.fail(f'minmax2d:weights:{call["layout"]}:{"default" if call["default_weights"] else "given"}',
                 f'Baseline2D.adaptive_minmax(shape={call["shape"]}, {call["layout"]}, constrained_fraction={call["constrained_fraction"]}, '
                 f'constrained_weight={call["constrained_weight"]}): reported weights / constrained_weights differ from ceil(M*f) rows and '
                 'ceil(N*g) columns at each edge in x / z order (last columns > last rows > first columns > first rows), or the fits '
                 'performed are not the four (order, array) pairs (p0,w),(p0,cw),(p1,w),(p1,cw) with one method_params entry each', call)

    if lits:
        ctx.sample({'kind': 'minmax2d-case', 'coq_literal': lits[3][0][:400], 'call': lits[3][1]})
    ctype = ('Z * Z * option ((Z -> Z) * (Z -> Z)) * option ((Z -> Z) * (Z -> Z)) * rc float * rc Z * list Z * list Z * list Z * '
             '(Z + Z * Z) * list (Z * bool) * list Z')
    run_cases(ctx, 'correspondence:adaptive_minmax-2d-weights', 'minmax2d', ctype,
              f"""Definition ok (c : {ctype}) : bool :=
  let '(m, n, ox, oz, cf, cw, w, wobs, cobs, po, seq, misc) := c in
  let '(f0, f1, f2, f3) := fill4 cf in let '(w0, w1, w2, w3) := fill4 cw in
  let r := minmax2d_weights m n ox oz (edge_count Num_F m f0) (edge_count Num_F m f1) (edge_count Num_F n f2)
             (edge_count Num_F n f3) w0 w1 w2 w3 (of_list2 0 n w) in
  let fs := fit_sequence (poly_orders po) in
  zl_eqb (to_list2 m n (fst r)) wobs && zl_eqb (to_list2 m n (snd r)) cobs &&
  zl_eqb (map fst fs) (map fst seq) && bl_eqb (map snd fs) (map snd seq) &&
  (* reported orders, and every method_params list has one entry per fit of the sequence *)
  zl_eqb (firstn 2 misc) [fst (poly_orders po); snd (poly_orders po)] &&
  forallb (fun v => v =? Z.of_nat (List.length fs)) (skipn 2 misc).""", lits, on_bad)


# ------------------------------------------------------------------ F. the lam grid of optimize_extended_range
def lamgrid_cases(ctx):
    import numpy._core.function_base as fb
    from pybaselines import Baseline
    prng = random.Random(ctx.seed + 59)
    rng = np.random.default_rng(ctx.seed + 59)
    lits = []
    grids = [(2, 8, 1), (2, 5, 1), (1, 4, 0.5), (3, 3, 1), (6, 2, 1), (2, 3, 0.25), (2, 5, -1), (5, 2, -1), (1.5, 4.25, 0.75),
             (0, 1, 0.3), (2, 2.5, 1), (2, 7, 2), (2, 7, 0), (-1, 2, 0.7), (3, 1, 0.4), (2.0, 2.0, 0.5), (1, 6, 1.7), (0.5, 0.6, 0.01)]
    for k in range(ctx.n(36, 200)):
        lo, hi, st = grids[k % len(grids)] if k < 2 * len(grids) else (round(prng.uniform(-1, 5), 2), round(prng.uniform(-1, 8), 2),
                                                                          prng.choice([0.3, 0.5, 1, 1.3, -0.5, 2]))
        n = prng.choice([20, 31])
        x = np.linspace(0, 10, n)
        y = rng.uniform(1, 9, n)
        offs = [prng.randint(-3, 3) for _ in range(80)]
        rec, grid_calls = [], []
        state = {'in_logspace': False}

        def make(orig):
            def stub(self, data=None, *args, **kwargs):
                L = len(data)
                rec.append(kwargs.get('lam'))
                return np.arange(L, dtype=float) + offs[(len(rec) - 1) % len(offs)], {}
            return stub
        o_logspace, o_linspace = np.logspace, fb.linspace

        def logspace(*a, **kw):
            state['in_logspace'] = True
            try:
                return o_logspace(*a, **kw)
            finally:
                state['in_logspace'] = False

        def linspace(*a, **kw):
            out = o_linspace(*a, **kw)
            if state['in_logspace']:
                grid_calls.append(np.array(out, dtype=float))
            return out
        call = {'kind': 'lamgrid', 'min_value': lo, 'max_value': hi, 'step': st, 'n': n, 'seed': ctx.seed, 'k': k}
        raised = False
        np.logspace, fb.linspace = logspace, linspace
        try:
            with warnings.catch_warnings():
                warnings.simplefilter('ignore')
                with Patched(Baseline, 'asls', make):
                    try:
                        b, p = Baseline(x).optimize_extended_range(y, method='asls', side='both', width_scale=0.2, min_value=lo,
                                                                   max_value=hi, step=st,
                                                                   pad_kwargs={'mode': 'constant', 'constant_values': 0})
                    except ValueError as exc:
                        if 'Number of samples' in str(exc):
                            raised = True
                        else:
                            raise
        finally:
            np.logspace, fb.linspace = o_logspace, o_linspace
        if raised:
            ctx.case(('lamgrid', lo, hi, st), nontrivial=True, kind='lamgrid:raises')
            lits.append((f'({hexf(lo)}, {hexf(hi)}, {hexf(st)}, None, [], 0)', call))
            continue
        swept = bool(grid_calls) and len(grid_calls[-1]) > 0
        exps = grid_calls[-1] if swept else np.array([float(lo)])
        lam = np.array(rec, dtype=float)
        with np.errstate(all='ignore'):
            expect = np.power(10.0, exps) if swept else 10.0 ** np.array([lo])
        if len(lam) != len(exps) or not same(lam, expect):
            ctx.fail('extended:lam-grid:pow', 'optimize_extended_range: the lam values handed to the method are not 10.0 ** (the exponents '
                     'np.logspace computed)', call)
            continue
        added = 8
        S = [int(round(float(r) ** 2 * added)) for r in p['rmse']]
        bi = [i for i, v in enumerate(lam) if v == p['optimal_parameter']]
        errs_ok = len(S) == len(lam) and bi
        if not errs_ok:
            ctx.fail('extended:lam-grid:optimal-not-in-grid', 'optimize_extended_range: optimal_parameter is not a value of the grid swept', call)
            continue
        ctx.case(('lamgrid', lo, hi, st), nontrivial=len(exps) > 1, kind='lamgrid:swept')
        lits.append((f'({hexf(lo)}, {hexf(hi)}, {hexf(st)}, Some [{"; ".join(hexf(v) for v in exps)}], {zlist(S)}, {bi[0]})', call))

    def on_bad(call):
        ctx.fail('extended:lam-grid', f'optimize_extended_range(min_value={call["min_value"]}, max_value={call["max_value"]}, '
                 f'step={call["step"]}): the exponent grid (count ceil((max-min)/step), linspace values, exact end point, sign flip of step, '
                 'raise on a negative count) or the selected grid index differ from the model', call)

    if lits:
        ctx.sample({'kind': 'lamgrid-case', 'coq_literal': lits[0][0][:300], 'call': lits[0][1]})
    ctype = 'float * float * float * option (list float) * list Z * Z'
    run_cases(ctx, 'correspondence:optimize_extended_range-lam-grid', 'lamgrid', ctype,
              f"""Definition ok (c : {ctype}) : bool :=
  let '(lo, hi, st, gobs, errs, best) := c in
  match lam_grid Num_F lo hi st, gobs with
  | None, None => true
  | Some g, Some g' => fl_eqb g g' &&
      match selected_param (zrange 0 (zlen g)) errs with Some b => b =? best | None => false end
  | _, _ => false
  end.""", lits, on_bad)


# ------------------------------------------------------------------ oracle 3: brpls solve count, custom_bc smoothing system
def oracle_growth(ctx, budget):
    from pybaselines import Baseline, Baseline2D
    import pybaselines._weighting as wt
    from . import c06
    rng = np.random.default_rng(ctx.seed + 91)
    prng = random.Random(ctx.seed + 91)
    count = 0
    with warnings.catch_warnings():
        warnings.simplefilter('ignore')
        # ---- nested brpls loops under collab_pls: one solve (= one re-weighting) per step-2 fit
        for two_d, klass in ((False, Baseline), (True, Baseline2D)):
            for method in ('brpls', 'pspline_brpls'):
                for avg in (True, False):
                    if two_d:
                        x, z, y = M.make_z2d(rng, 11, 12)
                        data = np.array([y, y * 1.2 + 1])
                        mk = lambda: Baseline2D(x, z)   # noqa
                        kw = dict(M.KW_2D[method])
                    else:
                        n = 45
                        x = M.make_x(prng, n)
                        y = M.make_y(rng, x)
                        data = np.vstack([y, y * 1.2 + 1, y[::-1]])
                        mk = lambda: Baseline(x)   # noqa
                        kw = dict(M.KW_1D[method])
                    kw.update(max_iter=prng.choice([3, 6]), max_iter_2=prng.choice([2, 5]), tol=1e-4, tol_2=1e-4)
                    counts, cur = [], [0]
                    orig_w = wt._brpls

                    def counting(*a, **k_):
                        cur[0] += 1
                        return orig_w(*a, **k_)

                    def make(orig):
                        def rec(self, data_=None, *args, **kwargs):
                            cur[0] = 0
                            out = orig(self, data_, *args, **kwargs)
                            counts.append((cur[0], kwargs.get('tol'), kwargs.get('tol_2')))
                            return out
                        return rec
                    call = {'kind': 'oracle3-brpls', 'method': method, 'two_d': two_d, 'average_dataset': avg,
                            'max_iter': kw['max_iter'], 'max_iter_2': kw['max_iter_2'], 'seed': ctx.seed}
                    wt._brpls = counting
                    try:
                        with Patched(klass, method, make):
                            b, p = mk().collab_pls(data, average_dataset=avg, method=method, method_kwargs=kw)
                    finally:
                        wt._brpls = orig_w
                    count += 1
                    ctx.case(('oracle3-brpls', method, two_d, avg), nontrivial=any(c[0] > 1 for c in counts[:-len(data)]), kind='oracle3:brpls-solve-count')
                    step2 = counts[-len(data):]
                    if not all(c[0] == 1 and c[1] == np.inf and c[2] == np.inf for c in step2):
                        ctx.fail(f'collab:{method}:{"2d" if two_d else "1d"}:nested-single-pass',
                                 f'collab_pls(method={method!r}, max_iter={kw["max_iter"]}, max_iter_2={kw["max_iter_2"]}): a step-2 fit '
                                 f'performed {[c[0] for c in step2]} solves / re-weightings (expected exactly one each, tol = tol_2 = inf)', call)
        # ---- custom_bc with lam: the captured banded system is (I + lam D'D) z = interpolated baseline
        for k in range(10 * budget):
            n = prng.choice([9, 14, 23, 40])
            d = prng.choice([1, 2, 3])
            lam = float(2 ** prng.randint(0, 6))
            bs = prng.choice([1, 2, 3, 4])
            hp = bool(k % 2) and c06.pentapy_available()
            x = np.arange(n, dtype=float)
            y = np.round(M.make_y(rng, np.linspace(0, 1, n) * 10 + 1))
            regs = ((0, n // 2), (n // 2, n)) if k % 3 else ((None, None),)
            samp = [1, 2, 3][k % 3]
            call = {'kind': 'oracle3-smooth', 'n': n, 'diff_order': d, 'lam': lam, 'banded_solver': bs, 'pentapy': hp,
                    'regions': regs, 'sampling': samp, 'seed': ctx.seed}
            f0 = Baseline(x, check_finite=False, assume_sorted=True)
            b0, _ = f0.custom_bc(y, method='poly', regions=regs, sampling=samp, method_kwargs={'poly_order': 2})
            with c06.Capture(hp) as cap:
                f1 = Baseline(x, check_finite=False, assume_sorted=True)
                f1.banded_solver = bs
                b1, _ = f1.custom_bc(y, method='poly', regions=regs, sampling=samp, lam=lam, diff_order=d,
                                     method_kwargs={'poly_order': 2})
            count += 1
            ctx.case(('oracle3-smooth', n, d, lam, bs, hp), nontrivial=True, kind='oracle3:custom-smooth-system')
            if len(cap.calls) != 1:
                ctx.fail('custom_bc:smooth:calls', f'custom_bc(lam={lam}): {len(cap.calls)} banded solves instead of one', call)
                continue
            A = c06.densify(cap.calls[0], n)
            doc = np.eye(n) + lam * np.array(c06.DtD(n, d), dtype=float)
            if not same(A, doc) or not same(cap.calls[0]['b'], b0) or not same(b1, cap.calls[0]['out']):
                ctx.fail('custom_bc:smooth:system', f'custom_bc(lam={lam}, diff_order={d}, N={n}, banded_solver={bs}): the banded system '
                         'is not (I + lam D\'D) z = interpolated baseline, or the result is not its solution as returned by the solver', call)
    return count


# ------------------------------------------------------------------ oracle 4: functional interface and _Optimizers objects
def noninvolutive_perms(rng, n):
    """Rotation, two appended scans, random: none is an involution, so sorting twice is not the identity."""
    rot = np.roll(np.arange(n), n // 3)
    scans = np.concatenate([np.arange(0, n, 2), np.arange(1, n, 2)])
    rnd = rng.permutation(n)
    while (rnd[rnd] == np.arange(n)).all():
        rnd = rng.permutation(n)
    out = [('rotation', rot), ('two-scans', scans), ('random', rnd)]
    assert all(not (q[q] == np.arange(n)).all() for _, q in out)
    return out


def defining_class(method, two_d=False):
    """The algorithm class of the module that defines `method` (what _get_function instantiates as helper fitter)."""
    import importlib
    pkg = 'pybaselines.two_d' if two_d else 'pybaselines'
    for mod in ('whittaker', 'spline', 'morphological', 'polynomial', 'classification', 'smooth', 'misc'):
        try:
            module = importlib.import_module(f'{pkg}.{mod}')
        except ImportError:
            continue
        klass = getattr(module, '_' + mod.capitalize(), None)
        if klass is not None and method in klass.__dict__:
            return klass
    return None


class HelperWatch:
    """Records, at every call of the wrapped method (on whatever fitter object the optimizer built), the fitter's x
    (and z), its sort order, the data and the keyword arguments."""

    def __init__(self, klass, name):
        self.log = []

        def make(orig):
            def wrapper(fitter, data=None, *args, **kwargs):
                self.log.append({'type': type(fitter).__name__, 'x': None if fitter.x is None else np.array(fitter.x, copy=True),
                                 'z': np.array(fitter.z, copy=True) if getattr(fitter, 'z', None) is not None else None,
                                 'order': fitter._sort_order, 'data': np.array(data, copy=True)})
                return orig(fitter, data, *args, **kwargs)
            return wrapper
        self.patch = Patched(klass, name, make)

    def __enter__(self):
        self.patch.__enter__()
        return self

    def __exit__(self, *a):
        self.patch.__exit__(*a)


def helper_ok_1d(entry, x):
    """The helper's x is the sorted x and its sort order maps the caller's order onto it."""
    if entry['x'] is None or not same(entry['x'], np.sort(x, kind='mergesort')):
        return False
    o = entry['order']
    return same(x if o is None else x[o], entry['x'])


def helper_ok_2d(entry, x, z):
    if not (same(entry['x'], np.sort(x)) and same(entry['z'], np.sort(z))):
        return False
    o = entry['order']
    X, Z = np.meshgrid(x, z, indexing='ij')
    Xs, Zs = np.meshgrid(entry['x'], entry['z'], indexing='ij')
    if o is None:
        return same(X, Xs) and same(Z, Zs)
    return same(X[o], Xs) and same(Z[o], Zs)


def oracle_interfaces(ctx, budget):
    import pybaselines.optimizers as opt1
    import pybaselines.two_d.optimizers as opt2
    from pybaselines import Baseline, Baseline2D
    rng = np.random.default_rng(ctx.seed + 131)
    prng = random.Random(ctx.seed + 131)
    count = 0

    def cmp_params(pa, pb):
        """Same keys; arrays bit-identical (lists of arrays compared element-wise)."""
        if set(pa) != set(pb):
            return False
        for k_ in pa:
            a, b_ = pa[k_], pb[k_]
            if isinstance(a, dict):
                if not cmp_params(a, b_):
                    return False
            elif isinstance(a, (list, tuple)):
                if len(a) != len(b_) or not all(same(u, v) for u, v in zip(a, b_)):
                    return False
            elif not same(a, b_):
                return False
        return True

    with warnings.catch_warnings():
        warnings.simplefilter('ignore')
        # ---- 1-D: functional interface and _Optimizers objects against Baseline objects and direct fits
        collab_names = COLLAB_1D if budget > 1 else COLLAB_1D[ctx.seed % 3::3]
        for mi, method in enumerate(collab_names):
            n = prng.choice([33, 46])
            xs = np.sort(rng.uniform(0, 60, n)) + np.arange(n) * 1e-3
            ys = M.make_y(rng, xs)
            pname, perm = noninvolutive_perms(rng, n)[mi % 3]
            x, y = xs[perm], ys[perm]
            data = np.vstack([y, y * 1.2 + 1, y + rng.normal(0, 0.2, n)])
            kw = dict(M.KW_1D[method])
            if method not in NO_LOOP:
                kw.update(tol=1e-3, max_iter=3)
            avg = bool(mi % 2)
            ref_b, ref_p = Baseline(x).collab_pls(data, average_dataset=avg, method=method, method_kwargs=dict(kw))
            klass = defining_class(method)
            for iface in ('functional', 'object'):
                call = {'kind': 'oracle4-collab', 'method': method, 'interface': iface, 'permutation': pname, 'n': n,
                        'average_dataset': avg, 'seed': ctx.seed}
                key = f'collab:{method}:1d:{iface}-interface'
                what = (f'{"pybaselines.optimizers.collab_pls(..., x_data=x)" if iface == "functional" else "optimizers._Optimizers(x).collab_pls"}'
                        f'(method={method!r}, average_dataset={avg}) on x permuted by a {pname}')
                try:
                    with HelperWatch(klass, method) as hw:
                        if iface == 'functional':
                            b, p = opt1.collab_pls(data, average_dataset=avg, method=method, method_kwargs=dict(kw), x_data=x)
                        else:
                            b, p = opt1._Optimizers(x).collab_pls(data, average_dataset=avg, method=method, method_kwargs=dict(kw))
                except Exception as exc:  # noqa
                    ctx.fail(key + ':raises', f'{what} raised {type(exc).__name__}: {exc}', call)
                    continue
                count += 1
                ctx.case(('oracle4-collab', method, iface, pname), nontrivial=True, kind=f'oracle4:collab:{iface}')
                if not hw.log or not all(helper_ok_1d(e, x) for e in hw.log):
                    ctx.fail(key + ':helper-x', f'{what}: the fitter the wrapped method runs on does not hold the sorted x with a sort order '
                             'that maps the caller\'s order onto it', call)
                if not (same(b, ref_b) and cmp_params(p, ref_p)):
                    ctx.fail(key + ':differs-from-Baseline', f'{what} differs from Baseline(x).collab_pls with the same arguments '
                             f'(max abs diff {np.abs(b - ref_b).max():.3g})', call)
                direct = dict(M.KW_1D[method])
                direct['weights'] = np.array(p['average_weights'], copy=True)
                if 'average_alpha' in p:
                    direct['alpha'] = np.array(p['average_alpha'], copy=True)
                if method not in NO_LOOP:
                    direct.update(tol=np.inf, max_iter=2)
                if method in ('brpls', 'pspline_brpls'):
                    direct['tol_2'] = np.inf
                if method == 'fabc':
                    direct['weights_as_mask'] = True
                bb = getattr(Baseline(x), method)(data[1], **direct)[0]
                if not same(bb, b[1]):
                    ctx.fail(key + ':recomposition', f'{what}: row 1 differs from Baseline(x).{method}(row, weights=average_weights, tol=inf) '
                             f'by {np.abs(bb - b[1]).max():.3g}', call)
        for k, (meth, mkw) in enumerate([('modpoly', {}), ('imodpoly', {'num_std': 1.5}), ('modpoly', {'mask_initial_peaks': True})]):
            n = prng.choice([38, 51])
            xs = np.sort(rng.uniform(0, 60, n)) + np.arange(n) * 1e-3
            ys = M.make_y(rng, xs)
            pname, perm = noninvolutive_perms(rng, n)[(k + ctx.seed) % 3]
            x, y = xs[perm], ys[perm]
            w = None if k % 2 else rng.uniform(0.5, 1.5, n)
            po = [None, 2, (1, 3)][k % 3]
            klass = defining_class(meth)
            for iface in ('functional', 'object'):
                call = {'kind': 'oracle4-minmax', 'method': meth, 'interface': iface, 'permutation': pname, 'n': n, 'seed': ctx.seed}
                key = f'minmax:{meth}:{iface}-interface'
                what = (f'{"pybaselines.optimizers.adaptive_minmax(..., x_data=x)" if iface == "functional" else "optimizers._Optimizers(x).adaptive_minmax"}'
                        f'(method={meth!r}, method_kwargs={mkw}) on x permuted by a {pname}')
                with HelperWatch(klass, meth) as hw:
                    args = dict(poly_order=po, method=meth, weights=None if w is None else w.copy(), constrained_fraction=(0.1, 0.2),
                                constrained_weight=(50.0, 70.0), method_kwargs=dict(mkw))
                    b, p = (opt1.adaptive_minmax(y, x_data=x, **args) if iface == 'functional' else opt1._Optimizers(x).adaptive_minmax(y, **args))
                count += 1
                ctx.case(('oracle4-minmax', meth, iface, pname), nontrivial=True, kind=f'oracle4:minmax:{iface}')
                if not hw.log or not all(helper_ok_1d(e, x) for e in hw.log):
                    ctx.fail(key + ':helper-x', f'{what}: the fitter the wrapped method runs on does not hold the sorted x with a matching sort order', call)
                fits = [getattr(Baseline(x), meth)(y, poly_order=int(o), weights=np.array(ww, copy=True), **mkw)[0]
                        for o in p['poly_order'] for ww in (p['weights'], p['constrained_weights'])]
                if not same(np.maximum.reduce(fits), b):
                    ctx.fail(key + ':recomposition', f'{what} is not the point-wise maximum of the four Baseline(x).{meth} fits defined by the '
                             f'reported poly orders and weight arrays (max abs diff {np.abs(np.maximum.reduce(fits) - b).max():.3g})', call)
        for k, (method, kw) in enumerate([('asls', {'lam': 1e3}), ('modpoly', {'poly_order': 3}), ('mor', {'half_window': 4}),
                                          ('pspline_arpls', {'num_knots': 8, 'lam': 10}), ('fastchrom', {'half_window': 4})]):
            n = prng.choice([40, 53])
            xs = np.sort(rng.uniform(0, 60, n)) + np.arange(n) * 1e-3
            ys = M.make_y(rng, xs)
            pname, perm = noninvolutive_perms(rng, n)[(k + ctx.seed) % 3]
            x, y = xs[perm], ys[perm]
            b2 = getattr(Baseline(x), method)(y, **kw)[0]
            for iface in ('functional', 'object'):
                call = {'kind': 'oracle4-custom', 'method': method, 'interface': iface, 'permutation': pname, 'n': n, 'seed': ctx.seed}
                b, p = (opt1.custom_bc(y, x_data=x, method=method, method_kwargs=dict(kw)) if iface == 'functional'
                        else opt1._Optimizers(x).custom_bc(y, method=method, method_kwargs=dict(kw)))
                count += 1
                ctx.case(('oracle4-custom', method, iface, pname), nontrivial=True, kind=f'oracle4:custom:{iface}')
                if not same(b, b2):
                    ctx.fail(f'custom_bc:identity:{method}:{iface}-interface', f'custom_bc through the {iface} interface (method={method!r}, x permuted by a '
                             f'{pname}) differs from Baseline(x).{method} by {np.abs(b - b2).max():.3g}', call)
        for k, (method, kw, rngv) in enumerate([('asls', {}, (2, 4, 1)), ('modpoly', {}, (1, 3, 1)), ('pspline_asls', {'num_knots': 8}, (0, 2, 1))]):
            n = prng.choice([40, 53])
            xs = np.sort(rng.uniform(0, 60, n)) + np.arange(n) * 1e-3
            ys = M.make_y(rng, xs)
            pname, perm = noninvolutive_perms(rng, n)[(k + ctx.seed) % 3]
            x, y = xs[perm], ys[perm]
            args = dict(method=method, side=['both', 'left', 'right'][k % 3], width_scale=0.2, min_value=rngv[0], max_value=rngv[1],
                        step=rngv[2], method_kwargs=dict(kw))
            rb, rp = Baseline(x).optimize_extended_range(y, **args)
            for iface in ('functional', 'object'):
                call = {'kind': 'oracle4-extended', 'method': method, 'interface': iface, 'permutation': pname, 'n': n, 'seed': ctx.seed}
                b, p = (opt1.optimize_extended_range(y, x_data=x, **args) if iface == 'functional'
                        else opt1._Optimizers(x).optimize_extended_range(y, **args))
                count += 1
                ctx.case(('oracle4-extended', method, iface, pname), nontrivial=True, kind=f'oracle4:extended:{iface}')
                if not (same(b, rb) and cmp_params(p, rp)):
                    ctx.fail(f'extended:{method}:{iface}-interface', f'optimize_extended_range through the {iface} interface (method={method!r}, x permuted '
                             f'by a {pname}) differs from Baseline(x).optimize_extended_range (max abs diff {np.abs(b - rb).max():.3g})', call)
        # ---- 2-D: two_d.optimizers._Optimizers(x, z) against Baseline2D(x, z) and direct fits
        names2 = COLLAB_2D if budget > 1 else COLLAB_2D[ctx.seed % 4::4]
        for mi, method in enumerate(names2):
            m_, n_ = 11, 12
            xs, zs, ysort = M.make_z2d(rng, m_, n_)
            px = noninvolutive_perms(rng, m_)[mi % 3][1] if mi % 4 != 3 else np.arange(m_)
            pz = noninvolutive_perms(rng, n_)[(mi + 1) % 3][1] if mi % 4 != 2 else np.arange(n_)
            x, z = xs[px], zs[pz]
            y = ysort[px][:, pz]
            data = np.array([y, y * 1.2 + 1])
            kw = dict(M.KW_2D[method])
            kw.update(tol=1e-3, max_iter=3)
            avg = bool(mi % 2)
            call = {'kind': 'oracle4-collab2d', 'method': method, 'average_dataset': avg, 'x_permuted': mi % 4 != 3, 'z_permuted': mi % 4 != 2,
                    'seed': ctx.seed}
            key = f'collab:{method}:2d:object-interface'
            what = f'two_d.optimizers._Optimizers(x, z).collab_pls(method={method!r}, average_dataset={avg}) on permuted axes'
            ref_b, ref_p = Baseline2D(x, z).collab_pls(data, average_dataset=avg, method=method, method_kwargs=dict(kw))
            try:
                with HelperWatch(defining_class(method, True), method) as hw:
                    b, p = opt2._Optimizers(x, z).collab_pls(data, average_dataset=avg, method=method, method_kwargs=dict(kw))
            except Exception as exc:  # noqa
                ctx.fail(key + ':raises', f'{what} raised {type(exc).__name__}: {exc}', call)
                continue
            count += 1
            ctx.case(('oracle4-collab2d', method, avg), nontrivial=True, kind='oracle4:collab2d:object')
            if not hw.log or not all(helper_ok_2d(e, x, z) for e in hw.log):
                ctx.fail(key + ':helper-x', f'{what}: the fitter the wrapped method runs on does not hold the sorted x / z with matching sort orders', call)
            if not (same(b, ref_b) and cmp_params(p, ref_p)):
                ctx.fail(key + ':differs-from-Baseline2D', f'{what} differs from Baseline2D(x, z).collab_pls (max abs diff {np.abs(b - ref_b).max():.3g})', call)
            direct = dict(M.KW_2D[method])
            direct.update(weights=np.array(p['average_weights'], copy=True), tol=np.inf, max_iter=2)
            if 'average_alpha' in p:
                direct['alpha'] = np.array(p['average_alpha'], copy=True)
            if method in ('brpls', 'pspline_brpls'):
                direct['tol_2'] = np.inf
            bb = getattr(Baseline2D(x, z), method)(data[1], **direct)[0]
            if not same(bb, b[1]):
                ctx.fail(key + ':recomposition', f'{what}: entry 1 differs from Baseline2D(x, z).{method}(entry, weights=average_weights, tol=inf) '
                         f'by {np.abs(bb - b[1]).max():.3g}', call)
        for k, meth in enumerate(['modpoly', 'imodpoly']):
            m_, n_ = 10, 12
            xs, zs, ysort = M.make_z2d(rng, m_, n_)
            px = noninvolutive_perms(rng, m_)[(k + ctx.seed) % 3][1]
            pz = noninvolutive_perms(rng, n_)[(k + 1 + ctx.seed) % 3][1]
            x, z, y = xs[px], zs[pz], ysort[px][:, pz]
            call = {'kind': 'oracle4-minmax2d', 'method': meth, 'seed': ctx.seed}
            key = f'minmax2d:{meth}:object-interface'
            what = f'two_d.optimizers._Optimizers(x, z).adaptive_minmax(method={meth!r}) on permuted axes'
            with HelperWatch(defining_class(meth, True), meth) as hw:
                b, p = opt2._Optimizers(x, z).adaptive_minmax(y, poly_order=(1, 2), method=meth, constrained_fraction=(0.1, 0.2),
                                                              constrained_weight=(50.0, 70.0))
            count += 1
            ctx.case(('oracle4-minmax2d', meth), nontrivial=True, kind='oracle4:minmax2d:object')
            if not hw.log or not all(helper_ok_2d(e, x, z) for e in hw.log):
                ctx.fail(key + ':helper-x', f'{what}: the helper fitter does not hold the sorted x / z with matching sort orders', call)
            fits = [getattr(Baseline2D(x, z), meth)(y, poly_order=int(o), weights=np.array(ww, copy=True))[0]
                    for o in p['poly_order'] for ww in (p['weights'], p['constrained_weights'])]
            if not same(np.maximum.reduce(fits), b):
                ctx.fail(key + ':recomposition', f'{what} is not the point-wise maximum of the four Baseline2D fits defined by the reported '
                         f'orders and weight arrays (max abs diff {np.abs(np.maximum.reduce(fits) - b).max():.3g})', call)
    return count


# ------------------------------------------------------------------ oracle 5: the method name in other spellings
def params_equal(pa, pb):
    if set(pa) != set(pb):
        return False
    for k_ in pa:
        a, b_ = pa[k_], pb[k_]
        if isinstance(a, dict):
            if not params_equal(a, b_):
                return False
        elif isinstance(a, (list, tuple)):
            if len(a) != len(b_) or not all(same(u, v) for u, v in zip(a, b_)):
                return False
        elif not same(a, b_):
            return False
    return True


def oracle_name_case(ctx, budget):
    from pybaselines import Baseline, Baseline2D
    rng = np.random.default_rng(ctx.seed + 171)
    prng = random.Random(ctx.seed + 171)
    special = ('aspls', 'pspline_aspls', 'brpls', 'pspline_brpls', 'fabc', 'mpls', 'pspline_mpls')
    count = 0
    with warnings.catch_warnings():
        warnings.simplefilter('ignore')
        for two_d, names, kwtab in ((False, COLLAB_1D, M.KW_1D), (True, COLLAB_2D, M.KW_2D)):
            for mi, method in enumerate(names):
                if budget == 1 and method not in special and (mi + ctx.seed) % 2:
                    continue
                if two_d:
                    x, z, y = M.make_z2d(rng, 11, 12)
                    data = np.array([y, y * 1.3 + 1])
                    mk = lambda: Baseline2D(x, z)   # noqa
                else:
                    n = 43
                    x = M.make_x(prng, n, 'random')
                    y = M.make_y(rng, x)
                    if mi % 2:
                        perm = rng.permutation(n)
                        x, y = x[perm], y[perm]
                    data = np.vstack([y, y * 1.3 + 1, y[::-1] * 0.9])
                    mk = lambda: Baseline(x)   # noqa
                kw = dict(kwtab[method])
                if method not in NO_LOOP:
                    kw.update(tol=1e-3, max_iter=4)
                avg = bool((mi + ctx.seed) % 2)
                ref_b, ref_p = mk().collab_pls(data, average_dataset=avg, method=method, method_kwargs=dict(kw))
                for vi in range(2 if method in special else 1):
                    name = case_variant(method, mi + vi + ctx.seed)
                    call = {'kind': 'oracle5-collab', 'method': name, 'two_d': two_d, 'average_dataset': avg, 'seed': ctx.seed}
                    key = f'collab:{method}:{"2d" if two_d else "1d"}:name-case'
                    what = f'{"Baseline2D" if two_d else "Baseline"}.collab_pls(method={name!r}, average_dataset={avg})'
                    try:
                        b, p = mk().collab_pls(data, average_dataset=avg, method=name, method_kwargs=dict(kw))
                    except Exception as exc:  # noqa
                        ctx.fail(key + ':raises', f'{what} raised {type(exc).__name__}: {exc} while method={method!r} runs', call)
                        continue
                    count += 1
                    ctx.case(('oracle5-collab', name, two_d, avg), nontrivial=True, kind='oracle5:collab-name-case')
                    if ('average_alpha' in p) != (method in ('aspls', 'pspline_aspls')):
                        ctx.fail(key + ':average-alpha-key', f'{what}: params {"has" if "average_alpha" in p else "lacks"} "average_alpha" '
                                 f'(keys {sorted(p)}); it must be present exactly for the aspls family, whatever the spelling', call)
                    if not (same(b, ref_b) and params_equal(p, ref_p)):
                        ctx.fail(key + ':differs-from-lower-case', f'{what} differs from the call with method={method!r} '
                                 f'(max abs diff {np.abs(b - ref_b).max():.3g}): the spelling of the name changes the composition', call)
        # ---- the other optimizers' method argument
        n = 47
        x = M.make_x(prng, n, 'random')
        y = M.make_y(rng, x)
        perm = rng.permutation(n)
        xu, yu = x[perm], y[perm]
        others = [('adaptive_minmax', 'modpoly', dict(poly_order=2, method_kwargs={'max_iter': 20})),
                  ('adaptive_minmax', 'imodpoly', dict(poly_order=(1, 3))),
                  ('custom_bc', 'asls', dict(method_kwargs={'lam': 1e3})), ('custom_bc', 'modpoly', dict(regions=((5, 30),), sampling=3)),
                  ('custom_bc', 'pspline_arpls', dict(method_kwargs={'num_knots': 8, 'lam': 10})),
                  ('optimize_extended_range', 'asls', dict(min_value=2, max_value=4)),
                  ('optimize_extended_range', 'modpoly', dict(min_value=1, max_value=3)),
                  ('optimize_extended_range', 'dietrich', dict(min_value=1, max_value=3, method_kwargs={'smooth_half_window': 2})),
                  ('optimize_extended_range', 'cwt_br', dict(min_value=1, max_value=2, method_kwargs={'scales': [2, 3, 4]})),
                  ('optimize_extended_range', 'pspline_asls', dict(min_value=0, max_value=2, method_kwargs={'num_knots': 8}))]
        for k, (optname, method, args) in enumerate(others):
            xx, yy = (xu, yu) if k % 2 else (x, y)
            copyargs = lambda: {k_: (dict(v) if isinstance(v, dict) else v) for k_, v in args.items()}   # noqa
            try:
                rb, rp = getattr(Baseline(xx), optname)(yy, method=method, **copyargs())
            except Exception:  # noqa
                continue
            name = case_variant(method, k + ctx.seed)
            call = {'kind': 'oracle5-other', 'optimizer': optname, 'method': name, 'unsorted': bool(k % 2), 'seed': ctx.seed}
            key = f'{optname}:{method}:name-case'
            try:
                b, p = getattr(Baseline(xx), optname)(yy, method=name, **copyargs())
            except Exception as exc:  # noqa
                ctx.fail(key + ':raises', f'{optname}(method={name!r}) raised {type(exc).__name__}: {exc} while method={method!r} runs', call)
                continue
            count += 1
            ctx.case(('oracle5-other', optname, name), nontrivial=True, kind='oracle5:other-name-case')
            if not (same(b, rb) and params_equal(p, rp)):
                ctx.fail(key + ':differs-from-lower-case', f'{optname}(method={name!r}) differs from the call with method={method!r} '
                         f'(max abs diff {np.abs(b - rb).max():.3g})', call)
        x2, z2, y2 = M.make_z2d(rng, 10, 11)
        for k, method in enumerate(['modpoly', 'imodpoly']):
            name = case_variant(method, k + ctx.seed)
            rb, rp = Baseline2D(x2, z2).adaptive_minmax(y2, poly_order=1, method=method)
            call = {'kind': 'oracle5-other', 'optimizer': 'adaptive_minmax-2d', 'method': name, 'seed': ctx.seed}
            try:
                b, p = Baseline2D(x2, z2).adaptive_minmax(y2, poly_order=1, method=name)
            except Exception as exc:  # noqa
                ctx.fail(f'adaptive_minmax2d:{method}:name-case:raises', f'Baseline2D.adaptive_minmax(method={name!r}) raised {exc}', call)
                continue
            count += 1
            ctx.case(('oracle5-other2d', name), nontrivial=True, kind='oracle5:other-name-case')
            if not (same(b, rb) and params_equal(p, rp)):
                ctx.fail(f'adaptive_minmax2d:{method}:name-case:differs-from-lower-case',
                         f'Baseline2D.adaptive_minmax(method={name!r}) differs from method={method!r}', call)
    return count


# ------------------------------------------------------------------ oracle 6: enumerated option grids, independent recomposition
def table2_orders(ratio):
    """Table 2 of Cao et al. as documented for adaptive_minmax(poly_order=None)."""
    for bound, orders in ((0.2, (1, 2)), (0.75, (2, 3)), (8.5, (3, 4)), (55, (4, 5)), (240, (5, 6)), (517, (6, 7))):
        if ratio < bound:
            return orders
    return (6, 8)


def oracle_option_grid(ctx, budget):
    from pybaselines import Baseline, Baseline2D
    rng = np.random.default_rng(ctx.seed + 211)
    count = 0
    f = [0.1, 0.25, 0.2, 0.34]
    fr1 = [0.0, 0.1, 1.0, (0.1, 0.0), (0.0, 0.1), (0.0, 0.0), (0.3, 0.05), (1.0, 0.0), (0.0, 1.0)]
    fr2 = [0.0, 0.1, (0.1, 0.0), (0.0, 0.1), (0.2, 0.3)] + [tuple(f[i] if pat[i] else 0.0 for i in range(4)) for pat in ZERO_PATTERNS]
    cw1 = [1e5, 50.0, (50.0, 70.0), (1.0, 1e3)]
    cw2 = [1e5, 50.0, (50.0, 70.0), (50.0, 60.0, 70.0, 80.0), (1e3, 1.0, 1.0, 1e3)]
    pos = [None, 2, (1, 3), None, 0, (3, 1)]
    ests = [2, 1, 3]
    meths = [('modpoly', {}), ('imodpoly', {}), ('modpoly', {'mask_initial_peaks': True}), ('imodpoly', {'num_std': 2.0})]
    shapes = [(7, 12), (12, 7), (9, 9), (5, 14)]
    with warnings.catch_warnings():
        warnings.simplefilter('ignore')
        for two_d in (False, True):
            fracs = fr2 if two_d else fr1
            passes = 2 if budget == 1 else 4
            for rep in range(passes):
                for ci, cf in enumerate(fracs):
                    i = ci + 5 * rep          # the other options cycle with different periods: every value meets every fraction cell
                    cw = (cw2 if two_d else cw1)[(i + rep) % (5 if two_d else 4)]
                    po = pos[(i + 2 * rep) % 6]
                    est = ests[(i + rep) % 3]
                    meth, mkw = meths[(i + rep) % 4]
                    have_w = (i + rep) % 3 == 0
                    layout = (i + rep) % 4
                    if two_d:
                        m_, n_ = shapes[(i + rep) % 4]
                        xs, zs = np.linspace(-5, 5, m_), np.linspace(0, 20, n_)
                        px = rng.permutation(m_) if layout in (1, 3) else np.arange(m_)
                        pz = rng.permutation(n_) if layout in (2, 3) else np.arange(n_)
                        X, Z = np.meshgrid(xs[px], zs[pz], indexing='ij')
                        y = (3 + 0.4 * X - 0.05 * Z + 0.03 * X**2 + 0.01 * X * Z + 6 * np.exp(-0.5 * ((X - 1) / 0.8)**2 - 0.5 * ((Z - 9) / 1.5)**2)
                             + rng.normal(0, 0.02, X.shape))
                        mk = lambda: Baseline2D(xs[px], zs[pz])   # noqa
                        w = rng.uniform(0.5, 1.5, y.shape) if have_w else None
                        mkw = dict(mkw, max_iter=15)
                    else:
                        n_ = [40, 57, 31][(i + rep) % 3]
                        xs = np.linspace(0, 100, n_) + (np.arange(n_) % 3) * 0.1
                        perm = rng.permutation(n_) if layout % 2 else np.arange(n_)
                        x = xs[perm]
                        y = M.make_y(rng, xs)[perm]
                        mk = lambda: Baseline(x)   # noqa
                        w = rng.uniform(0.5, 1.5, n_) if have_w else None
                    call = {'kind': 'oracle6-minmax', 'two_d': two_d, 'constrained_fraction': cf, 'constrained_weight': cw, 'poly_order': po,
                            'estimation_poly_order': est, 'method': meth, 'method_kwargs': dict(mkw), 'user_weights': have_w,
                            'shape': list(np.shape(y)), 'layout': layout, 'seed': ctx.seed, 'cell': [ci, rep]}
                    key = f'minmax{"2d" if two_d else ""}:{meth}:option-grid'
                    what = (f'{"Baseline2D" if two_d else "Baseline"}.adaptive_minmax(shape={list(np.shape(y))}, method={meth!r}, poly_order={po}, '
                            f'estimation_poly_order={est}, constrained_fraction={cf}, constrained_weight={cw}, method_kwargs={mkw}, '
                            f'{"user" if have_w else "default"} weights)')
                    try:
                        b, p = mk().adaptive_minmax(y, poly_order=po, method=meth, weights=None if w is None else w.copy(),
                                                    constrained_fraction=cf, constrained_weight=cw, estimation_poly_order=est,
                                                    method_kwargs=dict(mkw))
                    except Exception as exc:  # noqa
                        ctx.fail(key + ':raises', f'{what} raised {type(exc).__name__}: {exc}', call)
                        continue
                    count += 1
                    ctx.case(('oracle6-minmax', two_d, ci, rep), nontrivial=True, kind=f'oracle6:minmax{"2d" if two_d else "1d"}')
                    direct = lambda o, ww: getattr(mk(), meth)(y, poly_order=int(o), weights=np.array(ww, copy=True), **mkw)[0]   # noqa
                    fits = [direct(o, ww) for o in p['poly_order'] for ww in (p['weights'], p['constrained_weights'])]
                    expect = np.maximum.reduce(fits)
                    nfits = sorted({len(v) for v in p['method_params'].values()})
                    if not same(expect, b):
                        ctx.fail(key + ':recomposition', f'{what} is not the point-wise maximum of the four fits defined by the reported poly '
                                 f'orders and weight arrays (max abs diff {np.abs(expect - b).max():.3g}; fits recorded in method_params: {nfits})', call)
                    elif nfits != [4]:
                        ctx.fail(key + ':method-params-count', f'{what}: method_params lists hold {nfits} entries instead of one per fit (4)', call)
                    if po is None:
                        base = getattr(mk(), meth)(y, poly_order=est, weights=np.array(p['weights'], copy=True), **mkw)[0]
                        sig = y - base
                        want = table2_orders((base.max() - base.min()) / (sig.max() - sig.min()))
                    else:
                        want = (po, po + 1) if not isinstance(po, tuple) else po
                    if tuple(int(v) for v in p['poly_order']) != tuple(want):
                        ctx.fail(key + ':orders', f'{what}: reported poly_order {list(p["poly_order"])} instead of {list(want)} (the documented '
                                 'pair / Table-2 selection from the estimation fit)', call)
                    if w is not None and not same(p['weights'], w):
                        ctx.fail(key + ':weights', f'{what}: the reported plain weights are not the caller\'s', call)
        # ---- individual_axes: the documented sequential composition of 1-D fits along the requested axes
        grid = [((0, 1), 'asls', {'lam': 1e2}), ((1, 0), 'asls', {'lam': 1e2}), ((0,), 'modpoly', {'poly_order': 2}), ((1,), 'arpls', {'lam': 1e2}),
                ((1, 0), 'modpoly', [{'poly_order': 1}, {'poly_order': 3}]), (0, 'mor', {'half_window': 2}), ((0, 1), 'pspline_asls', {'num_knots': 5, 'lam': 10})]
        for k, (axes, method, mkw) in enumerate(grid):
            m_, n_ = [(8, 13), (13, 8), (10, 10)][k % 3]
            xs, zs, ysort = M.make_z2d(rng, m_, n_)
            layout = (k + ctx.seed) % 4
            px = rng.permutation(m_) if layout in (1, 3) else np.arange(m_)
            pz = rng.permutation(n_) if layout in (2, 3) else np.arange(n_)
            x, z, y = xs[px], zs[pz], ysort[px][:, pz]
            call = {'kind': 'oracle6-axes', 'axes': axes, 'method': method, 'method_kwargs': mkw, 'shape': [m_, n_], 'layout': layout, 'seed': ctx.seed}
            try:
                b, p = Baseline2D(x, z).individual_axes(y, axes=axes, method=method, method_kwargs=mkw)
            except Exception as exc:  # noqa
                ctx.fail(f'individual_axes:{method}:raises', f'individual_axes(axes={axes}, method={method!r}) raised {type(exc).__name__}: {exc}', call)
                continue
            count += 1
            ctx.case(('oracle6-axes', k), nontrivial=True, kind='oracle6:individual_axes')
            axl = [axes] if isinstance(axes, int) else list(axes)
            kwl = [mkw] * len(axl) if isinstance(mkw, dict) else mkw
            total = np.zeros((m_, n_))
            parts = []
            for axis, kw_ in zip(axl, kwl):
                resid = y - total
                part = np.empty((m_, n_))
                if axis == 0:
                    for j in range(n_):
                        part[:, j] = getattr(Baseline(x), method)(resid[:, j], **kw_)[0]
                else:
                    for i_ in range(m_):
                        part[i_, :] = getattr(Baseline(z), method)(resid[i_, :], **kw_)[0]
                parts.append(part)
                total = total + part
            names = ['rows', 'columns']
            ok_parts = all(same(p[f'baseline_{names[a]}'], part) for a, part in zip(axl, parts))
            if not same(b, total) or not ok_parts:
                ctx.fail(f'individual_axes:{method}:recomposition', f'Baseline2D.individual_axes(axes={axes}, method={method!r}, shape=({m_}, {n_})) '
                         f'is not the sum of the 1-D {method} fits along the requested axes, each applied to the data minus the previous partial '
                         f'baselines (max abs diff {np.abs(b - total).max():.3g})', call)
    return count


def run(ctx):
    ctx.rule = ('collab trace: every accepted wrapped method (1-D 28, 2-D 20) x average_dataset x {real method with valid keys incl. '
                'tol/max_iter/weights/alpha/tol_2/weights_as_mask, probe with a random key subset in random order}; '
                'adaptive_minmax: N 4..120 x sorted/unsorted x default/given weights x scalar/pair fractions (specials and random) x '
                'poly_order forms; custom_bc: N 1..45, integer x (strict or tied) and y, 1-4 random regions incl. overlapping / reversed / '
                'out-of-range, sampling 1..50; optimize_extended_range with a probe: N 3..60 x side x width_scale x sorted/unsorted x '
                'lam/poly sweeps; non-trivial = user dict non-empty (collab) / some fraction > 0 (minmax) / call classified (custom) / '
                'added window > 0 or the zero-window raise (extended); oracle = recomposition identities on the real methods')
    ctx.trusted += [
        'the wrapped baseline methods themselves (C06-C09), np.mean over several points, np.maximum.reduce, np.pad, the Gaussian and '
        'edge extrapolation are arguments of the model; that each iterative method is an instance of lib/Loop.v is C01\'s trace validation',
        'np.interp is modelled at the nodes only (contract: strictly increasing x_fit); utils._inverted_sort being the inverse '
        'permutation is C02\'s theorem, assumed here as a hypothesis of C17_minmax_edges and observed on every case',
        'custom_bc identity is proved for the exact-rational instance of the index arithmetic; the binary64 instance is compared '
        'bit-for-bit with the implementation (integer-valued data, so np.mean is fl(sum/count) in any summation order)',
        'harness recorders replace / wrap the wrapped method on the Baseline classes from the harness process only',
    ]
    ctx.gate()
    ok = ctx.build_props(extra=['C17/Float.vo'], timeout=1500)
    for step in (collab_trace, minmax_cases, minmax2d_cases, custom_cases, extended_cases, lamgrid_cases):
        try:
            step(ctx)
        except Exception:  # noqa
            import traceback
            ctx.broke(f'harness:{step.__name__}', traceback.format_exc()[-1500:])
    budget = 1 if (ok and not ctx.broken and ctx.tier == 'quick') else 3
    n = oracle(ctx, budget)
    n += oracle_variants(ctx, budget)
    n += oracle_growth(ctx, budget)
    n += oracle_interfaces(ctx, budget)
    n += oracle_name_case(ctx, budget)
    n += oracle_option_grid(ctx, budget)
    ctx.note(f'direct oracle: {n} recomposition comparisons on real methods, bit-exact (budget x{budget})')
    ctx.note('oracle 2: recomposition identities with non-default wrapped-method parameters per family (mask_initial_peaks, '
             'use_original, cost functions, threshold, diff_order, spline_degree, ...), sorted / unsorted x, with / without user weights; '
             'at the wrapped-call boundary every sub-call\'s array arguments are snapshotted on entry, must be unchanged on return, '
             'bit-identical across the four fits / step-2 calls / sweep and to the reported arrays; recomputation uses pristine copies')
    ctx.note('oracle 6: FIXED enumerated option grid of adaptive_minmax, 1-D and 2-D: constrained_fraction scalar / pair / quadruple with a zero '
             'in every position and every listed subset pattern, constrained_weight scalar / per-edge, poly_order None / int / pair, '
             'estimation_poly_order 1-3, modpoly / imodpoly with options, M != N, the four sort layouts, default / user weights; each cell is '
             'recomposed independently (four direct fits from the reported orders and arrays, point-wise maximum, one method_params entry per '
             'fit, documented order pair / Table-2 selection); the 2-D correspondence now also validates the sequence of the four fits; '
             'individual_axes == sequential sum of 1-D fits along the requested axes (axes orders, per-axis kwargs, M != N)')
    ctx.note('name case: collab_pls call-trace validation also with the method name in upper / capitalised / alternating case (the model '
             'lower-cases the name as given); oracle 5: every accepted collab_pls method (1-D, 2-D) and the other optimizers\' method '
             'argument in another spelling must give bit-identical output and params to the lower-case call, average_alpha present '
             'exactly for the aspls family')
    ctx.note('oracle 4: every recomposition identity also through the functional interface (pybaselines.optimizers.<name>(..., x_data=x)) and '
             'through optimizers._Optimizers(x) / two_d.optimizers._Optimizers(x, z) objects (which build a helper fitter in _get_function) on '
             'x / z permuted by NON-involutive permutations (rotation, two appended scans, random), compared with Baseline / Baseline2D '
             'objects and direct fits; at every wrapped call the fitter\'s x (z) must be the sorted values and its sort order must map '
             'the caller\'s order onto them')
    ctx.note('growth: 2-D adaptive_minmax reported arrays for the four sort-order layouts x fraction / weight forms (scalar, pair, four) '
             'with ceil in binary64; lam exponent grid captured inside np.logspace and compared bit-for-bit (count, values, exact end '
             'point, step flip, raise on a negative count), lam == 10.0 ** exponent checked on the Python side; selected grid index; '
             'brpls / pspline_brpls (1-D, 2-D) perform exactly one solve per step-2 fit; custom_bc(lam) system captured with C06\'s '
             'recorder == I + lam D\'D exactly (lam a power of two, all banded_solver settings, with / without pentapy)')
    ctx.note('not covered: custom_bc with user weights in method_kwargs on UNSORTED x (only sorted x is exercised), regions with an '
             'empty section (NaN mean), per-pass trace validation of the nested brpls loops for general tolerances (solve count and '
             'recomposition only), the Gaussian / extrapolated edge values of optimize_extended_range, libm pow of the lam grid')


def replay(rep):
    from .common import Ctx
    case = rep.get('case') or {}
    print('replay case:', case)
    ctx = Ctx(PROP, 'quick', case.get('seed', 0))
    kind = case.get('kind', '')
    if kind.startswith('oracle6'):
        oracle_option_grid(ctx, 3)
    elif kind.startswith('oracle5'):
        oracle_name_case(ctx, 3)
    elif kind.startswith('oracle4'):
        oracle_interfaces(ctx, 3)
    elif kind.startswith('oracle3'):
        oracle_growth(ctx, 3)
    elif kind == 'minmax2d':
        minmax2d_cases(ctx)
    elif kind == 'lamgrid':
        lamgrid_cases(ctx)
    elif kind.startswith('oracle2'):
        oracle_variants(ctx, 3)
    elif kind.startswith('oracle'):
        oracle(ctx, 3)
    elif kind == 'collab-trace':
        collab_trace(ctx)
    elif kind == 'minmax':
        minmax_cases(ctx)
    elif kind == 'custom':
        custom_cases(ctx)
    elif kind == 'extended':
        extended_cases(ctx)
    else:
        return 1
    for key, what, c in ctx.violations:
        print('REPRODUCED', key, what)
    for k, (desc, c) in ctx.known_hit.items():
        print('REPRODUCED (known)', k)
    for nme, d in ctx.broken:
        print('BROKEN', nme, d[:300])
    return 1 if (ctx.violations or ctx.broken or ctx.known_hit) else 0
