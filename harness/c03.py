"""C03 -- a reused fitter object gives the same answers as a fresh one.  DESIGN.md section 4 / C03.

Correspondence: random call histories on ONE Baseline / Baseline2D object; after every call the
implementation's cache abstraction is read and compared (exactly, inside Coq) with the state of the
executable model coq/C03/Model.v run on the same history.  The model is driven by the call table GENERATED
from the current method bodies (tools/gen_c03.py -> coq/gen/GenC03.v): a call is handed to Coq as (registered
method name, concrete argument values) and instantiated there (coq/C03/Instantiate.v).
Direct oracle: every call of every history is also made on a fresh object with the current x-values
and the two results are compared bit for bit."""
import json
import warnings

import numpy as np

from .common import zl

PROP = 'C03'

HEADER = """From Coq Require Import ZArith List Bool.
From Coq Require Import String.
From PB Require Import lib.CaseUtil C03.Model C03.Model2D C03.Table C03.Instantiate gen.GenC03.
Import ListNotations.
Open Scope Z_scope.
Open Scope string_scope.
"""

NUMERIC_EXC = ('LinAlgError', 'FloatingPointError', 'ZeroDivisionError')

# ------------------------------------------------------------------------------------------ 1-D catalogue
POLY_PINV = ['poly', 'modpoly', 'imodpoly', 'penalized_poly', 'goldindec']
POLY_VAND = ['loess', 'quant_reg']
SPLINES = ['pspline_asls', 'pspline_arpls', 'pspline_airpls', 'mixture_model', 'irsqr', 'pspline_iarpls',
           'pspline_psalsa', 'pspline_lsrpls']
WHITS = ['asls', 'arpls', 'airpls', 'iarpls', 'psalsa', 'aspls']
PLAIN = {'mor': {'half_window': 3}, 'snip': {'max_half_window': 4}, 'rolling_ball': {'half_window': 3},
         'noise_median': {'half_window': 3}}
UNIQUE_PLAIN = {'golotvin': {'half_window': 4, 'sections': 4}, 'std_distribution': {'half_window': 4},
                'fastchrom': {'half_window': 4}, 'rubberband': {}}
UNIQUE = {'loess', 'dietrich', 'corner_cutting'} | set(UNIQUE_PLAIN)
SPEED = {'modpoly': {'max_iter': 15}, 'imodpoly': {'max_iter': 15}, 'penalized_poly': {'max_iter': 15},
         'goldindec': {'max_iter': 8, 'max_iter_2': 5}, 'loess': {'fraction': 0.4, 'max_iter': 3},
         'quant_reg': {'max_iter': 15}, 'pspline_asls': {'max_iter': 8}, 'pspline_arpls': {'max_iter': 8},
         'pspline_airpls': {'max_iter': 8}, 'mixture_model': {'max_iter': 8}, 'irsqr': {'max_iter': 8},
         'pspline_iarpls': {'max_iter': 8}, 'pspline_psalsa': {'max_iter': 8}, 'pspline_lsrpls': {'max_iter': 8},
         'asls': {'max_iter': 8, 'lam': 1e3}, 'arpls': {'max_iter': 8, 'lam': 1e3}, 'airpls': {'max_iter': 8, 'lam': 1e3},
         'iarpls': {'max_iter': 8, 'lam': 1e3}, 'psalsa': {'max_iter': 8, 'lam': 1e3}, 'aspls': {'max_iter': 8, 'lam': 1e3},
         'iasls': {'max_iter': 8, 'lam': 1e3}, 'pspline_iasls': {'max_iter': 8},
         'dietrich': {'smooth_half_window': 2}, 'swima': {'min_half_window': 2, 'max_half_window': 5},
         'cwt_br': {'scales': [2, 3, 4]}}
# (num_knots, spline_degree) pool with many pairs sharing num_knots + spline_degree
KD_POOL = [(5, 3), (6, 2), (7, 1), (4, 4), (8, 0), (8, 3), (9, 2), (10, 1), (7, 4), (6, 3), (5, 2), (3, 3), (2, 1)]


def gen_call_1d(rng, last=None):
    """A call description (JSON-able): method, kwargs, data kind, weights kind."""
    last = last if last is not None else {}
    r = rng.random()
    data = 'ok'
    w = None
    alpha = None
    kw = {}
    if r < 0.06:
        return {'m': 'set_solver', 'v': rng.choice([1, 2, 3, 4, 1, 3, 4, 0, 5, -1, 7])}
    if r < 0.13:
        m = rng.choice(['adaptive_minmax', 'adaptive_minmax', 'collab_pls', 'collab_pls', 'optimize_extended_range', 'custom_bc'])
        if m == 'adaptive_minmax':
            p = rng.choice([0, 1, 2, 3, 4])
            kw = {'method': rng.choice(['modpoly', 'imodpoly', 'poly', 'penalized_poly']),
                  'poly_order': p if rng.random() < 0.6 else [p, rng.choice([1, 2, 5])]}
            w = rng.choice([None, 'ok'])
        elif m == 'collab_pls':
            im = rng.choice(['asls', 'arpls', 'pspline_asls', 'pspline_arpls'])
            mk = {'max_iter': 6, 'lam': 1e3}
            if im.startswith('pspline'):
                k, d = rng.choice(KD_POOL)
                mk.update(num_knots=k, spline_degree=d, lam=10)
            kw = {'method': im, 'method_kwargs': mk}
        elif m == 'optimize_extended_range':
            kw = {'method': rng.choice(['asls', 'modpoly', 'imodpoly', 'pspline_asls']), 'min_value': 2, 'max_value': 3,
                  'side': rng.choice(['both', 'left', 'right']), 'width_scale': rng.choice([0.1, 0.2, 0.25, 0.3]),
                  'height_scale': rng.choice([0.5, 1.0]), 'sigma_scale': rng.choice([0.08, 0.1])}
            if kw['method'] == 'asls':
                kw['method_kwargs'] = {'max_iter': 5}
            elif kw['method'] == 'pspline_asls':
                kw['method_kwargs'] = {'max_iter': 5, 'num_knots': 6, 'spline_degree': 3}
        else:
            kw = {'method': 'asls', 'method_kwargs': {'lam': 1e3, 'max_iter': 5},
                  'regions': rng.choice([[[0, 8]], [[2, 10]], [[0, 6], [12, 16]]]), 'sampling': 2, 'lam': rng.choice([None, 1e2])}
        call = {'m': m, 'kw': kw, 'data': 'ok', 'w': w}
        if rng.random() < 0.3:
            make_failing(call, rng.choice(FAIL_MODES[m]))
        return add_pp(rng, call, ('regions',), 0.5)
    if r < 0.40:
        m = rng.choice(POLY_PINV + POLY_PINV + POLY_VAND)
        p = rng.choice([0, 1, 2, 2, 3, 3, 4, 5, 6, 7])
        if m == 'loess':
            p = rng.choice([0, 1, 1, 2, 3])
        if rng.random() < 0.05:
            p = -1
        kw = {'poly_order': p}
        w = rng.choice([None, None, 'ok', 'pool', 'pool', 'bad']) if rng.random() < 0.6 else None
        if 'pool_call' in last and rng.random() < 0.45:
            # the same weights OBJECT (refilled in place) again, same method family and order as its last use
            m, p = last['pool_call']
            kw = {'poly_order': p}
            w = 'pool'
        if w == 'pool':
            last['pool_call'] = (m, p)
    elif r < 0.48:
        m = rng.choice(['dietrich', 'swima', 'cwt_br'])
        if m == 'dietrich':
            kw = {'poly_order': rng.choice([0, 1, 2, 3, 5]), 'max_iter': rng.choice([0, 1, 3])}
        elif m == 'cwt_br':
            kw = {'poly_order': rng.choice([1, 2, 4, 6])}
    elif r < 0.56:
        m = rng.choice(['iasls', 'pspline_iasls'])
        kw = {'diff_order': rng.choice([2, 2, 3, 1])}
        if m == 'pspline_iasls':
            k, d = rng.choice(KD_POOL)
            kw.update(num_knots=k, spline_degree=d)
        if rng.random() < 0.25:
            w = 'ok'
        t = rng.random()
        if t < 0.12:
            kw['p'] = 2.0
        elif t < 0.3:
            kw['lam_1'] = -1.0
    elif r < 0.80:
        m = rng.choice(SPLINES + ['corner_cutting'])
        if m != 'corner_cutting':
            k, d = rng.choice(KD_POOL)
            if 'kd' in last and rng.random() < 0.5:
                # near-collision with the previous key: same knots+degree, or one component changed
                k, d = last['kd']
                t = rng.random()
                if t < 0.4 and d >= 1:
                    k, d = k + 1, d - 1
                elif t < 0.6:
                    k, d = max(2, k - 1), d + 1
                elif t < 0.8:
                    k = max(2, k + rng.choice([-1, 1]))
                else:
                    d = max(0, d + rng.choice([-1, 1]))
            last['kd'] = (k, d)
            t = rng.random()
            if t < 0.05:
                k = 1
            elif t < 0.10:
                d = -1
            do = rng.choice([1, 2, 2, 3])
            t = rng.random()
            if t < 0.06:
                do = 0
            elif t < 0.12:
                do = k + d - 1
            kw = {'num_knots': k, 'spline_degree': d, 'diff_order': do}
            w = rng.choice([None, None, None, 'ok', 'pool', 'bad'])
    elif r < 0.88:
        m = rng.choice(WHITS)
        kw = {'diff_order': rng.choice([1, 2, 2, 3, 0])}
        w = rng.choice([None, None, 'ok', 'pool', 'bad'])
        if m == 'aspls' and rng.random() < 0.6:
            alpha = 'pool'
    elif r < 0.94:
        m = rng.choice(sorted(UNIQUE_PLAIN))
        if m == 'golotvin':
            kw = {'sections': rng.choice([3, 4, 5])}
    else:
        m = rng.choice(sorted(PLAIN))
    t = rng.random()
    if t < 0.05:
        data = 'short'
        w = 'ok' if w == 'pool' else w
    elif t > 0.75:
        data = 'pool'
    elif t < 0.08:
        data = 'nan'
    elif t < 0.12 and m in ('poly', 'imodpoly', 'quant_reg', 'pspline_asls', 'asls'):
        data = 'none'
    call = {'m': m, 'kw': kw, 'data': data, 'w': w}
    if alpha and data in ('ok', 'pool'):
        call['alpha'] = alpha
    return add_pp(rng, call, ARRAYABLE_1D)


def coq_opt(v):
    return 'None' if v is None else f'(Some {zl(v)})'


def coq_b(b):
    return 'true' if b else 'false'


OPTIMIZERS = {'adaptive_minmax', 'collab_pls', 'optimize_extended_range', 'custom_bc'}


def pre_raise_1d(call):
    """Parameter validation at the top of a method body, before its first _setup_* call (the only part of the
    call table that is still written by hand: the deliberately invalid scalar parameters this generator uses)."""
    m, kw = call['m'], call['kw']
    if m in ('iasls', 'pspline_iasls'):
        return kw.get('p', 0.01) >= 1 or kw.get('diff_order', 2) < 2
    return False


def _intval(v):
    return int(v) if isinstance(v, (int, np.integer)) and not isinstance(v, bool) else 0


def args_1d(m, kw, nd, dataok, w, pre, post, N=0):
    """Coq `args` literal: the concrete values of the parameters the generated call table refers to.  Values
    not passed explicitly are the defaults of the method's signature."""
    import inspect
    from pybaselines import Baseline
    sig = inspect.signature(getattr(Baseline, m)).parameters

    def val(name):
        if name in kw:
            return kw[name]
        return sig[name].default if name in sig else 0
    wl = None if w is None else ((nd if nd is not None else N) + (0 if w in ('ok', 'pool') else 1))
    mi = val('max_iter')
    return ('{| a_data := %s; a_dataok := %s; a_w := %s; a_poly := %s; a_knots := %s; a_degree := %s; a_dorder := %s; '
            'a_maxiter_pos := %s; a_lam_given := %s; a_pre_raise := %s; a_post_raise := %s |}'
            % (coq_opt(nd), coq_b(dataok), coq_opt(wl), zl(_intval(val('poly_order'))), zl(_intval(val('num_knots'))),
               zl(_intval(val('spline_degree'))), zl(_intval(val('diff_order'))),
               coq_b(isinstance(mi, (int, float)) and mi > 0), coq_b(val('lam') is not None),
               coq_b(pre), coq_b(post)))


# rejected optimizer calls: the wrapped method raises INSIDE the optimizer (on its own parameters after its setup,
# or on an unknown keyword before it), or the optimizer fails right after the inner fit (no 'weights' in its output)
FAIL_MODES = {'collab_pls': ['inner_body', 'bad_kw', 'no_weights'], 'adaptive_minmax': ['inner_body', 'bad_kw', 'up_front'],
              'optimize_extended_range': ['inner_body', 'bad_kw'], 'custom_bc': ['inner_body', 'bad_kw']}


def make_failing(call, mode):
    m, kw = call['m'], call['kw']
    mk = dict(kw.get('method_kwargs') or {})
    if mode == 'bad_kw':
        mk['no_such_parameter'] = 1
    elif mode == 'no_weights':
        kw['method'] = 'golotvin'
        mk = {'half_window': 4, 'sections': 4}
    elif mode == 'up_front':
        kw['constrained_fraction'] = 2.0
    elif m in ('collab_pls', 'custom_bc'):
        mk['lam'] = -1.0
    else:
        if kw['method'] in ('poly', 'asls', 'pspline_asls'):
            kw['method'] = 'modpoly'
            mk = {}
        mk['max_iter'] = 'many'
    kw['method_kwargs'] = mk
    call['fail'] = mode
    return call


def inner_calls(call):
    """The registered methods an optimizer delegates to on the SAME object, in order: (method, kwargs, weights)."""
    m, kw = call['m'], call['kw']
    if m == 'adaptive_minmax':
        po = kw['poly_order']
        orders = list(po) if isinstance(po, (list, tuple)) else [po, po + 1]
        return [(kw['method'], {'poly_order': o}, 'ok') for o in orders for _ in range(2)]
    if m == 'collab_pls':
        mk = dict(kw.get('method_kwargs') or {})
        if call.get('fail') == 'no_weights':
            return [(kw['method'], mk, None)]
        return [(kw['method'], mk, None), (kw['method'], mk, 'ok'), (kw['method'], mk, 'ok')]
    return []   # optimize_extended_range / custom_bc fit on a NEW object (_override_x)


def group_1d(call, N, raised):
    """One user-level call as a list of Coq `item`s (an optimizer: its own prologue, then its delegated calls)."""
    if call['m'] == 'set_solver':
        return [f'ISolver {zl(call["v"])}']
    nd = {'ok': N, 'pool': N, 'nan': N, 'short': N - 1, 'none': None}[call['data']]
    kw = dict(SPEED.get(call['m'], {}))
    kw.update(call['kw'])
    inner = inner_calls(call) if call['m'] in OPTIMIZERS else []
    fail = call.get('fail')
    if fail == 'up_front':
        inner = []
    items = [f'IMethod "{call["m"]}" {args_1d(call["m"], kw, nd, call["data"] != "nan", call["w"], pre_raise_1d(call), raised and not inner, N)}']
    for k, (im, ikw, iw) in enumerate(inner):
        # a delegated call that is known to fail stops the group there: before its setup (unknown keyword) or after it
        pre = fail == 'bad_kw' and k == 0
        post = (fail == 'inner_body' and k == 0) or (raised and k == len(inner) - 1)
        items.append(f'IMethod "{im}" {args_1d(im, ikw, nd, True, iw, pre, post, N)}')
    return items


# ------------------------------------------------------------------------------------------ data
def make_y(N, seed):
    rng = np.random.default_rng(seed)
    t = np.linspace(0, 1, N)
    y = 5 + 10 * t + 3 * np.sin(3 * t)
    for a, c, wd in [(30, 0.25, 0.04), (50, 0.6, 0.05), (20, 0.8, 0.03)]:
        y = y + a * np.exp(-0.5 * ((t - c) / wd) ** 2)
    return y + rng.normal(0, 0.5, N)


def make_x(kind, N, seed):
    rng = np.random.default_rng(seed + 7)
    if kind == 'none':
        return None
    if kind == 'uniform':
        return np.linspace(10.0, 200.0, N)
    x = np.sort(rng.uniform(0, 100, N)) + np.arange(N) * 1e-3
    if kind == 'dup':
        x[N // 2] = x[N // 2 - 1]
    elif kind == 'unsorted':
        x = x[rng.permutation(N)]
    return x


def refill(buf, base, idx):
    """New values IN PLACE into a reusable argument object (the object identity is kept across calls)."""
    buf[...] = base * (1.0 + 0.03 * ((idx * 7) % 5 - 2)) + ((np.arange(buf.size).reshape(buf.shape) * 3 + idx) % 4) * 0.05
    return buf


# scalar / pair parameters that may be given as ndarrays: the SAME ndarray object is passed to consecutive calls with
# its contents changed in between (call['pp'] lists the parameters of that call passed this way)
# (a 0-d spline_degree is rejected by the numba basis kernel's typing, for reused and fresh objects alike)
# (a 0-d diff_order is unhashable in the 1-D penalty lookup: TypeError for reused and fresh objects alike)
ARRAYABLE_1D = ('poly_order', 'num_knots', 'lam', 'sections', 'regions')
ARRAYABLE_2D = ('poly_order', 'num_knots', 'spline_degree', 'diff_order', 'lam', 'max_cross', 'half_window')
FLOAT_PARAMS = ('lam',)


def param_array(name, value, dim):
    """The ndarray a parameter value is passed as: 1-D fitters get 0-d arrays, 2-D fitters a pair (max_cross 0-d)."""
    dtype = float if name in FLOAT_PARAMS else np.int64
    if dim == 2 and name != 'max_cross':
        v = list(value) if isinstance(value, (list, tuple)) else [value, value]
        return np.array(v, dtype=dtype)
    if isinstance(value, (list, tuple)):
        return np.array(value, dtype=dtype)
    return np.array(value, dtype=dtype)


def pool_params(call, kw, pool, fresh, dim, unpool=()):
    for name in call.get('pp', ()):
        if name not in kw or kw[name] is None:
            continue
        arr = param_array(name, kw[name], dim)
        if fresh or pool is None or name in unpool or '*' in unpool:
            kw[name] = arr            # a new object holding the current values
        else:
            buf = pool.setdefault(('p', name, arr.shape, arr.dtype.str), np.empty_like(arr))
            buf[...] = arr            # refill the reusable object in place and pass the same object again
            kw[name] = buf


def add_pp(rng, call, names, prob=0.3):
    pp = [n for n in names if n in call.get('kw', {}) and call['kw'][n] is not None and rng.random() < prob]
    if pp:
        call['pp'] = pp
    return call


def call_args_1d(call, N, y, pool=None, idx=0, fresh=False, unpool=()):
    """pool: per-history reusable argument OBJECTS {'w': float64 (N,) array, 'y': float64 (N,) array}; a call with
    weights / data kind 'pool' refills the object in place and passes the SAME object again (the fresh object
    gets copies of the current values)."""
    data = {'ok': y, 'pool': y, 'none': None, 'short': y[:-1], 'nan': None}[call['data']]
    if call['data'] == 'pool' and pool is not None:
        if not fresh:
            refill(pool['y'], y, idx)
        data = pool['y'].copy() if fresh else pool['y']
    if call['data'] == 'nan':
        data = y.copy()
        data[N // 3] = np.nan
    kw = dict(SPEED.get(call['m'], {}))
    kw.update(PLAIN.get(call['m'], {}))
    kw.update(UNIQUE_PLAIN.get(call['m'], {}))
    kw.update({k: (dict(v) if isinstance(v, dict) else v) for k, v in call['kw'].items()})
    if call['m'] == 'collab_pls':
        data = np.vstack([y, 1.1 * y + 1])
    nd = N - 1 if call['data'] == 'short' else N
    if call['w'] == 'ok':
        kw['weights'] = np.linspace(0.5, 1.5, nd)
    elif call['w'] == 'pool' and pool is not None and nd == N:
        if not fresh:
            refill(pool['w'], np.linspace(0.5, 1.5, N), idx)
        kw['weights'] = pool['w'].copy() if fresh else pool['w']
    elif call['w'] == 'pool':
        kw['weights'] = np.linspace(0.5, 1.5, nd)
    elif call['w'] == 'bad':
        kw['weights'] = np.linspace(0.5, 1.5, nd + 1)
    if call.get('alpha') and pool is not None:
        # a per-point parameter array (aspls): the same object refilled in place and passed again
        if not fresh:
            refill(pool.setdefault('alpha', np.ones(N)), np.linspace(0.6, 1.0, N), idx)
        kw['alpha'] = pool['alpha'].copy() if fresh else pool['alpha']
    pool_params(call, kw, pool, fresh, 1, unpool)
    return data, kw


def do_call(f, call, args):
    """Returns ('ok', baseline, params) or ('raise', type name, message)."""
    with warnings.catch_warnings():
        warnings.simplefilter('ignore')
        try:
            if call['m'] == 'set_solver':
                f.banded_solver = call['v']
                return ('ok', None, {})
            data, kw = args
            b, p = getattr(f, call['m'])(data, **kw)
            return ('ok', b, p)
        except Exception as exc:  # noqa
            return ('raise', type(exc).__name__, str(exc)[:200])


def same_val(a, b):
    if isinstance(a, dict) and isinstance(b, dict):
        return a.keys() == b.keys() and all(same_val(a[k], b[k]) for k in a)
    if isinstance(a, (list, tuple)) and isinstance(b, (list, tuple)):
        return len(a) == len(b) and all(same_val(u, v) for u, v in zip(a, b))
    if a is None or b is None:
        return a is None and b is None
    try:
        a = np.asarray(a)
        b = np.asarray(b)
        if a.dtype == object or b.dtype == object:
            return a.shape == b.shape and all(same_val(u, v) for u, v in zip(a.ravel(), b.ravel()))
        return a.shape == b.shape and a.dtype == b.dtype and np.array_equal(a, b, equal_nan=True)
    except Exception:  # noqa
        return a == b


def same_result(r1, r2):
    if r1[0] != r2[0]:
        return False
    if r1[0] == 'raise':
        return r1[1] == r2[1] and r1[2] == r2[2]
    return same_val(r1[1], r2[1]) and same_val(r1[2], r2[2])


# ------------------------------------------------------------------------------------------ 1-D object
def observe_1d(f):
    o = [1 if f.x is None else 0, -1 if f._size is None else int(f._size), 1 if f._validated_x else 0]
    P = f._polynomial
    if P is None:
        o += [0, -1, -1, -1, -1, -1]
    else:
        pi = P._pseudo_inverse
        o += [1, int(P.poly_order), int(P.vandermonde.shape[1]), 1 if P.pinv_stale else 0,
              1 if pi is None else 0, -1 if pi is None else int(pi.shape[0])]
    S = f._spline_basis
    o += [0, -1, -1] if S is None else [1, int(S.num_knots), int(S.spline_degree)]
    o += [int(f._banded_solver), int(f._pentapy_solver)]
    return o


def invariant_1d(f):
    """Value-level invariant on the implementation: the cached arrays ARE what a fresh computation
    gives (bit for bit).  Returns None or a description."""
    try:
        return _invariant_1d(f)
    except Exception as exc:  # noqa
        return f'the cached objects are unusable: recomputing them for their own attributes raised {type(exc).__name__}: {exc}'


def _invariant_1d(f):
    P = f._polynomial
    if P is not None and f.x is not None:
        mx = np.polynomial.polyutils.mapdomain(f.x, f.x_domain, np.array([-1., 1.]))
        v = np.polynomial.polynomial.polyvander(mx, int(P.poly_order))
        if P.vandermonde.shape != v.shape or not np.array_equal(P.vandermonde, v):
            return f'cached Vandermonde is not polyvander(x, {P.poly_order})'
        if not P.pinv_stale and P._pseudo_inverse is not None:
            pv = np.linalg.pinv(v)
            if P._pseudo_inverse.shape != pv.shape or not np.array_equal(P._pseudo_inverse, pv):
                return f'cached pseudo-inverse (not flagged stale) is not pinv(polyvander(x, {P.poly_order}))'
    S = f._spline_basis
    if S is not None and f.x is not None:
        from pybaselines._spline_utils import SplineBasis
        T = SplineBasis(f.x, S.num_knots, S.spline_degree)
        if (S.basis.shape != T.basis.shape or (S.basis != T.basis).nnz != 0
                or not np.array_equal(S.knots, T.knots)):
            return f'cached spline basis is not SplineBasis(x, {S.num_knots}, {S.spline_degree})'
    return None


# fitter configurations: (output_dtype, check_finite, assume_sorted); enumerated, history k uses CONFIGS[k % 12]
CONFIGS = [{'dtype': d, 'cf': cf, 'as': a} for d in (None, 'float32', 'int64') for cf in (True, False) for a in (False, True)]
DEFAULT_CFG = {'dtype': None, 'cf': True, 'as': False}


def cfg_kwargs(cfg):
    cfg = cfg or DEFAULT_CFG
    return {'check_finite': cfg['cf'], 'assume_sorted': cfg['as'],
            'output_dtype': None if cfg['dtype'] is None else np.dtype(cfg['dtype']).type}


def config_invariant(f, cfg):
    """The constructor's configuration is never changed by a call (returned or raised)."""
    want = cfg_kwargs(cfg)
    if f._dtype is not want['output_dtype']:
        return f'the output dtype of the object changed from {want["output_dtype"]} to {f._dtype}'
    if f._check_finite is not want['check_finite']:
        return f'check_finite of the object changed from {want["check_finite"]} to {f._check_finite}'
    return None


def new_1d(x, cfg=None):
    from pybaselines import Baseline
    with warnings.catch_warnings():
        warnings.simplefilter('ignore')
        return Baseline(None if x is None else np.array(x, dtype=float), **cfg_kwargs(cfg))


def fresh_1d(f, x_in, cfg=None):
    """A new object for the CURRENT x-values (the input x, or the lazily created one) with the same
    constructor configuration and solver preference."""
    g = new_1d(x_in if x_in is not None else (None if f.x is None else f.x.copy()), cfg)
    g.banded_solver = f.banded_solver
    return g


def run_history_1d(h, check_fresh=True, unpool=()):
    """Runs a history; returns (per-call records, first difference or None).
    record = (observation + [raised], result tag, exception name or None)."""
    N, seed = h['N'], h['seed']
    y = make_y(N, seed)
    x_in = make_x(h['x'], N, seed)
    cfg = h.get('cfg')
    f = new_1d(x_in, cfg)
    recs = []
    diffs = []
    pool = {'w': np.ones(N), 'y': y.copy()}
    for i, call in enumerate(h['calls']):
        # the reusable objects are refilled first; the fresh object then gets copies of their current values
        args = None if call['m'] == 'set_solver' else call_args_1d(call, N, y, pool, i, unpool=unpool)
        ref = None
        if check_fresh and call['m'] != 'set_solver':
            g = fresh_1d(f, x_in, cfg)
            args_g = call_args_1d(call, N, y, pool, i, fresh=True)
            ref = do_call(g, call, args_g)
        res = do_call(f, call, args)
        recs.append((observe_1d(f) + [1 if res[0] == 'raise' else 0], res[0], res[1] if res[0] == 'raise' else None))
        if ref is not None and not any(d[2] == 'result' for d in diffs) and not same_result(res, ref):
            diffs.append((i, describe_diff(res, ref), 'result'))
        if check_fresh and not any(d[2] == 'invariant' for d in diffs):
            inv = config_invariant(f, cfg) or invariant_1d(f)
            if inv:
                diffs.append((i, 'invariant: ' + inv, 'invariant'))
    return recs, diffs


def describe_diff(res, ref):
    if res[0] != ref[0] or res[0] == 'raise':
        return f'reused object: {res[:2] if res[0] == "raise" else "returns"}; fresh object: {ref[:2] if ref[0] == "raise" else "returns"}'
    if not same_val(res[1], ref[1]):
        a, b = np.asarray(res[1], dtype=float), np.asarray(ref[1], dtype=float)
        if a.shape == b.shape:
            return f'baselines differ, max abs difference {np.nanmax(np.abs(a - b)):.3g}'
        return f'baseline shapes differ {a.shape} vs {b.shape}'
    bad = [k for k in res[2] if k not in ref[2] or not same_val(res[2][k], ref[2][k])]
    return f'params differ in {bad}'


# scalar float parameters of the methods themselves (not cache keys), passed explicitly so that `echo` can nudge them
FLOAT_KW = {'modpoly': {'tol': 1e-3}, 'imodpoly': {'tol': 1e-3, 'num_std': 1.0}, 'penalized_poly': {'tol': 1e-3, 'alpha_factor': 0.9},
            'goldindec': {'tol': 1e-3, 'peak_ratio': 0.5}, 'quant_reg': {'quantile': 0.05}, 'loess': {'fraction': 0.4},
            'asls': {'lam': 1e3, 'p': 0.02}, 'arpls': {'lam': 1e3}, 'airpls': {'lam': 1e3}, 'iarpls': {'lam': 1e3},
            'psalsa': {'lam': 1e3, 'p': 0.5}, 'iasls': {'lam': 1e3}, 'pspline_asls': {'lam': 10.0, 'p': 0.02},
            'pspline_arpls': {'lam': 10.0}, 'pspline_airpls': {'lam': 10.0}, 'mixture_model': {'lam': 10.0, 'p': 0.02},
            'irsqr': {'lam': 10.0, 'quantile': 0.05}, 'pspline_iarpls': {'lam': 10.0}, 'pspline_psalsa': {'lam': 10.0},
            'pspline_lsrpls': {'lam': 10.0}, 'pspline_iasls': {'lam': 10.0}, 'dietrich': {'num_std': 3.0},
            'adaptive_minmax': {'constrained_fraction': 0.05, 'constrained_weight': 1e5},
            'golotvin': {'num_std': 2.0}, 'std_distribution': {'num_std': 1.1}, 'fastchrom': {}, 'cwt_br': {'num_std': 1.0}}


def echo(rng, calls, float_kw, limit=3):
    """Repeats some calls of a history right after themselves (or one call later) with ONE float parameter nudged by
    0.4-4 %: near-equal parameter values collide in every integer derived from them (window sizes, added points,
    section counts), which is where a cache keyed on derived quantities serves the wrong entry."""
    out = []
    pending = []
    n = 0
    for c in calls:
        out.append(c)
        for e in pending:
            out.append(e)
        pending = []
        # optimizers derive window sizes / added points / sampling grids from their own float parameters
        if c['m'] == 'set_solver' or n >= limit or rng.random() > (0.8 if 'method' in c.get('kw', {}) else 0.3):
            continue
        kw = dict(float_kw.get(c['m'], {}))
        kw.update(c['kw'])
        floats = sorted(k for k, v in kw.items() if isinstance(v, float))
        if not floats:
            continue
        k = rng.choice(floats)
        c2 = json.loads(json.dumps(dict(c, kw=kw)))
        c2['kw'][k] = kw[k] * (1 + rng.choice([0.004, 0.02, -0.02, 0.04, -0.04]))
        n += 1
        if rng.random() < 0.7:
            out.append(c2)
        else:
            pending.append(c2)
    return out + pending


def _opt_call(m):
    kw = {'adaptive_minmax': {'method': 'modpoly', 'poly_order': 2},
          'collab_pls': {'method': 'pspline_asls', 'method_kwargs': {'max_iter': 6, 'lam': 10, 'num_knots': 6, 'spline_degree': 3}},
          'optimize_extended_range': {'method': 'modpoly', 'min_value': 2, 'max_value': 3, 'width_scale': 0.2},
          'custom_bc': {'method': 'asls', 'method_kwargs': {'lam': 1e3, 'max_iter': 5}, 'regions': [[0, 8]], 'sampling': 2,
                        'lam': None}}[m]
    return {'m': m, 'kw': json.loads(json.dumps(kw)), 'data': 'ok', 'w': None}


# lam pairs for "same call, only lam changed": moderate, and legal values whose ratio over/underflows
LAM_STEPS = [(1e2, 1e3), (1e3, 1e2), (1e-200, 1e150), (1e150, 1e-200), (1e300, 1.0), (1e-300, 1e-300 * 4)]


def lam_family(dim, hosts, shape_kw):
    """Fixed grid: for every cache-using host, the same method with the same structural parameters called again with
    ONLY lam changed -- by value (incl. extreme ratios) and in place through one caller-owned ndarray -- then once more
    with the first lam; every call is compared with a fresh object."""
    out = []
    k = 0
    for m, kw0 in hosts:
        for a, b in LAM_STEPS:
            for inplace in (False, True):
                if inplace and (a, b) not in LAM_STEPS[:3]:
                    continue
                calls = []
                for lam in (a, b, a):
                    kw = json.loads(json.dumps(kw0))
                    kw['lam'] = [lam, lam * (3 if k % 2 else 1)] if dim == 2 and k % 3 == 0 else lam
                    c = {'m': m, 'kw': kw, 'data': 'ok', 'w': None}
                    if inplace:
                        c['pp'] = ['lam']
                    calls.append(c)
                h = dict(shape_kw[k % len(shape_kw)], dim=dim, seed=31 + k, cfg=DEFAULT_CFG, calls=calls)
                out.append(h)
                k += 1
    return out


def weights_family(dim, hosts, shape_kw):
    """Fixed grid: the same polynomial call twice with the SAME weights object refilled in place in between."""
    out = []
    for k, (m, kw0) in enumerate(hosts):
        calls = [{'m': m, 'kw': json.loads(json.dumps(kw0)), 'data': 'ok', 'w': 'pool'} for _ in range(3)]
        out.append(dict(shape_kw[k % len(shape_kw)], dim=dim, seed=51 + k, cfg=DEFAULT_CFG, calls=calls))
    return out


LAM_HOSTS_1D = [('asls', {'diff_order': 2, 'max_iter': 6}), ('arpls', {'diff_order': 2, 'max_iter': 6}),
                ('aspls', {'diff_order': 2, 'max_iter': 6}), ('iasls', {'diff_order': 2, 'max_iter': 6}),
                ('pspline_asls', {'num_knots': 6, 'spline_degree': 3, 'diff_order': 2, 'max_iter': 6}),
                ('pspline_arpls', {'num_knots': 6, 'spline_degree': 3, 'diff_order': 2, 'max_iter': 6}),
                ('mixture_model', {'num_knots': 6, 'spline_degree': 3, 'diff_order': 2, 'max_iter': 6}),
                ('pspline_iasls', {'num_knots': 6, 'spline_degree': 3, 'diff_order': 2, 'max_iter': 6})]
W_HOSTS_1D = [('poly', {'poly_order': 3}), ('penalized_poly', {'poly_order': 3, 'max_iter': 10}),
              ('goldindec', {'poly_order': 2, 'max_iter': 6, 'max_iter_2': 4}), ('quant_reg', {'poly_order': 2, 'max_iter': 10}),
              ('modpoly', {'poly_order': 3, 'max_iter': 10}), ('loess', {'poly_order': 1, 'fraction': 0.4, 'max_iter': 3})]
SHAPES_1D = [{'N': 40, 'x': 'uniform'}, {'N': 37, 'x': 'none'}, {'N': 45, 'x': 'unsorted'}]


def enumerated_1d():
    return _rejected_1d() + lam_family(1, LAM_HOSTS_1D, SHAPES_1D) + weights_family(1, W_HOSTS_1D, SHAPES_1D)


def _rejected_1d():
    """Fixed grid, run before the random histories: every optimizer x every way of being rejected, on objects with a
    non-default output dtype, followed by ordinary probes (and the same optimizer called properly)."""
    out = []
    probes = [{'m': 'poly', 'kw': {'poly_order': 2}, 'data': 'ok', 'w': None},
              {'m': 'asls', 'kw': {'diff_order': 2}, 'data': 'ok', 'w': None},
              {'m': 'pspline_asls', 'kw': {'num_knots': 6, 'spline_degree': 3, 'diff_order': 2}, 'data': 'ok', 'w': None}]
    k = 0
    for m in sorted(FAIL_MODES):
        for mode in FAIL_MODES[m]:
            for dt in ('float32', 'int64'):
                calls = [make_failing(_opt_call(m), mode)] + json.loads(json.dumps(probes)) + [_opt_call(m)]
                out.append({'dim': 1, 'N': 40, 'x': ['uniform', 'none', 'unsorted'][k % 3], 'seed': 11 + k,
                            'cfg': {'dtype': dt, 'cf': True, 'as': False}, 'calls': calls})
                k += 1
    return out


def gen_history_1d(rng, nmax=12, k=0):
    N = rng.choice([24, 30, 37, 45, 60])
    xk = rng.choice(['none', 'none', 'uniform', 'random', 'random', 'dup', 'unsorted'])
    last = {}
    calls = [gen_call_1d(rng, last) for _ in range(rng.randint(1, nmax))]
    calls = echo(rng, calls, FLOAT_KW)
    cfg = CONFIGS[k % len(CONFIGS)]
    if not cfg['cf']:
        # without the finiteness check NaN data is not rejected up front: keep the histories inside the modelled inputs
        calls = [dict(c, data='ok') if c.get('data') == 'nan' else c for c in calls]
    return {'dim': 1, 'N': N, 'x': xk, 'seed': rng.randrange(10 ** 6), 'cfg': cfg, 'calls': calls}


def nontrivial_1d(h):
    """the history exercises a cache: at least two calls touching the same cache with different keys"""
    ps = [str(c['kw']['poly_order']) for c in h['calls'] if c.get('kw') and 'poly_order' in c['kw']]
    ks = [(c['kw']['num_knots'], c['kw']['spline_degree']) for c in h['calls'] if c.get('kw') and 'num_knots' in c['kw']]
    return len(set(ps)) > 1 or len(set(ks)) > 1


def unpredicted_ok(call, rec):
    """A raise of the implementation is accepted at the stage the call table predicts or, failing that, at
    the END of the method body (data-dependent failures of the numerical code, e.g. cwt_br on short data):
    an SRaise is appended to the model's step list of every call that raised.  The cache state after the
    call must match exactly either way, so a raise that happens BEFORE a setup the table lists is a mismatch,
    and so is a call that returns although the table predicts a raise."""
    return rec[1] == 'raise'


def coq_x0(h):
    if h['x'] == 'none':
        return 'None'
    return f'(Some (XGiven {h["N"]} {coq_b(h["x"] != "dup")}))'


def history_literal_1d(h, recs):
    ops = []
    for call, rec in zip(h['calls'], recs):
        ops.append('[' + '; '.join(group_1d(call, h['N'], unpredicted_ok(call, rec))) + ']')
    exp = '[' + '; '.join('[' + '; '.join(zl(v) for v in rec[0]) + ']' for rec in recs) + ']'
    return f'({coq_x0(h)}, [{"; ".join(ops)}], {exp})'


# ------------------------------------------------------------------------------------------ shrinking
def shrink(h, bad):
    """delta debugging on the call list (the last call of the failing prefix is the probe)."""
    calls = list(h['calls'])
    changed = True
    while changed:
        changed = False
        for i in range(len(calls) - 1):
            trial = dict(h, calls=calls[:i] + calls[i + 1:])
            if bad(trial):
                calls = trial['calls']
                changed = True
                break
    return dict(h, calls=calls)


def last_differs(kind):
    def bad(h):
        run = run_history_1d if h['dim'] == 1 else run_history_2d
        try:
            recs, diffs = run(h)
        except Exception:  # noqa
            return False
        return any(d[0] == len(h['calls']) - 1 and d[2] == kind for d in diffs)
    return bad


def by_reference_params(h, diff):
    """If the difference disappears when the pooled parameter objects are replaced by new objects holding the same
    values, returns the parameter names whose un-pooling alone removes it (or ['?']); else []."""
    i, _, kind = diff
    hp = dict(h, calls=h['calls'][:i + 1])
    names = sorted({n for c in hp['calls'] for n in c.get('pp', ())})
    if not names:
        return []
    run = run_history_1d if h['dim'] == 1 else run_history_2d

    def differs(unpool):
        try:
            _, ds = run(hp, unpool=unpool)
        except Exception:  # noqa
            return True
        return any(d[0] == i and d[2] == kind for d in ds)
    if differs(('*',)):
        return []
    single = [n for n in names if not differs((n,))]
    if single:
        return single
    need = list(names)          # greedy minimal set of parameters that must be given as new objects
    for n in names:
        trial = [m for m in need if m != n]
        if trial and not differs(tuple(trial)):
            need = trial
    return need


def report_diff(ctx, h, diff, params=()):
    i, what, kind = diff
    hp = dict(h, calls=h['calls'][:i + 1])
    small = shrink(hp, last_differs(kind))
    probe = small['calls'][-1]
    key = f'leak:{h["dim"]}d:{probe["m"]}:{kind}'
    if params:
        # a parameter given as an ndarray is kept by reference: editing the caller's array changes a cache key
        key = f'leak:{h["dim"]}d:{sorted(params)[0]}-array-mutated'
    run = run_history_1d if h['dim'] == 1 else run_history_2d
    _, d2 = run(small)
    d2 = [d for d in d2 if d[2] == kind]
    ctx.fail(key, f'{"Baseline" if h["dim"] == 1 else "Baseline2D"}.{probe["m"]} after {len(small["calls"]) - 1} earlier call(s) '
             f'on the same object differs from the same call on a fresh object: {d2[0][1] if d2 else what} '
             f'(history: {[(c["m"], c.get("kw"), c.get("w"), c.get("data"), c.get("pp")) for c in small["calls"]]}, x={small["x"]}, N={small["N"]}, fitter configuration={small.get("cfg")}'
             + (f'; the ndarray passed as {list(params)} is refilled in place between the calls and the object keeps it by reference' if params else '') + ')',
             {'kind': 'history', 'history': small})


# ------------------------------------------------------------------------------------------ 2-D (filled in below)
from .c03_2d import (gen_history_2d, run_history_2d, history_literal_2d, nontrivial_2d, enumerated_2d)  # noqa: E402


# ------------------------------------------------------------------------------------------ run
def eval_cases(ctx, name, lits, ok_def, per=60, hs=None):
    bad_any = False
    for k in range(0, len(lits), per):
        sh = lits[k:k + per]
        text = HEADER + f"""
Definition cases := [
{chr(10).join('  ' + l + (';' if i + 1 < len(sh) else '') for i, l in enumerate(sh))}
].
{ok_def}
Eval vm_compute in (bad ok cases).
"""
        vals = ctx.coq_eval(f'{name}{k // per}', text)
        if vals is None:
            bad_any = True
        elif not vals or not (vals[0].startswith('(0%nat, [])') or vals[0].startswith('(0, [])')):
            bad_any = True
            first = ''
            m = __import__('re').search(r'\[(\d+)', vals[0].split(',', 1)[1]) if vals else None
            if m and hs is not None and k + int(m.group(1)) < len(hs):
                first = ' first disagreeing history: ' + json.dumps(hs[k + int(m.group(1))])[:1500]
            ctx.broke(f'correspondence:{name}-shard{k // per}',
                      f'model state and implementation cache state disagree after some call of a history: {vals} '
                      f'(indices into shard starting at case {k}).{first}')
    return bad_any


# the model is driven by the call table GENERATED from the current source (gen/GenC03.v): each call is given as
# (registered method name, concrete argument values) and instantiated inside Coq
OK_1D = """Definition ok (c : option xsym * list (list item) * list (list Z)) : bool :=
  let '(x0, gs, exp) := c in
  match trace_g gen_methods (init XSym x0) gs with Some tr => zll_eqb tr exp | None => false end."""
OK_2D = """Definition ok (c : option Z * option Z * list (list item2) * list (list Z)) : bool :=
  let '(x0, z0, gs, exp) := c in
  match trace2_g gen_methods (init2 x0 z0) gs with Some tr => zll_eqb tr exp | None => false end."""


def histories(ctx, dim, count):
    gen = gen_history_1d if dim == 1 else gen_history_2d
    run = run_history_1d if dim == 1 else run_history_2d
    lit = history_literal_1d if dim == 1 else history_literal_2d
    nontriv = nontrivial_1d if dim == 1 else nontrivial_2d
    lits = []
    nnum = 0
    reported = {'result': 0, 'invariant': 0}
    refkeys = {}
    excluded = 0
    kept = []
    fixed = enumerated_1d() if dim == 1 else enumerated_2d()
    for k in range(count + len(fixed)):
        h = fixed[k] if k < len(fixed) else gen(ctx.rng, k=k)
        try:
            recs, diffs = run(h)
        except Exception as exc:  # noqa
            ctx.broke('harness:history', f'{type(exc).__name__}: {exc} on {json.dumps(h)[:600]}')
            continue
        ctx.case(json.dumps(h, sort_keys=True), nontrivial=nontriv(h), kind=f'{dim}d:history-length={len(h["calls"])}')
        ctx.hist[f'{dim}d:x={h["x"]}'] = ctx.hist.get(f'{dim}d:x={h["x"]}', 0) + 1
        for c, r in zip(h['calls'], recs):
            kind = f'{dim}d:call:{c["m"]}:{"raise" if r[1] == "raise" else "ok"}'
            ctx.hist[kind] = ctx.hist.get(kind, 0) + 1
            nnum += r[1] == 'raise' and r[2] != 'ValueError' and c.get('data') != 'none'
        if k < 2:
            ctx.sample({'kind': 'history', 'history': h})
        byref = False
        for d in diffs:
            params = by_reference_params(h, d)
            if params:
                # the history is outside the model's hypothesis "cache keys are values captured at call time"
                byref = True
                k2 = f'{dim}d:{sorted(params)[0]}'
                refkeys[k2] = refkeys.get(k2, 0) + 1
                if refkeys[k2] <= 1:
                    report_diff(ctx, h, d, params)
                continue
            reported[d[2]] += 1
            if reported[d[2]] <= 4:      # shrink and report the first few of each kind; count the rest
                report_diff(ctx, h, d)
        if byref:
            excluded += 1
        else:
            lits.append(lit(h, recs))
            kept.append(h)
    if reported['result'] or reported['invariant']:
        ctx.note(f'{dim}-D: {reported["result"]} histories with a call differing from the fresh object, '
                 f'{reported["invariant"]} with a cached array differing from a fresh computation')
    if excluded:
        ctx.note(f'{dim}-D: {excluded} histories excluded from the correspondence because a cache key was changed through a '
                 f'caller-owned ndarray kept by reference ({refkeys}); the model assumes keys are values captured at call time')
    ctx.traces += len(lits)
    name = f'hist{dim}d'
    ob = f'correspondence:cache-state-after-every-call-{dim}d'
    ctx.obligations.append(ob)
    if not eval_cases(ctx, name, lits, OK_1D if dim == 1 else OK_2D, hs=kept):
        ctx.discharged.append(ob)
    return nnum


def vander_device1(ctx):
    """Ties the repeated-multiplication model `pows` of C03_vander_prefix to numpy's polyvander: the model is
    evaluated in Coq on binary64 (PrimFloat) for the same x and compared bit for bit, and the column slice of
    the order-p matrix is compared with the order-q matrix on the NumPy side."""
    from .common import hexf
    rng = ctx.rng
    lits = []
    npbad = 0
    for _ in range(ctx.n(40, 400)):
        n = rng.randint(1, 6)
        xs = [rng.choice([rng.uniform(-1, 1), rng.uniform(-1, 1), -1.0, 1.0, 0.0, rng.uniform(-1e-3, 1e-3)]) for _ in range(n)]
        p = rng.randint(0, 9)
        q = rng.randint(0, p)
        v = np.polynomial.polynomial.polyvander(np.array(xs), p)
        vq = np.polynomial.polynomial.polyvander(np.array(xs), q)
        if not np.array_equal(v[:, :q + 1], vq):
            npbad += 1
        rows = '[' + '; '.join('[' + '; '.join(hexf(t) for t in row) + ']' for row in v) + ']'
        lits.append(f'([{"; ".join(hexf(t) for t in xs)}], {p}%nat, {rows})')
        ctx.case(('vander', tuple(xs), p, q), nontrivial=p >= 2, kind='device1:polyvander')
    text = """From Coq Require Import List Bool PrimFloat.
From PB Require Import lib.CaseUtil C03.Proofs.
Import ListNotations.
Definition feq (a b : float) : bool :=
  match PrimFloat.compare a b with
  | FEq => if PrimFloat.is_zero a then Bool.eqb (PrimFloat.get_sign a) (PrimFloat.get_sign b) else true
  | _ => false
  end.
Fixpoint fl_eq (x y : list float) : bool :=
  match x, y with [], [] => true | a :: x', b :: y' => feq a b && fl_eq x' y' | _, _ => false end.
Fixpoint fll_eq (x y : list (list float)) : bool :=
  match x, y with [], [] => true | a :: x', b :: y' => fl_eq a b && fll_eq x' y' | _, _ => false end.
Definition cases : list (list float * nat * list (list float)) := [
""" + ';\n'.join('  ' + l for l in lits) + """
].
Definition ok (c : list float * nat * list (list float)) : bool :=
  let '(xs, p, exp) := c in fll_eq (vander_rows float PrimFloat.mul 1%float xs p) exp.
Eval vm_compute in (bad ok cases).
"""
    ob = 'correspondence:polyvander-rows-are-repeated-multiplication(bit-exact)'
    ctx.obligations.append(ob)
    vals = ctx.coq_eval('vander', text)
    if vals is not None:
        if vals and (vals[0].startswith('(0%nat, [])') or vals[0].startswith('(0, [])')) and not npbad:
            ctx.discharged.append(ob)
        else:
            ctx.broke(ob, f'numpy polyvander rows differ from 1, x, x*x, ... by repeated multiplication: {vals}; '
                          f'numpy prefix mismatches: {npbad}')


def _w2(m, kw, pp):
    return {'m': m, 'kw': kw, 'data': 'ok', 'w': None, 'pp': pp}


# fixed witnesses, replayed first on every run: a cache key changed through a caller-owned ndarray
WITNESSES = [
    ('leak:2d:poly_order-array-mutated',
     {'dim': 2, 'M': 12, 'N': 10, 'x': 'both', 'seed': 1, 'calls': [
         _w2('poly', {'poly_order': [1, 1], 'max_cross': None}, ['poly_order']),
         _w2('poly', {'poly_order': [3, 3], 'max_cross': None}, ['poly_order'])]}),
    ('leak:2d:num_knots-array-mutated',
     {'dim': 2, 'M': 12, 'N': 10, 'x': 'both', 'seed': 1, 'calls': [
         _w2('pspline_asls', {'num_knots': [4, 4], 'spline_degree': [3, 3], 'diff_order': [2, 2]}, ['num_knots']),
         _w2('pspline_asls', {'num_knots': [7, 7], 'spline_degree': [3, 3], 'diff_order': [2, 2]}, ['num_knots'])]}),
    ('leak:2d:spline_degree-array-mutated',
     {'dim': 2, 'M': 12, 'N': 10, 'x': 'both', 'seed': 1, 'calls': [
         _w2('pspline_asls', {'num_knots': [5, 5], 'spline_degree': [1, 1], 'diff_order': [2, 2]}, ['spline_degree']),
         _w2('pspline_asls', {'num_knots': [5, 5], 'spline_degree': [3, 3], 'diff_order': [2, 2]}, ['spline_degree'])]}),
    ('leak:1d:num_knots-array-mutated',
     {'dim': 1, 'N': 40, 'x': 'uniform', 'seed': 1, 'calls': [
         _w2('pspline_asls', {'num_knots': 5, 'spline_degree': 3, 'diff_order': 2}, ['num_knots']),
         _w2('pspline_asls', {'num_knots': 9, 'spline_degree': 3, 'diff_order': 2}, ['num_knots'])]}),
]


def replay_witnesses(ctx):
    ctx.known_replayed = set()
    for key, h in WITNESSES:
        ctx.known_replayed.add(key)
        run = run_history_1d if h['dim'] == 1 else run_history_2d
        _, diffs = run(h)
        ctx.case(('witness', key), nontrivial=True, kind='witness')
        ds = [d for d in diffs if d[2] == 'result'] or diffs
        if ds:
            c = h['calls']
            ctx.fail(key, f'{"Baseline" if h["dim"] == 1 else "Baseline2D"}.{c[1]["m"]} called twice with the SAME ndarray object as '
                     f'{c[0]["pp"][0]}, its contents changed in place from {c[0]["kw"][c[0]["pp"][0]]} to {c[1]["kw"][c[1]["pp"][0]]} '
                     f'in between, differs from the same call on a fresh object: {ds[0][1]} (the cache key is kept by reference)',
                     {'kind': 'history', 'history': h})


def run(ctx):
    ctx.rule = ('cases: random call histories (1-12 calls) on one Baseline / Baseline2D object over methods covering every cache user '
                '(polynomial orders up/down/same, weighted/unweighted, Vandermonde-only methods, spline (num_knots, degree) pairs incl. pairs '
                'with equal num_knots+degree, require_unique_x methods, solver setter, wrong-length/NaN/None data, bad weights, '
                'invalid orders/knots/degrees/diff_order, bodies that raise after their setup); x in {None (lazy), uniform, random, '
                'with a duplicate, unsorted}; fitter configuration cycling over output_dtype {None, float32, int64} x check_finite x assume_sorted; '
                'a fixed grid of rejected optimizer calls (raised inside / right after / before the delegated fit, or up front) followed by probes, '
                'and the same rejections at random positions; a fixed grid "same call, only lam changed" for every Whittaker / spline host in 1-D and 2-D '
                '(by value incl. ratios 1e-200/1e150/1e300, and in place through one caller-owned ndarray) and "same polynomial call, same weights '
                'object refilled in place"; per history a pool of reusable argument OBJECTS (one weights array, one data array) that calls '
                'refill in place and pass again (the fresh object gets copies of the current values); echoed calls: a call repeated with one '
                'of its own float parameters nudged by 0.4-4 % (optimizer scales, lam, p, tol, fraction, quantile); distinct = distinct history; non-trivial = at least two different polynomial orders '
                'or two different spline keys in the history')
    ctx.trusted += [
        'np.linalg.pinv, polyvander, SplineBasis, mapdomain are deterministic functions of their arguments (Section variables '
        'vander/slice/pinv/basis with the contract slice(vander p, q) = vander q; the contract is proved for the repeated-multiplication '
        'model of polyvander and sampled bit-for-bit against NumPy by the value-level invariant check of every run)',
        'tools/gen_c03.py (Python ast -> call table gen/GenC03.v: per registered method the ordered _setup_* calls with their key '
        'arguments, guards, weights class, require_unique_x; fail-closed, UUnknown for any other touch of the object state); '
        'hand-written remainder: which deliberately invalid scalar parameters are rejected before the first setup (pre_raise_1d/2d) '
        'and the list of methods an optimizer delegates to (inner_calls) -- both validated by the correspondence',
        '"fresh object with the same x-values" is read as: a new object built with the current x (for an object created without x: '
        'the linspace(-1, 1, N) it created at its first call, N >= 2) and the same banded_solver',
    ]
    ctx.gate()
    ctx.translate(['GenC03'])
    ok = ctx.build_props()
    vander_device1(ctx)
    replay_witnesses(ctx)
    n1 = ctx.n(500, 4000)
    n2 = ctx.n(200, 1500)
    if not ok or ctx.broken:
        n1, n2 = n1 * 2, n2 * 2
    num = histories(ctx, 1, n1)
    num += histories(ctx, 2, n2)
    ctx.note(f'{n1} 1-D and {n2} 2-D histories; every call also made on a fresh object and compared bit for bit; '
             f'{num} calls raised something other than ValueError (numerical failures in the body; every raise is accepted at the predicted stage or at the end of the body, the cache state must match either way). '
             '1-D optimizers are in the histories (adaptive_minmax and collab_pls as groups of delegated calls on the same object, '
             'optimize_extended_range and custom_bc fit on a new object via _override_x); 2-D adaptive_minmax / collab_pls / individual_axes likewise. '
             '2-D histories include pspline_iasls pairs whose keys differ on exactly one axis (lazy full basis). Not covered: reusable objects for parameters other than weights / data (alpha, x given to the constructor); nested optimizers; objects whose lazily created x has one point; non-integer / array-like parameters; '
             'check_finite=False objects; pentapy-absent environments')


def replay(rep):
    case = rep.get('case') or {}
    if case.get('kind') == 'history':
        h = case['history']
        run = run_history_1d if h['dim'] == 1 else run_history_2d
        recs, diffs = run(h)
        if not diffs:
            print('replay history: every call equals the call on a fresh object; property holds on this input')
            return 0
        for d in diffs:
            print(f'replay history: call #{d[0]} ({h["calls"][d[0]]["m"]}) differs from a fresh object: {d[1]}')
        return 1
    print('replay: nothing concrete to replay; broken obligations were:', rep.get('broken_obligations'))
    return 1
