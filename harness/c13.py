"""C13 -- calls never modify the caller's arrays or dictionaries.  See DESIGN.md section 4 / C13.

run(ctx): gate -> translate GenWrites (write sites + root bindings of every registered method body and of
every helper they call, from the current source) -> build props/C13.v (alias map for all flag combinations,
soundness of the write-site analysis, `writes_ok` on the generated table) -> correspondence (the alias model
evaluated inside Coq against np.shares_memory recorded at the patched `_setup_*`/method boundaries) ->
direct oracle (byte-level snapshots of every argument before/after every call)."""
import copy
import inspect
import itertools
import os
import random
import warnings

import numpy as np

from . import methods as M
from .common import coqbool

PROP = 'C13'


# ------------------------------------------------------------------------------------------------
# byte-level snapshots
def _base_of(a):
    b = a
    while isinstance(getattr(b, 'base', None), np.ndarray):
        b = b.base
    return b


def snap(obj, depth=0):
    """Deep, byte-exact description of an argument (arrays: bytes + dtype/shape/strides of the view AND of
    the buffer it is a view of; containers recursively, in order)."""
    if isinstance(obj, np.ndarray) and obj.dtype == object:
        # object arrays have no meaningful raw bytes: compare element by element (identity and value)
        flat = [obj[idx] for idx in np.ndindex(obj.shape)] if obj.ndim else [obj[()]]
        return ('ndobj', obj.shape, obj.strides, [(id(e), snap(e, depth + 1)) for e in flat])
    if isinstance(obj, np.ndarray):
        base = _base_of(obj)
        extra = None
        if base is not obj:
            extra = (base.dtype.str, base.shape, base.strides, base.tobytes())
        return ('nd', obj.dtype.str, obj.shape, obj.strides, obj.tobytes(), extra)
    if isinstance(obj, dict):
        return ('dict', type(obj).__name__, [(snap(k, depth + 1), snap(v, depth + 1)) for k, v in obj.items()])
    if isinstance(obj, (list, tuple)):
        return (type(obj).__name__, [snap(v, depth + 1) for v in obj])
    if isinstance(obj, (set, frozenset)):
        return (type(obj).__name__, sorted(repr(snap(v, depth + 1)) for v in obj))
    if isinstance(obj, (bytearray, memoryview)):
        return (type(obj).__name__, bytes(obj))
    if isinstance(obj, (np.generic,)):
        return ('npval', obj.dtype.str, obj.tobytes())
    if obj is None or isinstance(obj, (bool, int, float, complex, str, bytes)):
        return ('val', type(obj).__name__, repr(obj))
    if callable(obj):
        return ('callable', getattr(obj, '__name__', type(obj).__name__))
    return ('obj', type(obj).__name__, repr(obj)[:200])


def diff_path(a, b, path=''):
    """Where two snapshots differ (first difference), as a readable path."""
    if a == b:
        return None
    if a[0] != b[0]:
        return f'{path}: kind {a[0]} -> {b[0]}'
    if a[0] == 'ndobj':
        if a[1:3] != b[1:3]:
            return f'{path}: object array shape/strides {a[1:3]} -> {b[1:3]}'
        for k, (ea, eb) in enumerate(zip(a[3], b[3])):
            if ea != eb:
                return f'{path}: object-array element {k} (flat) changed: {str(ea[1])[:40]} -> {str(eb[1])[:40]}'
    if a[0] == 'nd':
        if a[1:4] != b[1:4]:
            return f'{path}: dtype/shape/strides {a[1:4]} -> {b[1:4]}'
        if a[4] != b[4]:
            x = np.frombuffer(a[4], dtype=np.uint8)
            y = np.frombuffer(b[4], dtype=np.uint8)
            k = int(np.argmax(x != y)) // max(1, np.dtype(a[1]).itemsize)
            return f'{path}: array element {k} (flat) changed, {int((x != y).sum())} bytes differ'
        return f'{path}: the buffer behind the view changed outside/inside the view'
    if a[0] == 'dict':
        ka = [k for k, _ in a[2]]
        kb = [k for k, _ in b[2]]
        if ka != kb:
            return f'{path}: dict keys {[k[-1] for k in ka]} -> {[k[-1] for k in kb]}'
        for (k, va), (_, vb) in zip(a[2], b[2]):
            d = diff_path(va, vb, f'{path}[{k[-1]}]')
            if d:
                return d
    if a[0] in ('list', 'tuple'):
        if len(a[1]) != len(b[1]):
            return f'{path}: length {len(a[1])} -> {len(b[1])}'
        for i, (va, vb) in enumerate(zip(a[1], b[1])):
            d = diff_path(va, vb, f'{path}[{i}]')
            if d:
                return d
    return f'{path}: {str(a)[:60]} -> {str(b)[:60]}'


# ------------------------------------------------------------------------------------------------
# input layouts
LAYOUTS_1D = ('c', 'strided', 'col', 'row', 'colstrided', 'list', 'f32', 'int', 'neg', 'ro')
LAYOUTS_2D = ('c', 'f', 'strided', 'list', 'f32', 'int', 'mn1', 'ro', 'T', 'neg2')


class SubArray(np.ndarray):
    """a plain ndarray subclass: np.asarray returns a base-class VIEW of it (same memory, different object)"""


def lay1(vals, layout):
    """1-D values in the given memory layout.  Returns the object handed to the library."""
    v = np.array(vals, dtype=float)
    n = len(v)
    if layout == 'c':
        return v.copy()
    if layout == 'ro':
        a = v.copy()
        a.flags.writeable = False
        return a
    if layout == 'strided':
        big = np.full(2 * n + 1, -777.0)
        big[1::2] = v
        return big[1::2]
    if layout == 'neg':
        return v[::-1].copy()[::-1]
    if layout == 'col':
        return v.copy().reshape(n, 1)
    if layout == 'row':
        return v.copy().reshape(1, n)
    if layout == 'colstrided':
        big = np.full((n, 3), -777.0)
        big[:, 1] = v
        return big[:, 1:2]
    if layout == 'list':
        return [float(t) for t in v]
    if layout == 'f32':
        return v.astype(np.float32)
    if layout == 'int':
        return np.round(v).astype(np.int64)
    if layout == 'bool':
        return v > 0
    if layout == 'boolstrided':
        big = np.zeros(2 * n, dtype=bool)
        big[::2] = v > 0
        return big[::2]
    if layout == 'boolcol':
        return (v > 0).reshape(n, 1)
    if layout == 'subclass':
        return v.copy().view(SubArray)
    if layout == 'subcol':
        return v.copy().reshape(n, 1).view(SubArray)
    if layout == 'masked':
        return np.ma.array(v.copy(), mask=np.zeros(n, dtype=bool))
    raise ValueError(layout)


def lay2(vals, layout):
    v = np.array(vals, dtype=float)
    if layout == 'c':
        return v.copy()
    if layout == 'ro':
        a = v.copy()
        a.flags.writeable = False
        return a
    if layout == 'f':
        return np.asfortranarray(v)
    if layout == 'strided':
        big = np.full((2 * v.shape[0], 2 * v.shape[1] + 1), -777.0)
        big[::2, 1::2] = v
        return big[::2, 1::2]
    if layout == 'list':
        return [[float(t) for t in row] for row in v]
    if layout == 'f32':
        return v.astype(np.float32)
    if layout == 'int':
        return np.round(v).astype(np.int64)
    if layout == 'mn1':
        return v.copy().reshape(v.shape + (1,))
    if layout == 'T':
        return np.ascontiguousarray(v.T).T          # a transposed view of a C array
    if layout == 'neg2':
        return v[::-1, ::-1].copy()[::-1, ::-1]     # negative strides on both axes
    if layout == 'bool':
        return v > 0
    if layout == 'subclass':
        return v.copy().view(SubArray)
    if layout == 'masked':
        return np.ma.array(v.copy(), mask=np.zeros(v.shape, dtype=bool))
    raise ValueError(layout)


# ------------------------------------------------------------------------------------------------
# the catalogue of optional array / dict arguments
INNER_1D = {'collab_pls': 'asls', 'optimize_extended_range': 'asls', 'adaptive_minmax': 'modpoly',
            'custom_bc': 'asls'}
INNER_ALT_1D = {'collab_pls': ['arpls', 'aspls', 'pspline_asls', 'fabc', 'mpls', 'brpls'],
                'optimize_extended_range': ['imodpoly', 'aspls', 'pspline_arpls', 'mor', 'dietrich'],
                'adaptive_minmax': ['imodpoly'],
                'custom_bc': ['imodpoly', 'pspline_asls', 'fabc', 'rubberband']}
INNER_ALT_2D = {'collab_pls': ['arpls', 'pspline_asls'], 'adaptive_minmax': ['imodpoly'],
                'individual_axes': ['arpls', 'imodpoly', 'fabc']}
CLASSIFICATION = ('dietrich', 'golotvin', 'std_distribution', 'fastchrom', 'cwt_br', 'fabc', 'rubberband')


# data kinds chosen to reach rarely taken, data-dependent branches of the bodies (early returns when nothing /
# everything is classified as baseline, loops that stop at once, empty peak lists, ...)
Y_KINDS = ('line', 'quad', 'const', 'zeros', 'sine', 'blank', 'blank', 'step', 'spikes', 'allpeaks', 'negative', 'tiny', 'huge',
           'peaks')
# extreme option values, applied when the method has the parameter
BRANCH_VALUES = {
    'num_std': [0.0, 1e-3, 10.0, 1e3], 'threshold': [1e-12, 1e12], 'min_length': [1, 2, 10 ** 6],
    'max_iter': [0, 1, 2, 60], 'max_iter_2': [0, 1], 'tol': [0.0, 1e300], 'tol_2': [0.0, 1e300], 'tol_3': [0.0, 1e300],
    'interp_half_window': [0, 1, 50], 'smooth_half_window': [0, 1, 30], 'half_window': [1, 2, 19],
    'sections': [1, 2, 40], 'poly_order': [0, 1, 5], 'min_fwhm': [1, 30], 'num_bins': [2, 500], 'sigma': [1e-6, 50.0],
    'scale': [1, 6], 'peak_ratio': [0.01, 0.99], 'quantile': [1e-3, 0.999], 'p': [1e-9, 0.5, 1 - 1e-9],
    'k': [1e-9, 1e9], 'lam': [1e-8, 1e12], 'lam_1': [1e-12, 1e6], 'lam_smooth': [1e-8, 1e8], 'eta': [0.0, 1.0],
    'fraction': [0.05, 1.0], 'delta': [0.0, 1e9], 'total_points': [2, 3], 'use_threshold': [True], 'use_original': [True],
    'mask_initial_peaks': [True, False], 'weights_as_mask': [True], 'symmetric': [True], 'symmetric_weights': [True],
    'return_coef': [True], 'conserve_memory': [False], 'robust_opening': [False], 'fit_parabola': [False],
    'original_criteria': [True], 'normalize_weights': [True, False], 'decreasing': [True], 'filter_order': [2, 8],
    'max_half_window': [1, 19], 'min_half_window': [1, 10], 'fill_half_window': [0, 10], 'num_smooths': [0, 3],
    'asymmetric_coef': [1e-6, 1e3], 'alpha_factor': [0.01, 1.0], 'cost_function': ['s_huber', 'a_indec', 'asymmetric_huber'],
    'diff_order': [1, 3], 'num_knots': [2, 30], 'spline_degree': [1, 5], 'max_cross': [0, 1], 'return_dof': [True],
    'eps': [1e-12, 1.0], 'side': ['left', 'right'], 'average_dataset': [False], 'constrained_fraction': [0.0, 0.5],
    'estimation_poly_order': [0, 4], 'sampling': [1, 7], 'min_value': [1], 'max_value': [1, 3], 'step': [0, 1],
    'freq_cutoff': [0.01, 0.4], 'asymmetry': [1.0, 20.0], 'filter_type': [1, 2], 'lam_0': [1e-6, 10.0], 'lam_2': [1e-6, 10.0],
}
BRANCHY_METHODS = ('dietrich', 'golotvin', 'std_distribution', 'fastchrom', 'cwt_br', 'fabc', 'rubberband', 'mpls',
                   'pspline_mpls', 'airpls', 'pspline_airpls', 'drpls', 'pspline_drpls', 'iarpls', 'pspline_iarpls',
                   'aspls', 'pspline_aspls', 'brpls', 'pspline_brpls', 'lsrpls', 'pspline_lsrpls', 'arpls',
                   'pspline_arpls', 'goldindec', 'imodpoly', 'modpoly', 'loess', 'swima', 'snip', 'ipsa', 'ria',
                   'peak_filling', 'corner_cutting', 'mixture_model', 'jbcd', 'amormol', 'mormol', 'imor', 'beads',
                   'custom_bc', 'optimize_extended_range', 'adaptive_minmax', 'collab_pls')


def shape_y(kind, y, t, rs):
    """data of the requested kind on the normalised abscissa t (same shape as y)"""
    if kind == 'line':
        return 3.0 + 2.0 * t
    if kind == 'quad':
        return 1.0 + 2.0 * t + 3.0 * t * t
    if kind == 'const':
        return np.full(y.shape, 5.0)
    if kind == 'zeros':
        return np.zeros(y.shape)
    if kind == 'sine':
        return 5.0 + np.sin(2.0 * t)
    if kind == 'blank':
        return 5.0 + 0.05 * rs.standard_normal(y.shape)
    if kind == 'step':
        return np.where(t < 0.5, 1.0, 4.0) + 0.01 * rs.standard_normal(y.shape)
    if kind == 'spikes':
        out = 5.0 + 0.01 * rs.standard_normal(y.shape)
        flat = out.reshape(-1)
        flat[::7] += 50.0
        return out
    if kind == 'allpeaks':
        return 5.0 + 40.0 * np.abs(np.sin(25.0 * t)) + rs.standard_normal(y.shape)
    if kind == 'negative':
        return -y
    if kind == 'tiny':
        return y * 1e-300
    if kind == 'huge':
        return y * 1e300
    return y


def nested_pad_kwargs(sel, two_d, n, m):
    """pad_kwargs dictionaries whose documented options are given as ARRAYS, in the dtype the library asks for
    (so that np.asarray is a no-copy and the library holds the caller's array), with in-range, boundary and
    out-of-range values (windows longer than the data are legal: 'use every point')"""
    big = 10 * max(n, m)
    i64 = np.int64
    if two_d:
        v = [
            {'mode': 'extrapolate', 'extrapolate_window': np.array([2, 3], dtype=i64)},
            {'mode': 'extrapolate', 'extrapolate_window': np.array([m + 20, 3], dtype=i64)},
            {'mode': 'extrapolate', 'extrapolate_window': np.array([2, big], dtype=i64)},
            {'mode': 'extrapolate', 'extrapolate_window': np.array([2, 3, big, 1], dtype=i64)},
            {'mode': 'extrapolate', 'extrapolate_window': np.array([1, 1], dtype=i64)},
            {'mode': 'extrapolate', 'extrapolate_window': np.array(big, dtype=i64)},
            {'mode': 'constant', 'constant_values': np.array([1.0, 2.0])},
            {'mode': 'edge'},
        ]
    else:
        v = [
            {'mode': 'extrapolate', 'extrapolate_window': np.array([3, 4], dtype=i64)},
            {'mode': 'extrapolate', 'extrapolate_window': np.array([n + 50, 5], dtype=i64)},
            {'mode': 'extrapolate', 'extrapolate_window': np.array([5, big], dtype=i64)},
            {'mode': 'extrapolate', 'extrapolate_window': np.array([big, big], dtype=i64)},
            {'mode': 'extrapolate', 'extrapolate_window': np.array([n, n], dtype=i64)},
            {'mode': 'extrapolate', 'extrapolate_window': np.array([1, 1], dtype=i64)},
            {'mode': 'extrapolate', 'extrapolate_window': np.array(big, dtype=i64)},
            {'extrapolate_window': np.array([2, n + 1], dtype=np.intp)},
            {'mode': 'extrapolate', 'extrapolate_window': np.array([3.0, 4.0])},
            {'mode': 'constant', 'constant_values': np.array([1.0, 2.0])},
            {'mode': 'linear_ramp', 'end_values': np.array([1.0, 2.0])},
            {'mode': 'reflect'},
        ]
    return v[sel % len(v)]


def nested_window_kwargs(sel, n):
    big = 10 * n
    v = [
        {'min_half_window': np.array(2), 'max_half_window': np.array(9), 'increment': 1, 'max_hits': 2},
        {'min_half_window': np.array(1, dtype=np.int64), 'max_half_window': np.array(big, dtype=np.int64),
         'increment': np.array(1, dtype=np.int64), 'max_hits': np.array(1, dtype=np.int64)},
        {'min_half_window': np.array([2], dtype=np.int64), 'max_half_window': np.array([7], dtype=np.int64)},
        {'window_tol': np.array(1e-6), 'max_hits': np.array(3)},
        {'window_tol': np.array(1e300), 'min_half_window': np.array(big, dtype=np.int64)},
    ]
    return v[sel % len(v)]


NO_FORM = object()
CONTAINER_FORMS = ('scalar', 'tuple1', 'list1', 'list2', 'tuple2', 'arr1', 'arr2', 'empty_list',
                   'objarr', 'objarr_flat', 'objarr_none_first', 'objarr_none_last', 'list_none_last')


def apply_form(base, form):
    """the value `base` of a scalar-or-sequence / per-axis parameter in another container form"""
    if base is None or isinstance(base, (str, bool, np.ndarray)) or callable(base):
        return NO_FORM
    elems = list(base) if isinstance(base, (tuple, list)) else [base]
    if not elems:
        return NO_FORM
    first = elems[0]
    second = elems[1] if len(elems) > 1 else (dict(first) if isinstance(first, dict) else first)
    numeric = all(isinstance(v, (int, float)) and not isinstance(v, bool) for v in (first, second))
    if form == 'scalar':
        return first
    if form == 'tuple1':
        return (first,)
    if form == 'list1':
        return [first]
    if form == 'list2':
        return [first, second]
    if form == 'tuple2':
        return (first, second)
    if form == 'arr1':
        return np.array([first]) if numeric else NO_FORM
    if form == 'arr2':
        return np.array([first, second]) if numeric else NO_FORM
    if form == 'empty_list':
        return []
    # object-dtype ndarrays: the documented forms that hold None inside a sequence (open-ended bounds, per-axis
    # 'use the default') written as an array; np.asarray / np.atleast_2d do NOT copy these
    def obj(v):
        out = np.empty(len(v), dtype=object)
        for i, e in enumerate(v):
            out[i] = e
        return out
    if form == 'objarr':
        if isinstance(base, (tuple, list)) and base and isinstance(base[0], (tuple, list)):
            return np.array([list(r) for r in base], dtype=object)
        return obj(elems) if isinstance(base, (tuple, list)) else NO_FORM
    if form == 'objarr_flat':
        return obj(list(first)) if isinstance(first, (tuple, list)) else NO_FORM
    if form in ('objarr_none_first', 'objarr_none_last', 'list_none_last'):
        if isinstance(first, dict):
            return NO_FORM
        if isinstance(first, (tuple, list)):
            rows = [[None, 10], [20, None]] if form != 'objarr_none_first' else [[None, None], [30, 35]]
            return np.array(rows, dtype=object) if form != 'list_none_last' else rows
        pair = [None, second] if form == 'objarr_none_first' else [first, None]
        return obj(pair) if form != 'list_none_last' else pair
    return NO_FORM


def sig_params(name, two_d):
    from pybaselines import Baseline, Baseline2D
    return inspect.signature(getattr(Baseline2D if two_d else Baseline, name)).parameters


def build_case(rng, two_d, name, mode):
    """A JSON-serialisable description of one call.  `mode` picks which family of variation is used."""
    params = sig_params(name, two_d)
    c = {'two_d': two_d, 'method': name, 'seed': rng.randrange(10 ** 6), 'mode': mode,
         'n': rng.choice([31, 40, 47]) if not two_d else rng.choice([12, 14]), 'm': rng.choice([11, 13]),
         'data': 'c', 'x': 'sorted', 'xlay': 'c', 'args': {}, 'raise_at': None, 'extra': {}, 'ykind': 'peaks',
         'optsel': rng.randrange(10 ** 4)}
    lay = LAYOUTS_2D if two_d else LAYOUTS_1D
    arr_lay = ['c', 'strided', 'list', 'int', 'f32', 'ro'] + ([] if two_d else ['col', 'neg'])
    if mode == 'layout':
        c['data'] = rng.choice(lay)
    c['x'] = rng.choice(['sorted', 'sorted', 'unsorted', 'none'])
    c['xlay'] = rng.choice(['c', 'c', 'strided', 'list', 'ro', 'int'] + ([] if two_d else ['col']))
    if mode == 'base':
        c['x'] = 'sorted'
        c['xlay'] = 'c'
    optional = []
    for p in params:
        if p in ('weights', 'alpha', 'baseline_points', 'method_kwargs', 'pad_kwargs', 'window_kwargs',
                 'scales', 'regions'):
            if p == 'alpha' and name not in ('aspls', 'pspline_aspls'):
                continue
            optional.append(p)
    if two_d:
        for p in ('lam', 'poly_order', 'half_window', 'num_knots', 'diff_order', 'spline_degree'):
            if p in params and name not in ('collab_pls', 'individual_axes', 'adaptive_minmax'):
                optional.append(p)
    for p in optional:
        if mode == 'base' or rng.random() < 0.75 or p == 'baseline_points':
            if p in ('method_kwargs', 'pad_kwargs', 'window_kwargs'):
                c['args'][p] = rng.choice(['plain', 'arrays', 'arrays', 'nested'])
            elif p in ('weights', 'alpha'):
                l = rng.choice(arr_lay)
                if p == 'weights' and name in CLASSIFICATION and rng.random() < 0.6:
                    l = rng.choice(['bool', 'bool', 'boolstrided'] if not two_d else ['bool'])
                c['args'][p] = 'c' if mode == 'base' else l
            else:
                c['args'][p] = rng.choice(['c', 'list', 'int', 'ro'])
    if name in INNER_1D or name == 'individual_axes':
        alts = (INNER_ALT_2D if two_d else INNER_ALT_1D).get(name, [])
        if alts and rng.random() < 0.6 and mode != 'base':
            c['extra']['method'] = rng.choice(alts)
    if mode == 'branch':
        # float64 data that the body receives as a view of the caller's array; data kind and option values that
        # drive the body into its rarely taken branches
        c['ykind'] = rng.choice(Y_KINDS)
        c['data'] = rng.choice(['c', 'c', 'c', 'strided', 'col'] if not two_d else ['c', 'c', 'strided'])
        c['x'] = rng.choice(['sorted', 'sorted', 'none'])
        c['xlay'] = rng.choice(['c', 'c', 'strided'])
        for p in list(c['args']):
            if p in ('weights', 'alpha') and rng.random() < 0.5:
                del c['args'][p]
            elif p in ('weights', 'alpha'):
                c['args'][p] = rng.choice(['c', 'c', 'strided', 'bool' if name in CLASSIFICATION and p == 'weights' else 'c'])
        cands = [p for p in params if p in BRANCH_VALUES and p not in c['args']
                 and not (p == 'alpha' and name in ('aspls', 'pspline_aspls'))
                 and not (p in ('lam', 'diff_order') and name == 'custom_bc')
                 and not (two_d and p in ('half_window', 'smooth_half_window', 'max_half_window') )]
        rng.shuffle(cands)
        for p in cands[:rng.choice([0, 1, 1, 2, 3])]:
            c['extra'][p] = rng.choice(BRANCH_VALUES[p])
    c['solver'] = rng.choice([None, None, 1, 3, 4])
    if not two_d and name != 'interp_pts' and mode in ('layout', 'branch', 'param') and rng.random() < 0.25:
        c['functional'] = True     # pybaselines.<module>.<method>(data, x_data=...)
    if mode == 'raise':
        c['raise_at'] = rng.choice([1, 1, 2, 3, 5])
    if mode == 'param':
        pv = M.param_variants(name, two_d)
        pv = [v for v in pv if list(v)[0] not in c['args'] and not (two_d and list(v)[0] == 'half_window' and v['half_window'] > 15)]
        if pv:
            v = rng.choice(pv)
            k = list(v)[0]
            if not isinstance(v[k], tuple):
                c['extra'].update(v)
    return c


def _inner_accepts(two_d, inner, key):
    from pybaselines import Baseline, Baseline2D
    f = getattr(Baseline2D if two_d else Baseline, inner, None)
    return f is not None and key in inspect.signature(f).parameters


def materialise(c):
    """Builds the actual objects of a case: (ctor_kwargs, call_kwargs, data) -- every object in them is
    a caller-owned argument that must come back bit-for-bit unchanged."""
    rs = np.random.RandomState(c['seed'])
    two_d, name = c['two_d'], c['method']
    n, m = c['n'], c['m']
    ctor = {}
    if not two_d:
        x = M.make_x(rs, n)
        y = M.make_y(rs, x)
        y = shape_y(c.get('ykind', 'peaks'), y, (x - x[0]) / (x[-1] - x[0]), rs)
        perm = rs.permutation(n) if c['x'] == 'unsorted' else np.arange(n)
        if c['x'] != 'none':
            ctor['x_data'] = lay1(x[perm], c['xlay'] if c['xlay'] != 'int' else 'c')
            if c['xlay'] == 'int':
                ctor['x_data'] = lay1(np.arange(n, dtype=float)[perm] * 3 + 5, 'int')
        yv = y[perm]
        data = lay1(yv, c['data'])
        shape = (n,)
    else:
        x, z, y = M.make_z2d(rs, m, n)
        tx = ((x - x[0]) / (x[-1] - x[0]))[:, None]
        tz = ((z - z[0]) / (z[-1] - z[0]))[None, :]
        y = shape_y(c.get('ykind', 'peaks'), y, 0.6 * tx + 0.4 * tz + 0.0 * y, rs)
        px = rs.permutation(m) if c['x'] == 'unsorted' else np.arange(m)
        pz = rs.permutation(n) if c['x'] == 'unsorted' and c['seed'] % 2 else np.arange(n)
        if c['x'] != 'none':
            xl = c['xlay'] if c['xlay'] in ('c', 'strided', 'list', 'ro') else 'c'
            ctor['x_data'] = lay1(x[px], xl)
            ctor['z_data'] = lay1(z[pz], xl if c['seed'] % 3 else 'c')
        yv = y[px][:, pz]
        data = lay2(yv, c['data'])
        shape = (m, n)
    kw = M.call_kwargs(name, two_d)
    inner = c['extra'].get('method') or kw.get('method') or (INNER_1D.get(name) if not two_d else None)
    if name in ('collab_pls', 'adaptive_minmax', 'individual_axes', 'optimize_extended_range', 'custom_bc'):
        inner = c['extra'].get('method') or kw.get('method') or sig_params(name, two_d)['method'].default
    itd = two_d and name != 'individual_axes'
    for k, v in c['extra'].items():
        kw[k] = v
    if 'method' in c['extra'] and isinstance(kw.get('method_kwargs'), dict):
        kw['method_kwargs'] = {k: v for k, v in kw['method_kwargs'].items() if _inner_accepts(itd, inner, k)}
    if name == 'collab_pls':
        if two_d:
            data = np.array([yv, yv * 1.1 + 1]) if c['data'] != 'list' else [lay2(yv, 'list'), lay2(yv * 1.1 + 1, 'list')]
            if c['data'] in ('f32', 'int', 'ro'):
                data = lay2(np.array([yv, yv * 1.1 + 1]).reshape(2 * m, n), c['data']).reshape(2, m, n)
        else:
            data = lay2(np.vstack([yv, yv * 1.1 + 1]), c['data'] if c['data'] in LAYOUTS_2D and c['data'] != 'mn1' else 'c')
    if name == 'interp_pts' and 'baseline_points' not in c['args']:
        c['args']['baseline_points'] = 'c'

    def wvals(shape):
        return 0.2 + 0.8 * rs.random_sample(shape)

    def arr(vals, layout):
        vals = np.asarray(vals, dtype=float)
        if layout in ('int',):
            vals = 1 + np.round(2 * vals)
        if vals.ndim == 1:
            return lay1(vals, layout)
        return lay2(vals, layout if layout in LAYOUTS_2D + ('bool', 'subclass', 'masked') else 'c')

    for p, how in c['args'].items():
        if p == 'weights':
            wv = wvals(shape)
            if how in ('bool', 'boolstrided', 'boolcol'):
                wv = np.where(wv > 0.35, 1.0, -1.0)
            if how in ('tinyw', 'hugew'):
                wv, how = wv * (1e-300 if how == 'tinyw' else 1e300), 'c'
            kw[p] = arr(wv, how)
        elif p == 'alpha':
            kw[p] = arr(0.5 + 0.5 * rs.random_sample(shape), how if how != 'int' else 'c')
        elif p == 'baseline_points':
            xs = ctor.get('x_data')
            xs = np.sort(np.asarray(xs, dtype=float).ravel()) if xs is not None else np.linspace(-1, 1, n)
            pts = np.array([[xs[0], 1.0], [xs[n // 3], 3.0], [xs[n // 2], 2.0], [xs[-1], 4.0]])
            kw[p] = lay2(pts, how if how in ('c', 'list', 'ro') else 'f')
        elif p == 'scales':
            kw[p] = lay1([2, 3, 4], 'int') if how != 'list' else [2, 3, 4]
        elif p == 'regions':
            kw[p] = lay2([[3, 9], [n // 2, n // 2 + 6]], 'int' if how != 'list' else 'list')
            if how == 'list':
                kw[p] = [[3, 9], [n // 2, n // 2 + 6]]
        elif p in ('lam', 'poly_order', 'half_window', 'num_knots', 'diff_order', 'spline_degree'):
            base = kw.get(p, sig_params(name, two_d)[p].default)
            if base is None or isinstance(base, (list, tuple, np.ndarray)):
                continue
            pair = [base, base]
            if how == 'list':
                kw[p] = pair
            else:
                a = np.array(pair)
                if how == 'ro':
                    a.flags.writeable = False
                kw[p] = a
        elif p == 'method_kwargs':
            d = dict(kw.get(p) or {})
            if how != 'plain':
                if _inner_accepts(itd, inner, 'weights') and name not in ('adaptive_minmax', 'individual_axes'):
                    d['weights'] = arr(wvals(shape), 'c')
                if inner in ('aspls', 'pspline_aspls') and how == 'nested':
                    d['alpha'] = arr(0.5 + 0.5 * rs.random_sample(shape), 'c')
                if _inner_accepts(itd, inner, 'pad_kwargs') and how == 'nested':
                    d['pad_kwargs'] = nested_pad_kwargs(c.get('padsel', c.get('optsel', 0) // 3), itd, n, m)
                if _inner_accepts(itd, inner, 'window_kwargs') and how == 'nested':
                    d['window_kwargs'] = nested_window_kwargs(c.get('winsel', c.get('optsel', 0) // 5), n)
                if _inner_accepts(itd, inner, 'poly_order') and name not in ('adaptive_minmax', 'optimize_extended_range'):
                    d['poly_order'] = np.array([2, 2]) if itd else np.array(2)
                if _inner_accepts(itd, inner, 'lam') and name != 'optimize_extended_range' and inner != 'fabc':
                    d['lam'] = np.array([50.0, 50.0]) if itd else np.array([500.0])
            kw[p] = d
        elif p == 'pad_kwargs':
            d = {'mode': 'reflect'} if how == 'plain' else nested_pad_kwargs(c.get('padsel', c.get('optsel', 0)), two_d, n, m)
            kw[p] = d
        elif p == 'window_kwargs':
            d = {'min_half_window': 2, 'max_hits': 2}
            if how != 'plain':
                d = nested_window_kwargs(c.get('winsel', c.get('optsel', 0) // 7), n)
            kw[p] = d
    for key, vk in (c.get('mk_extra') or {}).items():
        # keys inside method_kwargs that collide with what the optimizer passes itself, are reserved, or unknown
        mk = kw.get('method_kwargs')
        if not isinstance(mk, dict):
            mk = {}
        if vk == 'scalar':
            val = 2
        elif key in ('weights', 'alpha', 'data'):
            val = 0.2 + 0.8 * rs.random_sample(shape)
        elif key in ('x_data', 'z_data'):
            val = np.linspace(0.0, 1.0, shape[0] if key == 'x_data' else shape[-1])
        elif vk == 'arr_int':
            val = np.array([2], dtype=np.int64)
        else:
            val = np.array(2.0)
        mk[key] = val
        kw['method_kwargs'] = mk
    for p, form in (c.get('forms') or {}).items():
        base = kw.get(p)
        if base is None:
            dflt = sig_params(name, two_d)[p].default
            base = dflt if dflt is not None and dflt is not inspect.Parameter.empty else (M.PARAM_VALUES.get(p) or [None])[0]
        val = apply_form(base, form)
        if val is not NO_FORM:
            kw[p] = val
    if name == 'interp_pts':
        kw = {k: v for k, v in kw.items() if v is not None}
    return ctor, kw, data


RAISE_MARK = 'C13-injected-failure'


class Injected(Exception):
    pass


def _inject(k):
    """Makes the k-th evaluation of the convergence measure raise (a raising call that has already done
    work).  Returns an undo function."""
    import pybaselines
    from pybaselines import utils
    mods = []
    for modname in ('classification', 'misc', 'morphological', 'optimizers', 'polynomial', 'smooth', 'spline',
                    'whittaker', 'two_d.morphological', 'two_d.optimizers', 'two_d.polynomial', 'two_d.smooth',
                    'two_d.spline', 'two_d.whittaker', 'utils'):
        try:
            mod = __import__('pybaselines.' + modname, fromlist=['x'])
        except ImportError:
            continue
        if hasattr(mod, 'relative_difference'):
            mods.append(mod)
    orig = utils.relative_difference
    count = [0]

    def failing(*a, **kw):
        count[0] += 1
        if count[0] >= k:
            raise Injected(RAISE_MARK)
        return orig(*a, **kw)
    saved = [(mod, mod.relative_difference) for mod in mods]
    for mod in mods:
        mod.relative_difference = failing

    def undo():
        for mod, f in saved:
            mod.relative_difference = f
    return undo


def functional(name):
    import importlib
    for modname in ('whittaker', 'polynomial', 'morphological', 'spline', 'smooth', 'classification', 'misc', 'optimizers'):
        mod = importlib.import_module('pybaselines.' + modname)
        f = getattr(mod, name, None)
        if callable(f) and not name.startswith('_'):
            return f
    return None


def call(c, objs=None):
    """Runs the case.  Returns (outcome, problems) where outcome is 'ok' or the exception class name and
    problems is a list of (argument path, description) for every caller-owned object that changed."""
    from pybaselines import Baseline, Baseline2D
    ctor, kw, data = objs if objs is not None else materialise(c)
    owned = {'data': data}
    if c.get('history'):
        d0 = np.asarray(data, dtype=float)
        bad_data = np.concatenate([d0, d0[..., :3]], axis=-1)     # wrong length on the last axis
        owned['history.bad_data'] = bad_data
    owned.update({'ctor.' + k: v for k, v in ctor.items()})
    owned.update({'arg.' + k: v for k, v in kw.items()})
    before = {k: snap(v) for k, v in owned.items()}
    ids = {k: _ids(v) for k, v in owned.items()}
    undo = _inject(c['raise_at']) if c.get('raise_at') else None
    outcome = 'ok'
    msg = ''
    try:
        with warnings.catch_warnings():
            warnings.simplefilter('ignore')
            func = functional(c['method']) if c.get('functional') and not c['two_d'] else None
            if func is not None:
                # the functional interface: pybaselines.<module>.<method>(data, x_data=..., ...)
                res = func(data, **kw, **ctor)
            else:
                fitter = (Baseline2D if c['two_d'] else Baseline)(**ctor)
                if c.get('solver'):
                    fitter.banded_solver = c['solver']     # public configuration: which banded solver is used
                for step in c.get('history') or ():
                    # earlier, REJECTED calls on the same object
                    try:
                        if step == 'badlen':
                            getattr(fitter, c['method'])(bad_data, **kw)
                        elif step == 'badarg':
                            getattr(fitter, c['method'])(data, **dict(kw, no_such_option=1))
                        elif step == 'inject':
                            und = _inject(1)
                            try:
                                getattr(fitter, c['method'])(data, **kw)
                            finally:
                                und()
                    except Exception:   # noqa
                        pass
                res = getattr(fitter, c['method'])(data, **kw)
                if c.get('twice'):
                    res = getattr(fitter, c['method'])(data, **kw)
    except Exception as exc:  # noqa
        outcome = type(exc).__name__
        msg = str(exc)[:200]
    finally:
        if undo:
            undo()
    problems = []
    for k, v in owned.items():
        after = snap(v)
        if after != before[k]:
            problems.append((k, diff_path(before[k], after, k)))
        elif _ids(v) != ids[k]:
            problems.append((k, f'{k}: objects inside the container were replaced'))
    return outcome, msg, problems


def _ids(obj):
    """the STRUCTURE of caller-owned containers: type, length and the identity of every mutable element, recursively
    (a list that grows, an element that is replaced by an equal copy, a nested dict that is swapped)"""
    if isinstance(obj, dict):
        return ('d', id(obj), [(repr(k), _ids(v)) for k, v in obj.items()])
    if isinstance(obj, (list, tuple)):
        if len(obj) > 64 and all(isinstance(v, (float, int)) for v in obj):
            return (type(obj).__name__, id(obj) if isinstance(obj, list) else None, len(obj))
        return (type(obj).__name__, id(obj) if isinstance(obj, list) else None, [_ids(v) for v in obj])
    if isinstance(obj, (set, bytearray)):
        return (type(obj).__name__, id(obj), len(obj))
    if isinstance(obj, np.ndarray):
        return ('a', id(obj))
    return None


def writable_twin(c):
    """The same case with every read-only layout replaced by its writable contiguous twin."""
    t = copy.deepcopy(c)
    if t['data'] == 'ro':
        t['data'] = 'c'
    if t['xlay'] == 'ro':
        t['xlay'] = 'c'
    for k, v in list(t['args'].items()):
        if v == 'ro':
            t['args'][k] = 'c'
    return t


def has_ro(c):
    return c['data'] == 'ro' or c['xlay'] == 'ro' or 'ro' in c['args'].values()


def check_case(ctx, c, kind):
    """Runs one case with the direct oracle; reports violations.  Returns (outcome, nproblems)."""
    outcome, msg, problems = call(c)
    argkey = ','.join(sorted(p.split('[')[0] for p, _ in problems))
    dim = '2d' if c['two_d'] else '1d'
    ctx.case(('oracle', repr(sorted(c.items(), key=str))), nontrivial=bool(c['args']) or c['data'] != 'c' or c['x'] != 'sorted' or bool(c.get('extra'))
             or bool(c.get('solver')) or c.get('ykind', 'peaks') != 'peaks' or bool(c.get('functional'))
             or bool(c.get('forms')) or bool(c.get('history')) or bool(c.get('mk_extra')),
             kind=f'{kind}:{"raises" if outcome != "ok" else "returns"}')
    if problems:
        ctx.fail(f'mutated:{dim}:{c["method"]}:{argkey}',
                 f'{"Baseline2D" if c["two_d"] else "Baseline"}.{c["method"]} changed a caller-owned object '
                 f'({"; ".join(d for _, d in problems[:3])}); call {"raised " + outcome if outcome != "ok" else "returned"}',
                 c)
    elif has_ro(c) and outcome != 'ok':
        # a write into a read-only input shows up as an exception, not as changed bytes
        t_out, t_msg, t_prob = call(writable_twin(c))
        if t_out == 'ok' or ('read-only' in msg or 'readonly' in msg.lower()):
            ctx.fail(f'readonly-raise:{dim}:{c["method"]}',
                     f'{"Baseline2D" if c["two_d"] else "Baseline"}.{c["method"]} raises {outcome} ({msg[:120]}) only because an '
                     f'input is read-only (the same call with writable inputs {"returns" if t_out == "ok" else "raises " + t_out}): it writes into caller-owned memory',
                     c)
            return outcome, 1
    return outcome, len(problems)


# ------------------------------------------------------------------------------------------------
# correspondence: the alias model (evaluated inside Coq) against np.shares_memory at the setup boundaries
SETUP_KINDS = (('Whittaker', '_setup_whittaker'), ('Polynomial', '_setup_polynomial'),
               ('Spline', '_setup_spline'), ('Classification', '_setup_classification'))

HEADER = """From Coq Require Import List Bool Arith String.
From PB Require Import lib.CaseUtil C13.Model.
Import ListNotations.
"""


def patch_setups(rec):
    from pybaselines import _algorithm_setup as a1
    from pybaselines.two_d import _algorithm_setup as a2
    saved = []
    for cls, two_d in ((a1._Algorithm, False), (a2._Algorithm2D, True)):
        for kind, name in SETUP_KINDS:
            orig = getattr(cls, name)

            def make(orig, kind, two_d):
                sig = inspect.signature(orig)

                def wrapped(self, y, *a, **k):
                    res = orig(self, y, *a, **k)
                    b = sig.bind(self, y, *a, **k)
                    b.apply_defaults()
                    rv = bool(two_d and kind == 'Whittaker' and len(res) > 2 and not getattr(res[2], '_using_svd', True))
                    rec.append(dict(two_d=two_d, kind=kind, y_in=y, weights=b.arguments.get('weights'),
                                    cw=bool(b.arguments.get('copy_weights', False)),
                                    no_order=self._sort_order is None, y_out=res[0], w_out=res[1], ravel=rv))
                    return res
                return wrapped
            setattr(cls, name, make(orig, kind, two_d))
            saved.append((cls, name, orig))
        orig_opt = cls._setup_optimizer

        def make_opt(orig_opt, two_d):
            sig = inspect.signature(orig_opt)

            def wrapped(self, y, *a, **k):
                res = orig_opt(self, y, *a, **k)
                b = sig.bind(self, y, *a, **k)
                b.apply_defaults()
                rec.append(dict(two_d=two_d, kind='Optimizer', y_in=y, kwargs_in=b.arguments.get('method_kwargs'),
                                ck=bool(b.arguments.get('copy_kwargs', True)), kwargs_out=res[3],
                                no_order=self._sort_order is None))
                return res
            return wrapped
        cls._setup_optimizer = make_opt(orig_opt, two_d)
        saved.append((cls, '_setup_optimizer', orig_opt))

    def undo():
        for cls, name, orig in saved:
            setattr(cls, name, orig)
    return undo


def inp_flags(obj, two_d):
    """(kind, dtype, shape, contiguous) of a caller object, as the model's `inp`."""
    if obj is None:
        return ('KNone', 'F64', 'S1', True)
    if not isinstance(obj, np.ndarray):
        a = np.asarray(obj)
        kind = 'KList'
    else:
        a = obj
        kind = 'KNd'
    dt = 'F64' if a.dtype == np.float64 else ('B8' if a.dtype == np.bool_ else 'OtherDt')
    if two_d:
        shp = 'S3' if a.ndim == 3 else 'S2'
    else:
        shp = 'S1' if a.ndim == 1 else 'SVec2'
    return (kind, dt, shp, bool(a.flags.c_contiguous))


def coq_inp(f):
    return f'{{| i_kind := {f[0]}; i_dt := {f[1]}; i_shape := {f[2]}; i_contig := {coqbool(f[3])} |}}'


def shares(user, arr):
    if not isinstance(user, np.ndarray) or not isinstance(arr, np.ndarray):
        return False
    return bool(np.shares_memory(user, arr))


WEIGHT_METHODS_1D = ['asls', 'airpls', 'arpls', 'drpls', 'iarpls', 'aspls', 'psalsa', 'derpsalsa', 'brpls', 'lsrpls',
                     'iasls', 'poly', 'modpoly', 'imodpoly', 'penalized_poly', 'quant_reg', 'goldindec', 'loess',
                     'pspline_asls', 'pspline_arpls', 'mixture_model', 'irsqr', 'pspline_airpls', 'golotvin',
                     'dietrich', 'std_distribution', 'fastchrom', 'fabc', 'rubberband', 'mpls', 'pspline_mpls']
WEIGHT_METHODS_2D = ['asls', 'arpls', 'airpls', 'poly', 'modpoly', 'imodpoly', 'penalized_poly', 'quant_reg',
                     'pspline_asls', 'pspline_arpls', 'mixture_model', 'irsqr', 'iasls', 'psalsa']


def correspondence(ctx):
    rng = ctx.rng
    rec = []
    undo = patch_setups(rec)
    wcases, ycases, kcases = set(), set(), set()
    nontriv = 0
    try:
        setup_grid(ctx, wcases)
        plan = []
        for two_d, names in ((False, WEIGHT_METHODS_1D), (True, WEIGHT_METHODS_2D)):
            for name in names:
                for rep in range(ctx.n(8, 30)):
                    plan.append((two_d, name))
        for two_d, name in plan:
            c = build_case(rng, two_d, name, 'layout')
            c['raise_at'] = None
            c['extra'] = {}
            c['args'] = {k: v for k, v in c['args'].items() if k in ('weights',)}
            if rng.random() < 0.85:
                pool = ['c', 'strided', 'list', 'int', 'f32', 'bool'] + ([] if two_d else ['col', 'row', 'colstrided', 'neg', 'boolstrided'])
                if two_d:
                    pool += ['f', 'mn1']
                c['args']['weights'] = rng.choice(pool)
            c['x'] = rng.choice(['sorted', 'unsorted', 'none'])
            c['xlay'] = 'c'
            try:
                ctor, kw, data = materialise(c)
            except Exception:   # noqa
                continue
            if 'weights' in kw and c['args'].get('weights') in ('f', 'mn1'):
                w = np.asarray(kw['weights'], dtype=float)
                kw['weights'] = np.asfortranarray(w) if c['args']['weights'] == 'f' else w.reshape(w.shape + (1,))
            del rec[:]
            from pybaselines import Baseline, Baseline2D
            try:
                with warnings.catch_warnings():
                    warnings.simplefilter('ignore')
                    fitter = (Baseline2D if two_d else Baseline)(**ctor)
                    getattr(fitter, name)(data, **kw)
            except Exception:   # noqa
                pass
            first = [r for r in rec if r['kind'] != 'Optimizer'][:1]
            for r in first:
                uw = kw.get('weights')
                if r['weights'] is uw:
                    fl = inp_flags(uw, two_d)
                    obs = shares(uw, r['w_out'])
                    wcases.add((two_d, r['ravel'], r['kind'], r['cw'], r['no_order'], fl, obs))
                    nontriv += obs
                    ctx.case(('w', name, two_d, r['cw'], r['no_order'], fl), nontrivial=uw is not None, kind=f'alias-weights:{r["kind"]}')
                fl = inp_flags(data, two_d)
                obs = shares(data, r['y_in'])
                ycases.add((two_d, False, r['no_order'], fl, obs))
                ctx.case(('y', name, two_d, r['no_order'], fl), nontrivial=True, kind='alias-data')
        # optimizers: the dict handed to the body
        for two_d, name, given in [(False, 'collab_pls', True), (False, 'collab_pls', False), (False, 'adaptive_minmax', True),
                                   (False, 'optimize_extended_range', True), (False, 'custom_bc', True),
                                   (True, 'collab_pls', True), (True, 'adaptive_minmax', True), (True, 'individual_axes', True),
                                   (True, 'adaptive_minmax', False)]:
            c = build_case(rng, two_d, name, 'base')
            c['args'] = {'method_kwargs': 'plain'} if given else {}
            ctor, kw, data = materialise(c)
            if not given:
                kw.pop('method_kwargs', None)
            del rec[:]
            from pybaselines import Baseline, Baseline2D
            try:
                with warnings.catch_warnings():
                    warnings.simplefilter('ignore')
                    getattr((Baseline2D if two_d else Baseline)(**ctor), name)(data, **kw)
            except Exception:   # noqa
                pass
            for r in [r for r in rec if r['kind'] == 'Optimizer'][:1]:
                same = r['kwargs_out'] is kw.get('method_kwargs') and kw.get('method_kwargs') is not None
                kcases.add((r['ck'], kw.get('method_kwargs') is not None, bool(same)))
                ctx.case(('kw', name, two_d, given), nontrivial=True, kind='alias-kwargs')
    finally:
        undo()
    lits_w = [f'({coqbool(t)}, {coqbool(rv)}, {k}, {coqbool(cw)}, {coqbool(no)}, {coq_inp(fl)}, {coqbool(obs)})'
              for (t, rv, k, cw, no, fl, obs) in sorted(wcases, key=str)]
    lits_y = [f'({coqbool(t)}, {coqbool(sk)}, {coqbool(no)}, {coq_inp(fl)}, {coqbool(obs)})'
              for (t, sk, no, fl, obs) in sorted(ycases, key=str)]
    lits_k = [f'({coqbool(ck)}, {coqbool(g)}, {coqbool(same)})' for (ck, g, same) in sorted(kcases, key=str)]
    ctx.sample({'kind': 'alias-case', 'weights_cases': len(lits_w), 'data_cases': len(lits_y), 'kwargs_cases': len(lits_k),
                'aliasing_observed': nontriv})
    nl = chr(10)
    text = HEADER + f"""
Definition wcases : list (bool * bool * setup * bool * bool * inp * bool) := [
{(';' + nl).join('  ' + l for l in lits_w)}
].
Definition ok_w (c : bool * bool * setup * bool * bool * inp * bool) : bool :=
  let '(two_d, rv, k, cw, no, i, obs) := c in
  Bool.eqb (aliases 0 (fst (setup_weights two_d rv k cw no (user_obj 0 i) first_fresh))) obs.
Eval vm_compute in (bad ok_w wcases).
Definition ycases : list (bool * bool * bool * inp * bool) := [
{(';' + nl).join('  ' + l for l in lits_y)}
].
Definition ok_y (c : bool * bool * bool * inp * bool) : bool :=
  let '(two_d, skip, no, i, obs) := c in
  Bool.eqb (aliases 0 (fst (wrapper_y two_d skip no (user_obj 0 i) first_fresh))) obs.
Eval vm_compute in (bad ok_y ycases).
Definition kcases : list (bool * bool * bool) := [
{(';' + nl).join('  ' + l for l in lits_k)}
].
Definition ok_k (c : bool * bool * bool) : bool :=
  let '(ck, given, same) := c in
  Bool.eqb (Nat.eqb (d_buf (fst (setup_kwargs ck (if given then Some {{| d_buf := 0; d_own := User; d_vals := [] |}} else None) first_fresh))) 0 && given) same.
Eval vm_compute in (bad ok_k kcases).
"""
    vals = ctx.coq_eval('alias', text)
    names = ['correspondence:setup-weights-aliasing(np.shares_memory)', 'correspondence:wrapper-data-aliasing(np.shares_memory)',
             'correspondence:_setup_optimizer-dict-identity']
    ctx.obligations += names
    if vals is None or len(vals) != 3:
        ctx.broke('correspondence:alias', f'could not evaluate the alias model: {vals}')
        return
    for nm, v, cases in zip(names, vals, (sorted(wcases, key=str), sorted(ycases, key=str), sorted(kcases, key=str))):
        if v.startswith('(0%nat, [])') or v.startswith('(0, [])'):
            ctx.discharged.append(nm)
        else:
            import re
            idx = [int(t) for t in re.findall(r'\d+', v.split(',', 1)[1])][:3]
            ctx.broke(nm, f'alias model and np.shares_memory disagree: {v}; first cases: {[cases[i] for i in idx if i < len(cases)]}')
    ctx.traces += len(lits_w) + len(lits_y) + len(lits_k)


# ------------------------------------------------------------------------------------------------
# the search
SEQ_PARAM_CASES = [
    # scalar-or-sequence parameters handed over as integer / float arrays
    (False, 'snip', {'max_half_window': ('int', [100, 7])}),
    (False, 'snip', {'max_half_window': ('int', [5, 6])}),
    (False, 'adaptive_minmax', {'poly_order': ('int', [2, 3])}),
    (False, 'adaptive_minmax', {'poly_order': ('int', [2])}),
    (False, 'adaptive_minmax', {'constrained_fraction': ('float', [0.05, 0.1]), 'constrained_weight': ('float', [1e4, 1e5])}),
    (True, 'adaptive_minmax', {'poly_order': ('int', [2, 3])}),
    (False, 'jbcd', {'beta': ('float0', 10.0), 'gamma': ('float0', 1.0), 'half_window': ('int0', 4)}),
    (False, 'mor', {'half_window': ('int0', 4)}),
    (False, 'asls', {'lam': ('float0', 1e3), 'p': ('float0', 0.05)}),
    (False, 'modpoly', {'poly_order': ('int0', 2)}),
    (False, 'loess', {'total_points': ('int0', 9)}),
    (False, 'swima', {'max_half_window': ('int0', 6), 'min_half_window': ('int0', 2)}),
    (True, 'noise_median', {'half_window': ('int', [2, 3])}),
    (True, 'rolling_ball', {'half_window': ('int', [2, 3])}),
    (False, 'noise_median', {'half_window': ('int0', 3), 'smooth_half_window': ('int0', 2)}),
    (False, 'cwt_br', {'scales': ('int', [2, 3, 4])}),
    (False, 'custom_bc', {'regions': ('int2', [[3, 9], [20, 26]]), 'sampling': ('int', [1, 2])}),
    (False, 'custom_bc', {'regions': ('obj', [[None, 9], [20, None]])}),
    (False, 'custom_bc', {'regions': ('obj', [30, None])}),
    (False, 'custom_bc', {'regions': ('obj', [[None, None]])}),
    (False, 'custom_bc', {'regions': ('obj', [[20, None], [None, 9]])}),
    (False, 'custom_bc', {'regions': ('obj', [[None, 9], [20, None]]), 'sampling': ('obj', [2, 3])}),
    (False, 'golotvin', {'sections': ('obj', [4, None])}),
    (False, 'corner_cutting', {'max_iter': ('obj', [5, None])}),
    (True, 'noise_median', {'half_window': ('obj', [2, None])}),
    (True, 'poly', {'poly_order': ('obj', [2, None])}),
    (True, 'asls', {'lam': ('obj', [100.0, None])}),
]


def seq_param_cases(ctx):
    from pybaselines import Baseline, Baseline2D
    for two_d, name, spec in SEQ_PARAM_CASES:
        rs = np.random.RandomState(7)
        if two_d:
            x, z, y = M.make_z2d(rs, 11, 12)
            ctor = {'x_data': x, 'z_data': z}
        else:
            x = M.make_x(rs, 41)
            y = M.make_y(rs, x)
            ctor = {'x_data': x}
        kw = M.call_kwargs(name, two_d)
        for k, (ty, val) in spec.items():
            kw[k] = np.array(val, dtype=object) if ty == 'obj' else np.array(val, dtype=np.int64 if ty.startswith('int') else float)
        before = {k: snap(v) for k, v in kw.items()}
        outcome = 'ok'
        try:
            with warnings.catch_warnings():
                warnings.simplefilter('ignore')
                getattr((Baseline2D if two_d else Baseline)(**ctor), name)(y, **kw)
        except Exception as exc:   # noqa
            outcome = type(exc).__name__
        ctx.case(('seqparam', two_d, name, repr(spec)), nontrivial=True, kind=f'oracle:array-valued-parameter:{"raises" if outcome != "ok" else "returns"}')
        for k, v in kw.items():
            d = diff_path(before[k], snap(v), 'arg.' + k)
            if d:
                ctx.fail(f'mutated:{"2d" if two_d else "1d"}:{name}:arg.{k}',
                         f'{"Baseline2D" if two_d else "Baseline"}.{name} changed the caller\'s array given for `{k}` ({d})',
                         {'kind': 'seqparam', 'two_d': two_d, 'method': name, 'spec': {a: list(b) for a, b in spec.items()}})


# ------------------------------------------------------------------------------------------------
# fixed, enumerated grids (run first; random draws only on top)
W_FORMS_1D = ('c', 'strided', 'neg', 'col', 'row', 'colstrided', 'subclass', 'subcol', 'masked', 'list', 'int', 'f32',
              'bool', 'boolstrided', 'boolcol', 'ro', 'tinyw', 'hugew')
W_FORMS_2D = ('c', 'f', 'T', 'neg2', 'strided', 'mn1', 'subclass', 'masked', 'list', 'int', 'f32', 'bool', 'ro', 'tinyw', 'hugew')
# options that make a body write into / re-use its weight array
W_WRITE_OPTS = ({}, {'mask_initial_peaks': True}, {'weights_as_mask': True}, {'use_original': True})


def weight_grid_cases():
    """every method that accepts weights x every weight form (all no-copy forms: contiguous, strided, negative stride,
    (N,1), (1,N), non-contiguous column, ndarray subclass, masked array, bool; and the copying ones) x x sorted /
    absent / unsorted, on data with peaks, plus the options that make the body write into its weights"""
    cases = []
    for two_d in (False, True):
        forms = W_FORMS_2D if two_d else W_FORMS_1D
        for mi, name in enumerate(M.method_names(two_d)):
            params = sig_params(name, two_d)
            if 'weights' not in params:
                continue
            for fi, form in enumerate(forms):
                if form in ('bool', 'boolstrided', 'boolcol') and name not in CLASSIFICATION and fi % 3:
                    continue
                for xi, xmode in enumerate(('sorted', 'none', 'unsorted')):
                    if xmode == 'unsorted' and fi % 4:
                        continue      # the sorted copy hides the caller's array: sampled
                    for opts in W_WRITE_OPTS:
                        if any(k not in params for k in opts):
                            continue
                        c = {'two_d': two_d, 'method': name, 'seed': 1000 * mi + 7 * fi + xi, 'mode': 'wgrid',
                             'n': 40 if not two_d else 12, 'm': 11, 'data': 'c', 'x': xmode, 'xlay': 'c',
                             'args': {'weights': form}, 'raise_at': None, 'extra': dict(opts), 'ykind': 'peaks', 'optsel': 0}
                        if name in ('aspls', 'pspline_aspls'):
                            c['args']['alpha'] = form if form in ('c', 'strided', 'neg', 'col', 'row', 'subclass', 'f', 'mn1') else 'c'
                        cases.append(c)
    return cases


def param_grid_cases():
    """every method x every one-at-a-time option value of the catalogue (non-default features switched on) x every
    banded-solver setting, on contiguous float64 data (the form the body receives as a view of the caller's array)
    with sorted x, and without x for the default solver"""
    cases = []
    for two_d in (False, True):
        for mi, name in enumerate(M.method_names(two_d)):
            variants = [{}] + [v for v in M.param_variants(name, two_d)
                               if not (two_d and list(v)[0] == 'half_window' and v['half_window'] > 15)
                               and not isinstance(list(v.values())[0], tuple)]
            for vi, var in enumerate(variants):
                for solver, xmode in ((None, 'sorted'), (3, 'sorted'), (4, 'sorted'), (1, 'sorted'), (None, 'none')):
                    if (two_d and solver in (1, 3)) or (solver == 1 and vi) or (solver == 4 and vi and not two_d):
                        continue
                    c = {'two_d': two_d, 'method': name, 'seed': 5000 + 100 * mi + vi, 'mode': 'pgrid',
                         'n': 40 if not two_d else 12, 'm': 11, 'data': 'c', 'x': xmode, 'xlay': 'c', 'args': {},
                         'raise_at': None, 'extra': dict(var), 'ykind': 'peaks', 'optsel': 0, 'solver': solver}
                    if name == 'interp_pts':
                        c['args'] = {'baseline_points': 'c'}
                    cases.append(c)
    return cases


def branch_grid_cases():
    """every method x every data kind (peak-free, polynomial, constant, zero, blank, step, spikes, all-peaks, negative) with
    default options; and, for the methods with data-dependent early returns, every extreme option value one at a time on
    polynomial / blank / peak data; contiguous float64 data, sorted x"""
    cases = []
    kinds = [k for k in dict.fromkeys(Y_KINDS) if k != 'peaks']
    for two_d in (False, True):
        for mi, name in enumerate(M.method_names(two_d)):
            params = sig_params(name, two_d)
            base = {'two_d': two_d, 'method': name, 'mode': 'bgrid', 'n': 40 if not two_d else 12, 'm': 11, 'data': 'c',
                    'x': 'sorted', 'xlay': 'c', 'raise_at': None, 'optsel': 0, 'solver': None}
            args = {'baseline_points': 'c'} if name == 'interp_pts' else {}
            for ki, kind in enumerate(kinds):
                cases.append(dict(base, seed=9000 + 50 * mi + ki, args=dict(args), extra={}, ykind=kind))
            if name in BRANCHY_METHODS and not two_d:
                for p in ('num_std', 'threshold', 'min_length', 'max_iter', 'max_iter_2', 'tol', 'interp_half_window',
                          'smooth_half_window', 'sections', 'min_fwhm', 'mask_initial_peaks', 'use_original', 'weights_as_mask'):
                    if p not in params:
                        continue
                    for vi, v in enumerate(BRANCH_VALUES[p]):
                        for ki, kind in enumerate(('quad', 'blank', 'peaks')):
                            cases.append(dict(base, seed=9500 + 50 * mi + 3 * vi + ki, args=dict(args), extra={p: v}, ykind=kind))
    return cases


def nested_grid_cases():
    """every method with a dict-valued keyword x every array-valued variant of the documented nested options (in-range,
    boundary, out-of-range; no-copy dtypes), directly and nested inside method_kwargs for the optimizers"""
    cases = []
    for two_d in (False, True):
        for mi, name in enumerate(M.method_names(two_d)):
            params = sig_params(name, two_d)
            base = {'two_d': two_d, 'method': name, 'mode': 'ngrid', 'n': 40 if not two_d else 12, 'm': 11, 'data': 'c',
                    'x': 'sorted', 'xlay': 'c', 'raise_at': None, 'optsel': 0, 'solver': None, 'ykind': 'peaks', 'extra': {}}
            if 'pad_kwargs' in params:
                for k in range(8 if two_d else 12):
                    cases.append(dict(base, seed=12000 + 20 * mi + k, args={'pad_kwargs': 'arrays'}, padsel=k))
            if 'window_kwargs' in params:
                for k in range(5):
                    cases.append(dict(base, seed=12500 + 20 * mi + k, args={'window_kwargs': 'arrays'}, winsel=k))
            if 'method_kwargs' in params:
                inners = [None] + (INNER_ALT_2D if two_d else INNER_ALT_1D).get(name, [])
                for ii, inner in enumerate(inners):
                    for k in range(0, 12, 1 if ii < 3 else 4):
                        extra = {} if inner is None else {'method': inner}
                        cases.append(dict(base, seed=13000 + 40 * mi + 13 * ii + k, args={'method_kwargs': 'nested'},
                                          padsel=k, winsel=k % 5, extra=extra))
    return cases


def form_grid_cases():
    """every method x every scalar / dict / tuple valued parameter x every container form (scalar, 1-tuple, list of one,
    list of two, 2-tuple, ndarray of one / two, empty list): sequence-or-scalar and per-axis parameters in all the ways a
    caller may write them (most combinations are rejected up front; the arguments must be unchanged either way)"""
    cases = []
    for two_d in (False, True):
        for mi, name in enumerate(M.method_names(two_d)):
            params = sig_params(name, two_d)
            kw0 = M.call_kwargs(name, two_d)
            for pi, (p, par) in enumerate(params.items()):
                if p in ('self', 'data', 'weights', 'alpha', 'baseline_points', 'method', 'kwargs') or par.kind == par.VAR_KEYWORD:
                    continue
                base = kw0.get(p, par.default if par.default is not inspect.Parameter.empty else None)
                if base is None:
                    base = (M.PARAM_VALUES.get(p) or [None])[0]
                    if p in ('method_kwargs', 'pad_kwargs', 'window_kwargs'):
                        base = {}
                for fi, form in enumerate(CONTAINER_FORMS):
                    if apply_form(base, form) is NO_FORM:
                        continue
                    c = {'two_d': two_d, 'method': name, 'seed': 20000 + 30 * mi + pi, 'mode': 'fgrid',
                         'n': 40 if not two_d else 12, 'm': 11, 'data': 'c', 'x': 'sorted', 'xlay': 'c', 'args': {},
                         'raise_at': None, 'extra': {}, 'ykind': 'peaks', 'optsel': 0, 'solver': None, 'forms': {p: form}}
                    if name == 'interp_pts':
                        c['args'] = {'baseline_points': 'c'}
                    cases.append(c)
                    if name == 'individual_axes' and p == 'method_kwargs':
                        for ax in (0, 1, [1, 0], (0, 1), [0], np.int64(1)):
                            c2 = dict(c, extra={'axes': ax if not isinstance(ax, np.integer) else int(ax)})
                            cases.append(c2)
    return cases


def reserved_key_grid_cases():
    """every optimizer x inner method x method_kwargs holding ONE extra key that collides with an argument the optimizer
    passes itself, is reserved, belongs to the optimizer's own signature, or is unknown -- with array and scalar values.
    Most of these calls are rejected (TypeError / KeyError); the caller's dict and arrays must be unchanged either way."""
    from pybaselines import Baseline, Baseline2D
    cases = []
    for two_d in (False, True):
        for mi, name in enumerate(M.method_names(two_d)):
            params = sig_params(name, two_d)
            if 'method_kwargs' not in params:
                continue
            inners = [None] + (INNER_ALT_2D if two_d else INNER_ALT_1D).get(name, [])[:3]
            for ii, inner in enumerate(inners):
                iname = inner or params['method'].default
                icls = Baseline if (not two_d or name == 'individual_axes') else Baseline2D
                ipars = list(inspect.signature(getattr(icls, iname)).parameters) if hasattr(icls, iname) else []
                keys = list(dict.fromkeys(
                    [k for k in ipars if k not in ('self', 'data')] + [k for k in params if k not in ('self', 'data')]
                    + ['x_data', 'z_data', 'data', 'weights', 'alpha', 'poly_order', 'lam', 'tol', 'tol_2', 'no_such_option']))
                for ki, key in enumerate(keys):
                    for vk in ('arr', 'arr_int', 'scalar'):
                        if vk == 'arr_int' and key in ('weights', 'alpha', 'data', 'x_data', 'z_data'):
                            continue
                        extra = {} if inner is None else {'method': inner}
                        cases.append({'two_d': two_d, 'method': name, 'seed': 40000 + 200 * mi + 50 * ii + ki, 'mode': 'rgrid',
                                      'n': 40 if not two_d else 12, 'm': 11, 'data': 'c', 'x': 'sorted', 'xlay': 'c',
                                      'args': {'method_kwargs': 'plain'}, 'raise_at': None, 'extra': extra, 'ykind': 'peaks',
                                      'optsel': 0, 'solver': None, 'mk_extra': {key: vk}})
    return cases


def history_grid_cases():
    """every method on an object with a HISTORY: a call rejected up front (data of the wrong length), a call that fails deep
    inside (injected failure of the convergence measure), then the valid call; all arguments of all three calls are
    snapshotted"""
    cases = []
    for two_d in (False, True):
        for mi, name in enumerate(M.method_names(two_d)):
            params = sig_params(name, two_d)
            c = {'two_d': two_d, 'method': name, 'seed': 30000 + mi, 'mode': 'hgrid', 'n': 40 if not two_d else 12, 'm': 11,
                 'data': 'c', 'x': 'sorted', 'xlay': 'c', 'args': {}, 'raise_at': None, 'extra': {}, 'ykind': 'peaks',
                 'optsel': 0, 'solver': None, 'history': ['badlen', 'inject', 'badarg']}
            if 'weights' in params:
                c['args']['weights'] = 'c'
            if name == 'interp_pts':
                c['args']['baseline_points'] = 'c'
            cases.append(c)
    return cases


def setup_grid(ctx, wcases):
    """the setup boundary itself, enumerated: every _setup_* entry (1-D and 2-D) x copy_weights x x sorted/unsorted x
    every weight form, called directly on a fitter object; observed np.shares_memory against the caller's weights"""
    from pybaselines import Baseline, Baseline2D
    rs = np.random.RandomState(3)
    for two_d in (False, True):
        if two_d:
            x, z, y = M.make_z2d(rs, 9, 10)
            shape = (9, 10)
        else:
            x = M.make_x(rs, 24)
            y = M.make_y(rs, x)
            shape = (24,)
        for unsorted in (False, True):
            if two_d:
                px = rs.permutation(9) if unsorted else np.arange(9)
                ctor = {'x_data': x[px], 'z_data': z}
            else:
                px = rs.permutation(24) if unsorted else np.arange(24)
                ctor = {'x_data': x[px]}
            for kind, sname in SETUP_KINDS:
                for cw in (False, True):
                    if kind == 'Classification' and cw:
                        continue
                    for form in ((None,) + (W_FORMS_2D if two_d else W_FORMS_1D)):
                        wv = 0.2 + 0.8 * rs.random_sample(shape)
                        if form is None:
                            w = None
                        elif form.startswith('bool'):
                            w = (lay2 if two_d else lay1)(np.where(wv > 0.3, 1.0, -1.0), form if not two_d or form == 'bool' else 'bool')
                        elif form == 'int':
                            w = (lay2 if two_d else lay1)(1 + np.round(2 * wv), 'int')
                        elif form in ('tinyw', 'hugew'):
                            w = (lay2 if two_d else lay1)(wv * (1e-300 if form == 'tinyw' else 1e300), 'c')
                        else:
                            w = (lay2 if two_d else lay1)(wv, form)
                        fitter = (Baseline2D if two_d else Baseline)(**ctor)
                        yy = np.array(y, dtype=float)
                        kwargs = {'weights': w}
                        if kind != 'Classification':
                            kwargs['copy_weights'] = cw
                        if kind == 'Polynomial':
                            kwargs.update(calc_vander=True, calc_pinv=True)
                        try:
                            with warnings.catch_warnings():
                                warnings.simplefilter('ignore')
                                res = getattr(fitter, sname)(yy, **kwargs)
                        except Exception:   # noqa
                            ctx.case(('setup-grid', two_d, kind, cw, unsorted, form), nontrivial=False, kind='alias-grid:raises')
                            continue
                        rv = bool(two_d and kind == 'Whittaker' and len(res) > 2 and not getattr(res[2], '_using_svd', True))
                        fl = inp_flags(w, two_d)
                        obs = shares(w, res[1])
                        wcases.add((two_d, rv, kind, cw, fitter._sort_order is None, fl, obs))
                        ctx.case(('setup-grid', two_d, kind, cw, unsorted, form), nontrivial=w is not None,
                                 kind=f'alias-grid:{kind}')


def utils_call_list():
    """(description, function name, positional args, keyword args) for the public functions of pybaselines.utils (and the
    padding helper behind them), every array-like argument given as an ndarray in the dtype the function converts to (no copy)
    as well as in copying dtypes / lists, with in-range, boundary and out-of-range values.  Deterministic."""
    rs = np.random.RandomState(11)
    calls = []
    for n in (9, 40):
        x = np.linspace(0.0, 10.0, n)
        y = 5 + np.sin(x) + 0.1 * rs.standard_normal(n)
        big = 10 * n
        for lay in ('c', 'strided'):
            yy = lambda: lay1(y, lay)     # noqa
            ews = [np.array([3, 4], dtype=np.int64), np.array([n + 5, 2], dtype=np.int64), np.array([2, big], dtype=np.int64),
                   np.array([big, big], dtype=np.int64), np.array([n, n], dtype=np.int64), np.array([1, 1], dtype=np.int64),
                   np.array(big, dtype=np.int64), np.array([3.0, 4.0]), np.array([3, 4], dtype=np.int32), [3, big], None]
            for ew in ews:
                for pl in (3, np.int64(2), np.array(4, dtype=np.int64), 0):
                    calls.append((f'pad_edges n={n} {lay}', 'pad_edges', [yy(), pl], {'mode': 'extrapolate', 'extrapolate_window': ew}))
                calls.append((f'_get_edges n={n} {lay}', '_get_edges', [yy(), 3], {'extrapolate_window': ew}))
                calls.append((f'padded_convolve n={n} {lay}', 'padded_convolve', [yy(), np.array([0.25, 0.5, 0.25])],
                              {'mode': 'extrapolate', 'extrapolate_window': ew}))
            calls.append((f'pad_edges constant n={n}', 'pad_edges', [yy(), 3], {'mode': 'constant', 'constant_values': np.array([1.0, 2.0])}))
            calls.append((f'pad_edges ramp n={n}', 'pad_edges', [yy(), np.array(3)], {'mode': 'linear_ramp', 'end_values': np.array([1.0, 2.0])}))
            calls.append((f'padded_convolve reflect n={n}', 'padded_convolve', [yy(), np.ones(5) / 5], {}))
            for kw in ({}, {'min_half_window': np.array(2, dtype=np.int64), 'max_half_window': np.array(big, dtype=np.int64)},
                       {'increment': np.array(2, dtype=np.int64), 'max_hits': np.array(1, dtype=np.int64), 'window_tol': np.array(1e-3)},
                       {'min_half_window': np.array(1, dtype=np.int64), 'max_half_window': np.array(3, dtype=np.int64)}):
                calls.append((f'optimize_window n={n} {lay}', 'optimize_window', [yy()], dict(kw)))
            for w in (None, lay1(0.2 + 0.8 * rs.random_sample(n), lay), lay1(np.ones(n), 'int'), [1.0] * n):
                calls.append((f'whittaker_smooth n={n} {lay}', 'whittaker_smooth', [yy()],
                              {'lam': np.array(10.0), 'diff_order': 2, 'weights': w}))
                calls.append((f'pspline_smooth n={n} {lay}', 'pspline_smooth', [yy()],
                              {'x_data': lay1(x, lay), 'lam': np.array([5.0]), 'num_knots': np.array(6, dtype=np.int64), 'weights': w}))
            calls.append((f'relative_difference n={n}', 'relative_difference', [yy(), lay1(y * 1.01, lay)], {}))
            calls.append((f'relative_difference zero n={n}', 'relative_difference', [lay1(np.zeros(n), lay), yy()], {'norm_order': 1}))
            calls.append((f'gaussian n={n}', 'gaussian', [lay1(x, lay)], {'height': np.array(2.0), 'center': np.array([5.0]), 'sigma': np.array(1.5)}))
        calls.append((f'gaussian_kernel n={n}', 'gaussian_kernel', [np.array(n, dtype=np.int64)], {'sigma': np.array(2.0)}))
        calls.append((f'difference_matrix n={n}', 'difference_matrix', [np.array(n, dtype=np.int64)], {'diff_order': np.array(2, dtype=np.int64)}))
    for (mm, nn) in ((7, 9), (12, 11)):
        xx, zz = np.linspace(0, 1, mm), np.linspace(2, 5, nn)
        y2 = 3 + xx[:, None] + zz[None, :] ** 2 + 0.05 * rs.standard_normal((mm, nn))
        big = 10 * max(mm, nn)
        for lay in ('c', 'strided', 'f'):
            for ew in (None, np.array([2, 3], dtype=np.int64), np.array([big, 2], dtype=np.int64), np.array([2, 3, big, 1], dtype=np.int64),
                       np.array(big, dtype=np.int64), np.array([1, 1], dtype=np.int64), [2, big]):
                for pl in (2, np.array([2, 3], dtype=np.int64), np.array(1, dtype=np.int64), [1, 2]):
                    calls.append((f'pad_edges2d {mm}x{nn} {lay}', 'pad_edges2d', [lay2(y2, lay), pl], {'mode': 'extrapolate', 'extrapolate_window': ew}))
            calls.append((f'pad_edges2d edge {mm}x{nn}', 'pad_edges2d', [lay2(y2, lay), np.array([2, 2], dtype=np.int64)], {}))
            calls.append((f'gaussian2d {mm}x{nn}', 'gaussian2d', [np.ascontiguousarray(np.broadcast_to(xx[:, None], (mm, nn))), np.ascontiguousarray(np.broadcast_to(zz[None, :], (mm, nn)))],
                          {'height': np.array(2.0), 'center_x': np.array(0.5), 'sigma_x': np.array(0.2), 'sigma_z': np.array(1.0), 'center_z': np.array(3.0)}))
            calls.append((f'optimize_window2d {mm}x{nn}', 'optimize_window', [lay2(y2, lay)], {'max_half_window': np.array(big, dtype=np.int64)}))
    # every call owns its own argument objects (an array shared between calls would hide a change after the first one)
    return [(d, f, a, copy.deepcopy(k)) for d, f, a, k in calls]


def utils_cases(ctx, only=None):
    """the public helper functions: byte-level snapshots of every argument (nested) before/after the call"""
    from pybaselines import utils
    calls = utils_call_list()
    for idx, (desc, fname, args, kw) in enumerate(calls):
        if only is not None and idx != only:
            continue
        func = getattr(utils, fname, None)
        if func is None:
            continue
        owned = {f'arg{i}': a for i, a in enumerate(args)}
        owned.update({'kw.' + k: v for k, v in kw.items()})
        owned['kwargs-dict'] = kw
        before = {k: snap(v) for k, v in owned.items()}
        outcome = 'ok'
        try:
            with warnings.catch_warnings():
                warnings.simplefilter('ignore')
                func(*args, **kw)
        except Exception as exc:   # noqa
            outcome = type(exc).__name__
        ctx.case(('utils', idx, desc), nontrivial=True, kind=f'oracle:utils:{fname}:{"raises" if outcome != "ok" else "returns"}')
        for k, v in owned.items():
            d = diff_path(before[k], snap(v), k)
            if d:
                ctx.fail(f'mutated:utils:{fname}:{k.split(".")[-1] if k.startswith("kw.") else k}',
                         f'pybaselines.utils.{fname} changed a caller-owned argument ({d}); case: {desc}, '
                         f'kwargs {({a: (b.tolist() if isinstance(b, np.ndarray) else b) for a, b in kw.items()})}; call '
                         f'{"raised " + outcome if outcome != "ok" else "returned"}',
                         {'kind': 'utils', 'idx': idx, 'desc': desc, 'function': fname})
                break


def search(ctx, budget):
    rng = ctx.rng
    modes = ['base', 'layout', 'layout', 'raise', 'param', 'branch', 'branch']
    reps = budget
    n0 = len(ctx.violations) + len(ctx.known_hit)
    # fixed, enumerated grids first
    for kind, cases in (('oracle:weight-grid', weight_grid_cases()), ('oracle:option-solver-grid', param_grid_cases()),
                        ('oracle:branch-grid', branch_grid_cases()), ('oracle:nested-option-grid', nested_grid_cases()),
                        ('oracle:container-form-grid', form_grid_cases()), ('oracle:history-grid', history_grid_cases()),
                        ('oracle:reserved-key-grid', reserved_key_grid_cases())):
        for c in cases:
            try:
                check_case(ctx, c, kind)
            except Exception as exc:   # noqa
                ctx.note(f'oracle harness error on {c["method"]}: {type(exc).__name__}: {exc}')
    seq_param_cases(ctx)
    utils_cases(ctx)
    for two_d in (False, True):
        for name in M.method_names(two_d):
            for mode in modes:
                for _ in range(reps):
                    c = build_case(rng, two_d, name, mode)
                    try:
                        check_case(ctx, c, f'oracle:{mode}')
                    except Exception as exc:   # noqa
                        ctx.note(f'oracle harness error on {name}: {type(exc).__name__}: {exc}')
                    if len(ctx.samples) < 4 and mode == 'layout':
                        ctx.sample({k: c[k] for k in ('two_d', 'method', 'data', 'x', 'xlay', 'args', 'raise_at')})
            # methods with data-dependent early returns / many branches: more branch cases
            if name in BRANCHY_METHODS:
                for _ in range((6 if name in CLASSIFICATION else 3) * reps):
                    c = build_case(rng, two_d, name, 'branch')
                    try:
                        check_case(ctx, c, 'oracle:branch')
                    except Exception as exc:   # noqa
                        ctx.note(f'oracle harness error on {name}: {type(exc).__name__}: {exc}')
            # a second call on the same fitter object (self.x may be a view of the caller's x)
            c = build_case(rng, two_d, name, 'layout')
            c['twice'] = True
            try:
                check_case(ctx, c, 'oracle:reuse')
            except Exception as exc:   # noqa
                ctx.note(f'oracle harness error on {name}: {type(exc).__name__}: {exc}')
    return len(ctx.violations) + len(ctx.known_hit) - n0


def diagnose_table(ctx):
    """When the reflective check fails: which body, which line."""
    text = """From Coq Require Import List String.
From PB Require Import C13.Model C13.Writes gen.GenWrites.
Eval vm_compute in (failures bodies).
"""
    vals = ctx.coq_eval('failures', text)
    return vals[0] if vals else 'unavailable'


def run(ctx):
    ctx.rule = ('cases: one call of a public method with caller-owned objects in a chosen layout; canonical form = the full case '
                'description (method, 1-D/2-D, data layout, x sorted/unsorted/absent and its layout, layout of every optional '
                'array/dict argument, injected raise position, parameter variation, data kind and extreme option values of the '
                'branch-forcing cases); non-trivial = at least one optional '
                'array/dict argument given or a non-default layout / x order; alias cases: distinct (setup, flags, input '
                'descriptor) tuples observed at the patched _setup_* boundaries')
    ctx.trusted += [
        'tools/gen_writes.py: classification of NumPy/SciPy/builtin calls (write their inputs only via out=/output=/overwrite_* '
        'or the listed in-place functions/methods; which may return views), callee resolution by name, numpydoc types of '
        'public-method parameters (int/float = immutable scalar), x[()] only on 0-d arrays, the WAIVERS table '
        '(5 hand-reviewed statements in the optimizers, matched by exact text)',
        'calls from one registered method to another are translated as writing none of their arguments: checked, not assumed '
        '(C13_registered_calls_write_nothing: every registered body is verified with all of its parameters caller-owned)',
        'the decorator closures (_register.inner, _class_wrapper.inner) and _return_results are analysed statically like every '
        'other body (C13_wrappers_checked); the hand alias model C13/Model.v is an exact refinement validated with np.shares_memory; '
        'numba kernels are analysed from their Python source',
        'cross-call aliasing: persistent attributes are classified fresh / possibly caller-owned by a greatest fixpoint in the '
        'translator and re-checked in Coq (assertions after every store, C13_persist_ok); the induction over call histories is '
        'mechanised (C13_history_*).  Modelling: a history is a sequence of body executions sharing the persistent names; '
        'attribute stores done by a callee are not replayed in the caller IR (the callee is itself a checked body under the same '
        'fresh/caller-owned discipline); attribute names are identified across classes; setattr/__dict__ are not modelled',
        'LIBRARY TABLE: `library_table` in coq/gen/GenWrites.v lists how every NumPy/SciPy/stdlib callable is treated (views, '
        'constructors that keep references to their array arguments such as csr_matrix((data, indices, indptr)) / '
        'dia_matrix((data, offsets)) / spdiags, copying constructors such as diags, in-place functions and methods incl. those '
        'that write through to the arrays an object was built from: setdiag, sort_indices, in-place arithmetic)',
        'object-dtype arrays, ndarray subclasses, non-native byte order and memory-overlapping caller arguments are outside the model',
    ]
    ctx.gate()
    ctx.translate(['GenWrites'])
    ok = ctx.build_props()
    if not ok and any('gen_writes_ok' in n for n, _ in ctx.broken):
        ctx.broke('writes_ok:offending-sites', diagnose_table(ctx))
    # recorded findings: bodies the generator moved to `known_bad`
    try:
        correspondence(ctx)
    except Exception as exc:   # noqa
        import traceback
        ctx.broke('correspondence:harness', traceback.format_exc()[-1200:])
    budget = 3 if (ok and not ctx.broken) else 4
    if ctx.tier == 'thorough':
        budget = 14
    found = search(ctx, budget)
    ctx.known_replayed = {k for k, _ in ctx.known}
    ctx.note(f'direct oracle budget x{budget}: {found} failing inputs; not covered: object arrays, concurrent use; the functional '
             'interface and the public utils functions are sampled; '
             'layout x argument x method combinations are sampled, not enumerated; the theorem covers all 95 registered '
             'bodies and all helpers except the decorator plumbing')


def replay(rep):
    case = rep.get('case') or {}
    if case.get('kind') == 'utils':
        class U:
            known, violations, samples = [], [], []

            def case(self, *a, **k):
                pass

            def fail(self, key, what, case):
                self.violations.append((key, what))
        cu = U()
        utils_cases(cu, only=case['idx'])
        print('replay:', cu.violations[0][1] if cu.violations else 'property holds on this input')
        return 1 if cu.violations else 0
    if case.get('kind') == 'seqparam':
        class C:
            known, violations, samples = [], [], []

            def case(self, *a, **k):
                pass

            def fail(self, key, what, case):
                self.violations.append((key, what))
        cx = C()
        global SEQ_PARAM_CASES
        saved = SEQ_PARAM_CASES
        SEQ_PARAM_CASES = [(case['two_d'], case['method'],
                            {k: (v[0], v[1]) for k, v in case['spec'].items()})]
        try:
            seq_param_cases(cx)
        finally:
            SEQ_PARAM_CASES = saved
        print('replay:', cx.violations[0][1] if cx.violations else 'property holds on this input')
        return 1 if cx.violations else 0
    if 'method' in case:
        outcome, msg, problems = call(case)
        if problems:
            print('replay: caller-owned object changed:', '; '.join(d for _, d in problems))
            return 1
        if has_ro(case) and outcome != 'ok':
            t_out, _, _ = call(writable_twin(case))
            if t_out == 'ok':
                print(f'replay: raises {outcome} only with read-only inputs ({msg})')
                return 1
        print('replay: property holds on this input')
        return 0
    print('replay: nothing concrete to replay; broken obligations were:', rep.get('broken_obligations'))
    return 1
