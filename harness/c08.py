"""C08 -- polynomial baselines are least-squares polynomials with usable coefficients.
DESIGN.md section 4 / C08.

Flow: gate -> translator (method flow table, pinned shapes of the three utils functions) -> props build (C08/Model.v, Proofs.v, NormalEq.v) -> exact-input correspondence of the Q model with
utils._poly_transform_matrix / _convert_coef / _convert_coef2d / the (masked) Vandermonde builders on dyadic
domains -> sampled Moore-Penrose contract of numpy.linalg.pinv on the matrices the implementation passes ->
direct oracle on all polynomial methods (coefficients reproduce the baseline, baseline is a polynomial of the
requested order, poly is the weighted least-squares optimum)."""
import itertools
import math
import warnings
from fractions import Fraction

import numpy as np
from numpy.polynomial import chebyshev as Ch
from numpy.polynomial import polynomial as Pn

PROP = 'C08'
EPS = float(np.finfo(float).eps)

HEADER = """From Coq Require Import ZArith List Bool QArith Qcanon.
From PB Require Import lib.CaseUtil C08.Model.
Import ListNotations.
Open Scope Z_scope.
Definition F := Fld_Qc.
"""


# ------------------------------------------------------------------ literals
def qlit(fr):
    fr = Fraction(fr)
    n, d = fr.numerator, fr.denominator
    return f'(qc ({n}) {d})' if n < 0 else f'(qc {n} {d})'


def qlist(frs):
    return '[' + '; '.join(qlit(f) for f in frs) + ']'


def frac_array(a):
    """Exact rationals of a float array (raises on nan/inf)."""
    return [Fraction(float(v)) for v in np.asarray(a, dtype=float).ravel()]


def mc_lit(mc):
    return 'None' if mc is None else f'(Some {mc}%nat)'


# ------------------------------------------------------------------ exactness guards (inputs only)
def ref_transform(n, lo, hi):
    """Closed form of the transform in exact rationals; used ONLY to decide beforehand whether the float
    computation of a case is exact for every summation order (never compared with the implementation)."""
    off = (Fraction(lo) + Fraction(hi)) / 2
    scl = (Fraction(hi) - Fraction(lo)) / 2
    return [[Fraction(math.comb(j, i)) * scl ** (-j) * ((-off) ** (j - i) if j >= i else 0)
             for j in range(n)] for i in range(n)]


def sums_exact(term_rows):
    """True when every row of exact terms can be summed in binary64 in any order without rounding."""
    for terms in term_rows:
        q = 1
        for t in terms:
            q = max(q, Fraction(t).denominator)
        if any((Fraction(t) * q).denominator != 1 for t in terms):
            return False
        if sum(abs(Fraction(t) * q) for t in terms) >= 2 ** 52:
            return False
    return True


def entries_exact(T):
    return all(Fraction(float(v)) == v for row in T for v in row)


# ------------------------------------------------------------------ implementation access
def impl_utils():
    from pybaselines import utils
    return utils


def quiet(fn, *a, **k):
    with warnings.catch_warnings():
        warnings.simplefilter('ignore')
        with np.errstate(all='ignore'):
            return fn(*a, **k)


DOMAINS = None


def dyadic_domains(rng):
    """(lo, hi) with hi - lo a power of two times 2 and a dyadic midpoint: both branches of the matrix."""
    doms = []
    for off in (0, 0, 1, -1, 2, -3, 5, -6, Fraction(1, 2), Fraction(-3, 4), 7, -10):
        for scl in (Fraction(1, 4), Fraction(1, 2), 1, 2, 4, 8):
            doms.append((Fraction(off) - scl, Fraction(off) + scl))
    return doms


def dyadic_domains_extreme():
    """Tiny and huge dyadic domains (scale 2^-40 .. 2^30) whose midpoint is 0, comparable to, or much smaller than the
    half-width: the offset == 0 test must be exact at every absolute magnitude."""
    doms = []
    for k in (-40, -30, -20, 20, 30):
        scl = Fraction(2) ** k
        for off in (Fraction(0), scl, -3 * scl / 4, scl / 1024, -5 * scl):
            doms.append((off - scl, off + scl))
    return doms


# ------------------------------------------------------------------ correspondence
def correspondence(ctx):
    U = impl_utils()
    rng = np.random.default_rng(ctx.seed + 808)
    doms = dyadic_domains(rng)
    casesT, casesC, casesC2, casesV, casesV2 = [], [], [], [], []
    skipped = 0
    mismatch_inputs = {}

    def dom_arr(lo, hi):
        return np.array([float(lo), float(hi)])

    # --- T: the transformation matrix, orders 0..8, every domain (both branches)
    ext = dyadic_domains_extreme()
    for n in range(1, 10):
        for (lo, hi) in doms + (ext if n in (2, 3, 5, 9) else []):
            ref = ref_transform(n, lo, hi)
            if not entries_exact(ref):
                skipped += 1
                continue
            try:
                got = quiet(U._poly_transform_matrix, n, dom_arr(lo, hi))
                exp = frac_array(got)
                if np.asarray(got).shape != (n, n):
                    raise ValueError(f'shape {np.asarray(got).shape}')
            except Exception as exc:  # nan/inf entries or an exception
                ctx.fail('transform:nonfinite', f'_poly_transform_matrix({n}, [{float(lo)}, {float(hi)}]) is not a finite {n}x{n} matrix: {exc}',
                         {'kind': 'transform', 'n': n, 'lo': float(lo), 'hi': float(hi)})
                continue
            low = np.asarray(got)[np.tril_indices(n, -1)]
            if low.size and (np.any(low != 0) or np.any(np.signbit(low))):
                # the model says these entries are never written (they stay +0.0 from np.zeros); a computed
                # 0 * scale**(-j) * (-offset)**(j-i) shows up as -0.0 here and as nan for tiny offsets
                ctx.fail('transform:lower-triangle-written', f'_poly_transform_matrix({n}, [{float(lo)}, {float(hi)}]) writes entries below the '
                         'diagonal (expected untouched +0.0)', {'kind': 'transform', 'n': n, 'lo': float(lo), 'hi': float(hi)})
            casesT.append((f'({n}%nat, {qlit(lo)}, {qlit(hi)}, {qlist(exp)})',
                           {'kind': 'transform', 'n': n, 'lo': float(lo), 'hi': float(hi)}))
            ctx.case(('T', n, lo, hi), nontrivial=n >= 2, kind=f"T:{'offset0' if lo == -hi else 'offset'}{':extreme-scale' if (lo, hi) in ext else ''}")

    # --- C: _convert_coef with integer coefficients
    ncoef = ctx.n(150, 900)
    for c in range(ncoef):
        n = 1 + c % 9
        lo, hi = doms[int(rng.integers(len(doms)))] if c % 4 else doms[int(rng.integers(12))]
        if c % 5 == 3:
            lo, hi = ext[int(rng.integers(len(ext)))]
        d = [int(v) for v in rng.integers(-8, 9, n)]
        ref = ref_transform(n, lo, hi)
        if not entries_exact(ref) or not sums_exact([[ref[i][j] * d[j] for j in range(n)] for i in range(n)]):
            skipped += 1
            continue
        try:
            got = quiet(U._convert_coef, np.array(d, dtype=float), dom_arr(lo, hi))
            exp = frac_array(got)
            if len(exp) != n:
                raise ValueError('length')
        except Exception as exc:
            ctx.fail('convert_coef:nonfinite', f'_convert_coef raised / returned non-finite values: {exc}',
                     {'kind': 'convert', 'd': d, 'lo': float(lo), 'hi': float(hi)})
            continue
        casesC.append((f'({n}%nat, {qlit(lo)}, {qlit(hi)}, {qlist(d)}, {qlist(exp)})',
                       {'kind': 'convert', 'd': d, 'lo': float(lo), 'hi': float(hi)}))
        ctx.case(('C', n, lo, hi, tuple(d)), nontrivial=n >= 2 and any(d), kind=f"C:{'offset0' if lo == -hi else 'offset'}")

    # --- C2: _convert_coef2d
    small = [dm for dm in doms if abs(dm[0] + dm[1]) <= 6 and Fraction(1, 2) <= (dm[1] - dm[0]) / 2 <= 4]
    n2 = ctx.n(80, 500)
    for c in range(n2):
        nx, nz = 1 + int(rng.integers(0, 5)), 1 + int(rng.integers(0, 5))
        if c < 25:
            nx, nz = 1 + c // 5, 1 + c % 5
        dx = small[int(rng.integers(len(small)))]
        dz = small[int(rng.integers(len(small)))]
        cf = [int(v) for v in rng.integers(-4, 5, nx * nz)]
        Tx, Tz = ref_transform(nx, *dx), ref_transform(nz, *dz)
        C = [[Fraction(cf[a * nz + b]) for b in range(nz)] for a in range(nx)]
        ok = entries_exact(Tx) and entries_exact(Tz)
        if ok:
            ok = sums_exact([[Tx[a][a2] * C[a2][b] for a2 in range(nx)] for a in range(nx) for b in range(nz)])
        if ok:
            TC = [[sum(Tx[a][a2] * C[a2][b] for a2 in range(nx)) for b in range(nz)] for a in range(nx)]
            ok = entries_exact(TC) and sums_exact([[TC[a][b2] * Tz[b][b2] for b2 in range(nz)] for a in range(nx) for b in range(nz)])
        if not ok:
            skipped += 1
            continue
        try:
            got = quiet(U._convert_coef2d, np.array(cf, dtype=float), nx - 1, nz - 1, dom_arr(*dx), dom_arr(*dz))
            if np.asarray(got).shape != (nx, nz):
                raise ValueError(f'shape {np.asarray(got).shape}')
            exp = frac_array(got)
        except Exception as exc:
            ctx.fail('convert_coef2d:nonfinite', f'_convert_coef2d raised / wrong shape / non-finite: {exc}',
                     {'kind': 'convert2d', 'c': cf, 'nx': nx, 'nz': nz, 'xdom': [float(v) for v in dx], 'zdom': [float(v) for v in dz]})
            continue
        casesC2.append((f'({nx}%nat, {nz}%nat, {qlit(dx[0])}, {qlit(dx[1])}, {qlit(dz[0])}, {qlit(dz[1])}, {qlist(cf)}, {qlist(exp)})',
                        {'kind': 'convert2d', 'c': cf, 'nx': nx, 'nz': nz, 'xdom': [float(v) for v in dx], 'zdom': [float(v) for v in dz]}))
        ctx.case(('C2', nx, nz, dx, dz, tuple(cf)), nontrivial=nx * nz >= 2 and any(cf), kind='C2')

    # --- V: mapdomain + polyvander as set up by Baseline(x)._setup_polynomial
    from pybaselines import Baseline, Baseline2D
    nv = ctx.n(40, 200)
    for c in range(nv):
        p = c % 9
        lo, hi = doms[int(rng.integers(len(doms)))]
        ks = sorted(set([0, 8] + [int(v) for v in rng.integers(0, 9, 4)]))
        xs = [lo + (hi - lo) * Fraction(k, 8) for k in ks]
        xf = np.array([float(v) for v in xs])
        try:
            fit = Baseline(xf)
            quiet(fit._setup_polynomial, np.zeros(len(xs)), None, p, calc_vander=True)
            V = np.asarray(fit._polynomial.vandermonde)
            if V.shape != (len(xs), p + 1):
                raise ValueError(f'shape {V.shape}')
            exp = frac_array(V)
        except Exception as exc:
            ctx.fail('vander:setup', f'_setup_polynomial/Vandermonde failed: {exc}', {'kind': 'vander', 'x': xf.tolist(), 'p': p})
            continue
        casesV.append((f'({p + 1}%nat, {qlit(lo)}, {qlit(hi)}, {qlist(xs)}, {qlist(exp)})',
                       {'kind': 'vander', 'x': xf.tolist(), 'p': p}))
        ctx.case(('V', p, tuple(xs)), nontrivial=p >= 1, kind='V')

    # --- V2: 2-D Vandermonde column order and max_cross masking
    nv2 = ctx.n(40, 200)
    for c in range(nv2):
        px, pz = int(rng.integers(0, 4)), int(rng.integers(0, 4))
        if c < 16:
            px, pz = c // 4, c % 4
        mc = [None, 0, 1, 2][c % 4] if c >= 16 else [None, 0, 1, 2][(c // 4 + c) % 4]
        dx = small[int(rng.integers(len(small)))]
        dz = small[int(rng.integers(len(small)))]
        xs = [dx[0] + (dx[1] - dx[0]) * Fraction(k, 4) for k in (0, int(rng.integers(1, 4)), 4)]
        zs = [dz[0] + (dz[1] - dz[0]) * Fraction(k, 4) for k in (0, int(rng.integers(1, 4)), 4)]
        xf, zf = np.array([float(v) for v in xs]), np.array([float(v) for v in zs])
        try:
            fit = Baseline2D(xf, zf)
            quiet(fit._setup_polynomial, np.zeros((3, 3)), None, (px, pz), calc_vander=True, max_cross=mc)
            V = np.asarray(fit._polynomial.vandermonde)
            if V.shape != (9, (px + 1) * (pz + 1)):
                raise ValueError(f'shape {V.shape}')
            exp = frac_array(V)
        except Exception as exc:
            ctx.fail('vander2d:setup', f'2-D _setup_polynomial/Vandermonde failed: {exc}',
                     {'kind': 'vander2d', 'x': xf.tolist(), 'z': zf.tolist(), 'p': [px, pz], 'max_cross': mc})
            continue
        casesV2.append((f'({px + 1}%nat, {pz + 1}%nat, {mc_lit(mc)}, ({qlit(dx[0])}, {qlit(dx[1])}, {qlit(dz[0])}, {qlit(dz[1])}), '
                        f'{qlist(xs)}, {qlist(zs)}, {qlist(exp)})',
                        {'kind': 'vander2d', 'x': xf.tolist(), 'z': zf.tolist(), 'p': [px, pz], 'max_cross': mc}))
        ctx.case(('V2', px, pz, mc, tuple(xs), tuple(zs)), nontrivial=px + pz >= 1, kind=f'V2:max_cross={mc}')

    ctx.sample({'kind': 'transform-case', 'coq_literal': casesT[20][0][:300] if len(casesT) > 20 else ''})
    ctx.sample({'kind': 'convert2d-case', 'coq_literal': casesC2[3][0][:300] if len(casesC2) > 3 else ''})
    ctx.note(f'correspondence: {len(casesT)} transform matrices, {len(casesC)} _convert_coef, {len(casesC2)} _convert_coef2d, '
             f'{len(casesV)} Vandermonde, {len(casesV2)} 2-D Vandermonde cases compared exactly; {skipped} generated cases dropped '
             f'beforehand because binary64 could round them')

    groups = [
        ('transform', casesT, 'nat * Qc * Qc * list Qc',
         "let '(n, lo, hi, e) := c in qcl_eqb (tab2 n n (transform F lo hi)) e",
         'transform:model-mismatch', '_poly_transform_matrix differs from the closed form binom(j,i) scale^-j (-offset)^(j-i) of C08/Model.v'),
        ('convert', casesC, 'nat * Qc * Qc * list Qc * list Qc',
         "let '(n, lo, hi, d, e) := c in qcl_eqb (tab1 n (convert_coef F n (vec d) lo hi)) e",
         'convert_coef:model-mismatch', '_convert_coef differs from T @ coef of C08/Model.v'),
        ('convert2d', casesC2, 'nat * nat * Qc * Qc * Qc * Qc * list Qc * list Qc',
         "let '(nx, nz, lox, hix, loz, hiz, d, e) := c in qcl_eqb (tab2 nx nz (convert_coef2d F nx nz (vec d) lox hix loz hiz)) e",
         'convert_coef2d:model-mismatch', '_convert_coef2d differs from Tx @ C @ Tz^T of C08/Model.v'),
        ('vander', casesV, 'nat * Qc * Qc * list Qc * list Qc',
         "let '(n, lo, hi, xs, e) := c in qcl_eqb (flat_map (fun x => tab1 n (fpow F (mapped F x lo hi))) xs) e",
         'vander:model-mismatch', 'the Vandermonde of _setup_polynomial differs from powers of mapdomain(x, x_domain, [-1, 1])'),
        ('vander2d', casesV2, 'nat * nat * option nat * (Qc * Qc * Qc * Qc) * list Qc * list Qc * list Qc',
         "let '(nx, nz, mc, dm, xs, zs, e) := c in let '(lox, hix, loz, hiz) := dm in "
         "qcl_eqb (flat_map (fun x => flat_map (fun z => tab1 (nx * nz) (vander2d F nz mc (mapped F x lox hix) (mapped F z loz hiz))) zs) xs) e",
         'vander2d:model-mismatch', 'the 2-D Vandermonde (column order / max_cross masking) differs from C08/Model.v'),
    ]
    any_bad = False
    for name, cases, ty, okbody, key, what in groups:
        ob = f'correspondence:{name}-exact'
        ctx.obligations.append(ob)
        good = bool(cases)
        per = 300
        for s in range(0, len(cases), per):
            sh = cases[s:s + per]
            body = ';\n'.join('  ' + l for l, _ in sh)
            text = HEADER + f"""
Definition cases : list ({ty}) := [
{body}
].
Definition ok (c : {ty}) : bool := {okbody}.
Eval vm_compute in (bad ok cases).
"""
            vals = ctx.coq_eval(f'{name}{s // per}', text)
            if vals is None:
                good = False
                continue
            if not vals or not vals[0].startswith('(0'):
                good = False
                import re
                m = re.match(r'\((\d+)(?:%nat)?, \[(.*)\]\)', vals[0]) if vals else None
                idx = [int(t.replace('%nat', '')) for t in (m.group(2).split(';') if m else []) if t.strip()]
                ctx.broke(ob, f'model and implementation disagree on {m.group(1) if m else "?"} of {len(sh)} exact cases: {vals}')
                for i in idx[:3]:
                    case = dict(sh[i][1])
                    case['coq_literal'] = sh[i][0][:1500]
                    ctx.fail(key, what + ' (exact rational comparison on a dyadic domain)', case)
        if good:
            ctx.discharged.append(ob)
        else:
            any_bad = True
    return any_bad


# ------------------------------------------------------------------ data for the oracle
def make_x(rng, trial):
    n = int(rng.choice([24, 40, 75]))
    off = float(rng.choice([0.0, 0.0, 1.0, -1.0, 1e-3, -1e-3, 30.0, -250.0, 1e3, -1e4, 1e6, -1e6])) * float(rng.uniform(0.5, 2))
    sc = 10.0 ** int(rng.integers(-6, 7)) * float(rng.uniform(0.5, 2))
    if trial % 7 == 0:
        off = 0.0          # exactly symmetric domain: the offset == 0 branch
    t = np.sort(rng.uniform(-1, 1, n))
    t[0], t[-1] = -1.0, 1.0
    if trial % 3 == 0:
        t = np.linspace(-1, 1, n)
    x = off + sc * t
    if trial % 7 == 0:
        x = sc * t
        x[0], x[-1] = -sc, sc
    if trial % 5 == 1:
        x = -np.abs(x) - sc            # strictly negative domain
        x = np.sort(x)
    if len(np.unique(x)) < n or not np.all(np.isfinite(x)):
        return None
    return x


def make_y(rng, x):
    t = (x - x.min()) / (x.max() - x.min())
    c = rng.normal(0, 2, 4)
    y = 5 + c[0] * t + c[1] * t ** 2 + c[2] * t ** 3
    for _ in range(int(rng.integers(1, 4))):
        y = y + rng.uniform(3, 12) * np.exp(-0.5 * ((t - rng.uniform(0.1, 0.9)) / rng.uniform(0.01, 0.05)) ** 2)
    y = y + rng.normal(0, 0.1, x.size)
    return y * 10.0 ** int(rng.choice([0, 0, 0, -3, 4]))


def mapped_ref(x, lo, hi):
    """Independent mapping of x to [-1, 1] (subtract the midpoint first: no cancellation of big terms)."""
    return (x - (lo + hi) / 2) / ((hi - lo) / 2)


COSTS = ['asymmetric_truncated_quadratic', 'symmetric_truncated_quadratic', 'asymmetric_huber', 'symmetric_huber',
         'asymmetric_indec', 'symmetric_indec']


def methods_1d(rng, trial):
    ms = [('poly', {}), ('modpoly', {}), ('modpoly', {'use_original': True, 'mask_initial_peaks': True}),
          ('imodpoly', {}), ('imodpoly', {'use_original': True, 'num_std': 0.5}),
          ('quant_reg', {'max_iter': 25, 'quantile': float(rng.choice([0.05, 0.3]))}),
          ('goldindec', {'max_iter': 15, 'max_iter_2': 8, 'cost_function': COSTS[(trial % 3) * 2]}),
          ('dietrich', {'smooth_half_window': 2, 'max_iter': int(rng.choice([1, 2, 20]))})]
    ms.append(('penalized_poly', {'cost_function': COSTS[trial % 6]}))
    ms.append(('penalized_poly', {'cost_function': COSTS[(trial + 3) % 6], 'threshold': 0.5}))
    return ms


def cond_bound(d, x, off, scl):
    """sum_j |d_j| ((|x| + |offset|)/|scale|)^j : the size of the terms that cancel when coefficients converted
    to the original domain are evaluated at x; eps times this is the attainable accuracy."""
    r = (np.abs(x) + abs(off)) / abs(scl)
    out = np.zeros_like(np.asarray(x, dtype=float))
    for j, dj in enumerate(d):
        out = out + abs(dj) * r ** j
    return out


class Stats:
    def __init__(self):
        self.m = {}

    def up(self, k, v):
        if np.isfinite(v):
            self.m[k] = max(self.m.get(k, 0.0), float(v))


# thresholds (multiples of eps times the conditioning bound); the unchanged tree stays below 2 on (a),
# below 5 on (b) -- see the measurements written to the evidence file on every run
TOL_A = 100.0
TOL_B = 500.0


def check_1d_call(ctx, st, name, kw, x, y, p, w, perm_kind, fit=None, history=None, exact=False):
    from pybaselines import Baseline
    tag = '' if fit is None else ':reused'
    lo, hi = float(x.min()), float(x.max())
    off, scl = (lo + hi) / 2, (hi - lo) / 2
    case = {'kind': 'oracle1d', 'method': name, 'kwargs': kw, 'poly_order': p, 'x': x.tolist(), 'y': y.tolist(),
            'weights': None if w is None else w.tolist()}
    if history is not None:
        case['kind'] = 'seq1d'
        case['history'] = list(history)     # earlier calls on the SAME Baseline object, in order
    if fit is None:
        fit = Baseline(x)
    kws = dict(kw)
    kws['weights'] = w
    try:
        b, par = quiet(getattr(fit, name), y, poly_order=p, return_coef=True, **kws)
    except Exception as exc:  # C01's business unless it is a plain crash of the coefficient code
        if tag:
            try:
                quiet(getattr(Baseline(x), name), y, poly_order=p, return_coef=True, **kws)
                ctx.fail(f'reused:{name}:raises', f'{name} raises {type(exc).__name__} ({str(exc)[:80]}) on a reused Baseline object but '
                         'returns normally on a fresh one', case)
            except Exception:
                pass
        ctx.note(f'{name} raised {type(exc).__name__} on one oracle input (not a C08 matter): {str(exc)[:80]}')
        return None
    b = np.asarray(b, dtype=float)
    if 'coef' not in par:
        ctx.fail(f'coef:{name}:missing{tag}', f'{name}(return_coef=True) returned no coef', case)
        return None
    c = np.asarray(par['coef'], dtype=float)
    if not np.all(np.isfinite(b)):
        return None           # non-finite baselines belong to C01
    tm = mapped_ref(x, lo, hi)
    scale_b = max(float(np.abs(b).max()), 1e-300)
    # (b) the baseline is a polynomial of degree <= p: dense least squares in the mapped domain (Chebyshev basis)
    cheb = np.linalg.lstsq(Ch.chebvander(tm, p), b, rcond=None)[0]
    d = Ch.cheb2poly(cheb) if p > 0 else np.array(cheb, dtype=float)
    d = np.concatenate([d, np.zeros(p + 1 - len(d))])
    resid = float(np.abs(Ch.chebval(tm, cheb) - b).max())
    ratio_map = abs(off) / abs(scl) + 1.0      # rounding of numpy's off + scl*x relative to the mapped range
    tol_b = EPS * ratio_map * float(np.sum((np.arange(p + 1) + 1.0) ** 2 * np.abs(d))) + EPS * scale_b
    st.up(f'b:{name}', resid / tol_b)
    if resid > TOL_B * tol_b:
        ctx.fail(f'degree:{name}{tag}', f'{name}: the returned baseline is not a polynomial of degree <= {p} in x '
                 f'(residual of a dense degree-{p} fit {resid:.3g}, {resid / tol_b:.3g} x the rounding budget)', case)
    # (a) coefficients evaluated on the user's x reproduce the baseline
    if c.shape != (p + 1,):
        ctx.fail(f'coef:{name}:shape{tag}', f'{name}: coef has shape {c.shape}, expected ({p + 1},)', case)
        return None
    if not np.all(np.isfinite(c)):
        ctx.fail(f'coef:{name}:nonfinite{tag}', f'{name}: non-finite coefficient for a finite baseline', case)
        return None
    ev = exact_polyval(c, x) if exact else Pn.polyval(x, c)
    bound = EPS * cond_bound(d, x, off, scl) + EPS * scale_b
    r = float(np.max(np.abs(ev - b) / bound))
    st.up(f'a:{name}', r)
    st.up('a:relerr-vs-baseline', float(np.max(np.abs(ev - b)) / scale_b))
    if r > TOL_A:
        i = int(np.argmax(np.abs(ev - b) / bound))
        ctx.fail(f'coef:{name}:{"offset0" if off == 0 else "offset"}{tag}',
                 f'{name}: polyval(x, params["coef"]) differs from the returned baseline by {abs(ev[i] - b[i]):.3g} at x={x[i]!r} '
                 f'(baseline {b[i]:.6g}, {r:.3g} x eps x conditioning bound; domain offset {off:.3g}, scale {scl:.3g}, order {p})', case)
    return b, c, d


def oracle_1d(ctx, st, budget):
    rng = np.random.default_rng(ctx.seed + 81)
    ntr = 14 * budget
    for trial in range(ntr):
        x = make_x(rng, trial)
        if x is None:
            continue
        n = x.size
        y = make_y(rng, x)
        perm_kind = trial % 3
        if perm_kind == 1:
            perm = rng.permutation(n)
            x, y = x[perm], y[perm]
        elif perm_kind == 2:
            x, y = x[::-1].copy(), y[::-1].copy()
        w = None
        if trial % 2:
            w = rng.uniform(0.05, 1.0, n)
            w[rng.random(n) < 0.15] = 0.0
        for name, kw in methods_1d(rng, trial):
            p = int(rng.integers(0, 9))
            if name == 'dietrich':
                p = min(p, 6)
            res = check_1d_call(ctx, st, name, kw, x, y, p, w if name != 'dietrich' else None, perm_kind)
            off = (x.min() + x.max()) / 2
            ctx.case(('o1', name, trial, p, ctx.seed), nontrivial=res is not None and p >= 1,
                     kind=f"oracle:{name}:{'offset0' if off == 0 else 'offset'}:{['sorted', 'shuffled', 'reversed'][perm_kind]}")
            if res is not None and name == 'poly':
                check_poly_optimal(ctx, st, x, y, p, w, res[0])
        # loess: one coefficient row per point
        check_loess(ctx, st, rng, x, y, trial)


SEQ_ORDERS = [[6, 2, 4, 0], [8, 3, 3, 1], [2, 5, 1, 4], [0, 7, 2, 2], [5, 4, 3, 2], [1, 6, 0, 3]]


def oracle_seq_1d(ctx, st, budget):
    """Short call sequences on ONE shared Baseline(x): orders going up and down, unweighted and weighted calls,
    different methods; every call is checked exactly like a call on a fresh object (the cached Vandermonde /
    pseudo-inverse of _PolyHelper must never leak a stale matrix into a later call)."""
    from pybaselines import Baseline
    rng = np.random.default_rng(ctx.seed + 84)
    ntr = 10 * budget
    for trial in range(ntr):
        x = make_x(rng, trial + 2)
        if x is None:
            continue
        y = make_y(rng, x)
        if trial % 3 == 1:
            perm = rng.permutation(x.size)
            x, y = x[perm], y[perm]
        wfull = rng.uniform(0.05, 1.0, x.size)
        wfull[rng.random(x.size) < 0.1] = 0.0
        fit = Baseline(x)
        orders = SEQ_ORDERS[trial % len(SEQ_ORDERS)] if trial < 2 * len(SEQ_ORDERS) else [int(v) for v in rng.integers(0, 9, int(rng.integers(2, 5)))]
        pool = methods_1d(rng, trial)
        history = []
        for k, p in enumerate(orders):
            # poly at every other position (it is the method with an optimality statement); always at least one
            # unweighted poly call after a higher-order unweighted call
            if trial % 2 == 0:
                name, kw = ('poly', {}) if k % 2 == 1 or k == 0 else pool[int(rng.integers(len(pool)))]
                w = None if (k < 2 or rng.random() < 0.5) else wfull
            else:
                name, kw = pool[int(rng.integers(len(pool)))] if k % 2 == 0 else ('poly', {})
                w = wfull if rng.random() < 0.4 else None
            if name == 'dietrich':
                p, w = min(p, 6), None
            res = check_1d_call(ctx, st, name, kw, x, y, p, w, 0, fit=fit, history=history)
            ctx.case(('seq1', name, trial, k, p, w is None, ctx.seed), nontrivial=res is not None and k >= 1,
                     kind=f"seq1d:{name}:{'unweighted' if w is None else 'weighted'}:step{k}")
            if res is not None and name == 'poly':
                check_poly_optimal(ctx, st, x, y, p, w, res[0], tag=':reused', history=history)
            history.append({'method': name, 'kwargs': kw, 'poly_order': p, 'weights': None if w is None else w.tolist()})



def check_poly_optimal(ctx, st, x, y, p, w, b, tag='', history=None):
    """(c) poly is the weighted least-squares optimum: compare with numpy.linalg.lstsq on an independent design."""
    lo, hi = float(x.min()), float(x.max())
    tm = mapped_ref(x, lo, hi)
    ww = np.ones_like(x) if w is None else w
    sw = np.sqrt(ww)
    A = Ch.chebvander(tm, p)
    cref = np.linalg.lstsq(sw[:, None] * A, sw * y, rcond=None)[0]
    bref = A @ cref
    sse = float(np.sum(ww * (b - y) ** 2))
    sse_ref = float(np.sum(ww * (bref - y) ** 2))
    scale = float(np.sum(ww * y ** 2)) + 1e-300
    case = {'kind': 'optimal1d', 'poly_order': p, 'x': x.tolist(), 'y': y.tolist(), 'weights': None if w is None else w.tolist()}
    if history is not None:
        case.update({'kind': 'seq1d', 'method': 'poly', 'kwargs': {}, 'history': list(history)})
    excess = (sse - sse_ref) / scale
    # numpy's mapping off + scl*x perturbs the mapped abscissae by eps*|offset/scale|: first-order effect on the optimum
    ratio_map = abs((lo + hi) / (hi - lo)) + 1.0
    tol = 1e-11 + 10 * EPS * ratio_map
    st.up('c:sse-excess/tol', excess / tol)
    if excess > tol:
        ctx.fail('optimal:poly:1d' + tag, f'poly{tag}: weighted squared distance {sse:.10g} exceeds the least-squares optimum {sse_ref:.10g} '
                 f'(order {p}, {"weights" if w is not None else "no weights"})', case)
    # normal equations V^T W (b - y) = 0, entrywise relative to the sum of absolute terms
    g = A.T @ (ww * (b - y))
    gabs = np.abs(A).T @ (ww * np.abs(b - y)) + 1e-300
    st.up('c:normal-eq-rel', float(np.max(np.abs(g) / gabs)))
    # uniqueness: with at least p+1 positively weighted points the optimum is unique
    if np.count_nonzero(ww > 0) >= p + 3:
        dev = float(np.max(np.abs(b - bref))) / (float(np.abs(y).max()) + 1e-300)
        tol_dev = 1e-8 + 1e3 * EPS * ratio_map
        st.up('c:unique-dev/tol', dev / tol_dev)
        if dev > tol_dev:
            ctx.fail('optimal:poly:1d:unique' + tag, f'poly{tag}: baseline differs from the unique weighted least-squares polynomial by {dev:.3g} (relative)', case)


def exact_inverse_coef(c, off, scl):
    """d with sum_j d_j t^j = sum_i c_i (off + scl t)^i, exactly (Fractions)."""
    n = len(c)
    off, scl = Fraction(off), Fraction(scl)
    d = [Fraction(0)] * n
    for i, ci in enumerate(c):
        ci = Fraction(float(ci))
        for j in range(i + 1):
            d[j] += ci * math.comb(i, j) * scl ** j * off ** (i - j)
    return d


def check_loess(ctx, st, rng, x, y, trial):
    from pybaselines import Baseline
    p = int(rng.integers(0, 3))
    delta = [0.0, None][trial % 2]
    kw = {'fraction': float(rng.choice([0.3, 0.6])), 'poly_order': p, 'max_iter': 3, 'delta': delta,
          'conserve_memory': bool(trial % 4 < 2), 'return_coef': True}
    case = {'kind': 'loess', 'kwargs': kw, 'x': x.tolist(), 'y': y.tolist()}
    try:
        b, par = quiet(Baseline(x).loess, y, **kw)
    except Exception as exc:
        ctx.note(f'loess raised {type(exc).__name__} on one oracle input: {str(exc)[:80]}')
        return
    c = np.asarray(par.get('coef'))
    ctx.case(('loess', trial, p, ctx.seed), nontrivial=True, kind=f'oracle:loess:delta={delta}')
    if c.shape != (x.size, p + 1):
        ctx.fail('coef:loess:shape', f'loess: coef has shape {c.shape}', case)
        return
    lo, hi = float(x.min()), float(x.max())
    off, scl = (lo + hi) / 2, (hi - lo) / 2
    if not np.all(np.isfinite(b)) or not np.all(np.isfinite(c)):
        return
    worst = 0.0
    for i in range(x.size):
        if not np.any(c[i]):
            continue        # documented: coefficients of skipped (interpolated) points are all 0
        d = [float(abs(v)) for v in exact_inverse_coef(c[i], off, scl)]
        bound = EPS * float(cond_bound(d, np.array([x[i]]), off, scl)[0]) + EPS * max(abs(b[i]), float(np.abs(y).max()))
        r = abs(float(Pn.polyval(x[i], c[i])) - b[i]) / bound
        worst = max(worst, r)
        if r > 50 * TOL_A:
            ctx.fail('coef:loess', f'loess: polyval(x[{i}], coef[{i}]) = {float(Pn.polyval(x[i], c[i])):.6g} but baseline[{i}] = {b[i]:.6g} '
                     f'({r:.3g} x eps x conditioning bound)', case)
            break
    st.up('a:loess', worst)




# ------------------------------------------------------------------ deterministic family of x (and z) domains
EXTENTS = [1e-12, 1e-9, 1e-6, 1e-3, 1.0, 1e3, 1e6, 1e9, 1e12]
# midpoint / half-width: 0, tiny, comparable (lo = 0 / hi = 0), asymmetric, huge relative to the extent; both signs
MID_RATIOS = [0.0, 1e-9, -1e-9, 1e-6, -1e-6, 1e-3, -1e-3, 0.37, -0.37, 1.0, -1.0, 3.0, -3.0, 40.0, -40.0, 1e3, -1e3]


def family_domains():
    out = []
    for e in EXTENTS:
        for r in MID_RATIOS:
            half = e / 2
            out.append((half * r, half))
    return out


def exact_polyval(c, xs):
    cs = [Fraction(float(v)) for v in c]
    out = []
    for xv in xs:
        xv = Fraction(float(xv))
        acc = Fraction(0)
        for cv in reversed(cs):
            acc = acc * xv + cv
        out.append(float(acc))
    return np.array(out)


def exact_polyval2d(C, xs, zs):
    C = np.asarray(C, dtype=float)
    out = np.zeros((len(xs), len(zs)))
    ZP = [[Fraction(float(z)) ** b for b in range(C.shape[1])] for z in zs]
    for i, xv in enumerate(xs):
        xv = Fraction(float(xv))
        XP = [xv ** a for a in range(C.shape[0])]
        for j in range(len(zs)):
            out[i, j] = float(sum(Fraction(float(C[a, b])) * XP[a] * ZP[j][b] for a in range(C.shape[0]) for b in range(C.shape[1])))
    return out


def oracle_domain_family(ctx, st, rng_seed):
    """Every polynomial method over a fixed grid of domains: extent 1e-12..1e12 x midpoint 0 / tiny / comparable / huge
    relative to the extent / negative.  The returned coefficients are evaluated in EXACT rational arithmetic on the
    user's x (so only the coefficients are judged, not a float Horner scheme) against the conditioning bound of the
    mapped-domain fit."""
    from pybaselines import Baseline2D
    rng = np.random.default_rng(rng_seed)
    doms = family_domains()
    t0 = np.linspace(-1, 1, 31)
    others = [('modpoly', {}), ('imodpoly', {}), ('quant_reg', {'max_iter': 10}), ('penalized_poly', {}),
              ('goldindec', {'max_iter': 10, 'max_iter_2': 5}), ('dietrich', {'smooth_half_window': 2, 'max_iter': 3})]
    for k, (mid, half) in enumerate(doms):
        t = t0 if k % 2 == 0 else np.sort(np.concatenate([[-1.0, 1.0], rng.uniform(-1, 1, 29)]))
        x = mid + half * t
        if len(np.unique(x)) < x.size:
            continue           # the extent is below the resolution of binary64 at this midpoint
        y = make_y(rng, x)
        p = [1, 2, 3, 5][k % 4] if abs(mid) <= 50 * half else [1, 2, 3][k % 3]
        name, kw = ('poly', {}) if k % 3 else others[(k // 3) % len(others)]
        if k % 7 == 3:
            perm = rng.permutation(x.size)
            x, y = x[perm], y[perm]
        res = check_1d_call(ctx, st, name, kw, x, y, p, None, 0, exact=True)
        ctx.case(('fam1', k, name, p), nontrivial=res is not None, kind=f'family1d:extent=1e{int(round(np.log10(2 * half)))}:{name}')
    # 2-D: the x and z domains walk through the family independently
    for k in range(0, len(doms), 3):
        (mx, hx), (mz, hz) = doms[k], doms[(7 * k + 5) % len(doms)]
        x = mx + hx * np.linspace(-1, 1, 9)
        z = mz + hz * np.sort(np.concatenate([[-1.0, 1.0], rng.uniform(-1, 1, 5)]))
        if len(np.unique(x)) < x.size or len(np.unique(z)) < z.size:
            continue
        tx, tz = mapped_ref(x, x.min(), x.max()), mapped_ref(z, z.min(), z.max())
        Y = 3 + 2 * tx[:, None] - tz[None, :] + tx[:, None] * tz[None, :] + 4 * np.exp(-((tx[:, None]) ** 2 + tz[None, :] ** 2) / 0.05) \
            + rng.normal(0, 0.05, (x.size, z.size))
        px, pz = [(1, 1), (2, 1), (1, 2), (2, 2), (3, 2)][k % 5]
        mc = [None, 1][k % 2]
        name = ['poly', 'modpoly', 'imodpoly', 'quant_reg', 'penalized_poly'][(k // 3) % 5]
        case = {'kind': 'oracle2d', 'method': name, 'kwargs': {}, 'poly_order': [px, pz], 'max_cross': mc, 'x': x.tolist(), 'z': z.tolist(),
                'y': Y.tolist(), 'weights': None}
        ctx.case(('fam2', k, name, px, pz, mc), nontrivial=True, kind=f'family2d:{name}')
        try:
            b, par = quiet(getattr(Baseline2D(x, z), name), Y, poly_order=(px, pz), return_coef=True, max_cross=mc)
        except Exception as exc:
            ctx.note(f'2-D {name} raised {type(exc).__name__} on a family domain: {str(exc)[:80]}')
            continue
        b, c = np.asarray(b, dtype=float), np.asarray(par.get('coef'), dtype=float)
        if not np.all(np.isfinite(b)) or c.shape != (px + 1, pz + 1):
            continue
        if not np.all(np.isfinite(c)):
            ctx.fail(f'coef2d:{name}:nonfinite', f'2-D {name}: non-finite coefficient for a finite baseline', case)
            continue
        keep = masked_cols(px, pz, mc)
        A = (Pn.polyvander(tx, px)[:, None, :, None] * Pn.polyvander(tz, pz)[None, :, None, :]).reshape(x.size * z.size, -1)
        d = np.zeros(A.shape[1])
        d[keep] = np.linalg.lstsq(A[:, keep], b.ravel(), rcond=None)[0]
        D = d.reshape(px + 1, pz + 1)
        offx, sclx, offz, sclz = (x.min() + x.max()) / 2, (x.max() - x.min()) / 2, (z.min() + z.max()) / 2, (z.max() - z.min()) / 2
        X, Z = np.meshgrid(x, z, indexing='ij')
        rx, rz = (np.abs(X) + abs(offx)) / abs(sclx), (np.abs(Z) + abs(offz)) / abs(sclz)
        bound = np.zeros_like(X)
        for a in range(px + 1):
            for bb in range(pz + 1):
                bound = bound + abs(D[a, bb]) * rx ** a * rz ** bb
        bound = EPS * bound + EPS * max(float(np.abs(b).max()), 1e-300)
        ev = exact_polyval2d(c, x, z)
        r = float(np.max(np.abs(ev - b) / bound))
        st.up(f'a2:{name}', r)
        if r > TOL_A:
            ctx.fail(f'coef2d:{name}', f'2-D {name}: params["coef"] evaluated exactly on (x, z) differs from the returned baseline by '
                     f'{float(np.max(np.abs(ev - b))):.3g} ({r:.3g} x eps x conditioning bound; x domain midpoint {offx:.3g} half-width {sclx:.3g}, '
                     f'z domain midpoint {offz:.3g} half-width {sclz:.3g}, orders {px},{pz}, max_cross {mc})', case)


# ------------------------------------------------------------------ conditioning stress with an exact certificate
TOL_S = 30.0     # unchanged tree: <= 0.16 over 216 measured cases; a normal-equations solve: 1e2 .. 1e7


def exact_eta(cols, w, y, b):
    """Residual-orthogonality certificate in exact rational arithmetic: the norm of the projection of the weighted
    residual sqrt(w) (b - y) onto the range of sqrt(w) [cols], relative to |sqrt(w) y|.  It is 0 exactly when b is the
    weighted least-squares fit from span(cols); for a fit b = cols @ c it equals the weighted distance between b and
    the true minimiser.  cols: exact columns (Fractions); w, y, b: floats taken as exact."""
    n, N = len(cols), len(w)
    W = [Fraction(float(v)) for v in w]
    R = [Fraction(float(bi)) - Fraction(float(yi)) for bi, yi in zip(b, y)]
    WC = [[W[i] * cols[j][i] for i in range(N)] for j in range(n)]
    g = [sum(WC[j][i] * R[i] for i in range(N)) for j in range(n)]
    M = [[sum(WC[j][i] * cols[k][i] for i in range(N)) for k in range(n)] + [g[j]] for j in range(n)]
    for c in range(n):
        piv = next((r for r in range(c, n) if M[r][c] != 0), None)
        if piv is None:
            return None          # exactly rank deficient: the minimiser is not unique, nothing to certify here
        M[c], M[piv] = M[piv], M[c]
        inv = 1 / M[c][c]
        for r in range(c + 1, n):
            if M[r][c] != 0:
                f = M[r][c] * inv
                M[r] = [a - f * bb for a, bb in zip(M[r], M[c])]
    d = [Fraction(0)] * n
    for c in range(n - 1, -1, -1):
        d[c] = (M[c][n] - sum(M[c][k] * d[k] for k in range(c + 1, n))) / M[c][c]
    q = sum(gi * di for gi, di in zip(g, d))
    sc = sum(Wi * Fraction(float(yi)) ** 2 for Wi, yi in zip(W, y))
    if sc == 0:
        return None
    return math.sqrt(float(q / sc)) if q > 0 else 0.0


def stress_weights(rng, kind, tt, p):
    """Weights with a wide dynamic range (what users really pass: inverse variances, ramps, a few trusted points)."""
    n = tt.size
    base = 3 + 2 * tt - tt ** 2 + 0.5 * tt ** 3
    if kind == 0:
        return 10.0 ** rng.uniform(-6, 6, n), base + rng.normal(0, 0.1, n)
    if kind == 1:
        dec = float(rng.choice([4, 6, 8, 10]))
        y = 10.0 ** (dec * (1 - (tt + 1) / 2)) * (1 + rng.normal(0, 0.01, n)) + 5
        return 1 / y ** 2, y
    if kind == 2:
        return np.exp(rng.uniform(3, 14) * tt), base + rng.normal(0, 0.1, n)
    w = np.full(n, 1e-6)
    w[rng.choice(n, min(n, p + 3), replace=False)] = 1e6
    return w, base + rng.normal(0, 0.1, n)


def stress_eta_1d(x, y, w, p, b):
    lo, hi = float(x.min()), float(x.max())
    tt = mapped_ref(x, lo, hi)
    kap = float(np.linalg.cond(np.sqrt(w)[:, None] * Pn.polyvander(tt, p)))
    T = [Fraction(float(v)) for v in tt]
    cols = [[Fraction(1)] * x.size]
    for _ in range(p):
        cols.append([a * t for a, t in zip(cols[-1], T)])
    return exact_eta(cols, w, y, b), kap


def oracle_stress(ctx, st, budget):
    """poly (the method with an optimality statement) under conditioning stress: orders 6..13, weights spanning up to 20
    decades, x scaled by 2^-10..2^10, through every entry path (class method, functional interface, reused object).
    Judged by the exact certificate against eps * cond(sqrt(w) V): the accuracy of an SVD-based solve of the tall
    problem.  Any route through V'WV squares the condition number and lands orders of magnitude above."""
    from pybaselines import Baseline, Baseline2D
    from pybaselines import polynomial as functional
    rng = np.random.default_rng(ctx.seed + 85)
    for trial in range(20 * budget):
        n = int(rng.choice([40, 60]))
        p = int(rng.integers(6, 14))
        t = np.sort(rng.uniform(-1, 1, n))
        t[0], t[-1] = -1.0, 1.0
        sc = 2.0 ** int(rng.integers(-10, 11))
        x = float(rng.choice([0, 1, -2])) * sc + sc * t
        tt = mapped_ref(x, float(x.min()), float(x.max()))
        kind = trial % 4
        w, y = stress_weights(rng, kind, tt, p)
        if trial % 3 == 2:
            perm = rng.permutation(n)
            x, y, w = x[perm], y[perm], w[perm]
        path = ['class', 'functional', 'reused'][trial % 3 if trial % 5 else 2]
        case = {'kind': 'stress1d', 'path': path, 'poly_order': p, 'x': x.tolist(), 'y': y.tolist(), 'weights': w.tolist()}
        try:
            if path == 'functional':
                b, _ = quiet(functional.poly, y, x, poly_order=p, weights=w)
            else:
                fit = Baseline(x)
                if path == 'reused':
                    quiet(fit.poly, y, poly_order=min(p + 2, 14))
                    quiet(fit.modpoly, y, poly_order=p, weights=w)
                b, _ = quiet(fit.poly, y, poly_order=p, weights=w)
        except Exception as exc:
            ctx.note(f'poly raised {type(exc).__name__} on a stress input: {str(exc)[:80]}')
            continue
        b = np.asarray(b, dtype=float)
        eta, kap = stress_eta_1d(x, y, w, p, b)
        nontriv = eta is not None and np.all(np.isfinite(b)) and 1e3 <= kap <= 1e12
        ctx.case(('stress1', trial, p, kind, path, ctx.seed), nontrivial=bool(nontriv), kind=f'stress1d:{["loguniform", "inverse-variance", "ramp", "few-trusted"][kind]}:{path}')
        if not nontriv:
            continue
        r = eta / (EPS * kap)
        st.up('s:eta/(eps*cond)', r)
        if r > TOL_S:
            ctx.fail('optimal:poly:1d:conditioning', f'poly ({path}) is not the weighted least-squares polynomial to the accuracy of an SVD solve: '
                     f'exact weighted distance to the true minimiser {eta:.3g} (relative to |sqrt(w) y|) = {r:.3g} x eps x cond(sqrt(w) V) '
                     f'(order {p}, cond {kap:.3g}, weights over {np.log10(w.max() / w.min()):.0f} decades)', case)
    # 2-D poly
    for trial in range(4 * budget):
        px, pz = int(rng.integers(2, 5)), int(rng.integers(2, 4))
        mc = [None, 1, 2][trial % 3]
        x = np.sort(rng.uniform(-1, 1, 10)) * 2.0 ** int(rng.integers(-8, 9))
        z = (np.sort(rng.uniform(-1, 1, 8)) + float(rng.choice([0, 1]))) * 2.0 ** int(rng.integers(-8, 9))
        tx, tz = mapped_ref(x, float(x.min()), float(x.max())), mapped_ref(z, float(z.min()), float(z.max()))
        Y = 3 + 2 * tx[:, None] - tz[None, :] + tx[:, None] * tz[None, :] + rng.normal(0, 0.1, (10, 8))
        W = 10.0 ** rng.uniform(-5, 5, Y.shape) if trial % 2 else np.exp(rng.uniform(3, 10) * (tx[:, None] + tz[None, :]) / 2)
        case = {'kind': 'stress2d', 'poly_order': [px, pz], 'max_cross': mc, 'x': x.tolist(), 'z': z.tolist(), 'y': Y.tolist(),
                'weights': W.tolist()}
        try:
            b, _ = quiet(Baseline2D(x, z).poly, Y, poly_order=(px, pz), weights=W, max_cross=mc)
        except Exception as exc:
            ctx.note(f'2-D poly raised {type(exc).__name__} on a stress input: {str(exc)[:80]}')
            continue
        eta, kap = stress_eta_2d(x, z, Y, W, px, pz, mc, np.asarray(b, dtype=float))
        nontriv = eta is not None and np.all(np.isfinite(b)) and 1e2 <= kap <= 1e12
        ctx.case(('stress2', trial, px, pz, mc, ctx.seed), nontrivial=bool(nontriv), kind=f'stress2d:max_cross={mc}')
        if not nontriv:
            continue
        r = eta / (EPS * kap)
        st.up('s2:eta/(eps*cond)', r)
        if r > TOL_S:
            ctx.fail('optimal:poly:2d:conditioning', f'2-D poly is not the weighted least-squares polynomial to the accuracy of an SVD solve: '
                     f'{r:.3g} x eps x cond (orders {px},{pz}, max_cross {mc}, cond {kap:.3g})', case)


def stress_eta_2d(x, z, Y, W, px, pz, mc, b):
    tx, tz = mapped_ref(x, float(x.min()), float(x.max())), mapped_ref(z, float(z.min()), float(z.max()))
    keep = masked_cols(px, pz, mc)
    A = (Pn.polyvander(tx, px)[:, None, :, None] * Pn.polyvander(tz, pz)[None, :, None, :]).reshape(x.size * z.size, -1)[:, keep]
    kap = float(np.linalg.cond(np.sqrt(W.ravel())[:, None] * A))
    TX, TZ = [Fraction(float(v)) for v in tx], [Fraction(float(v)) for v in tz]
    cols = []
    k = 0
    for a in range(px + 1):
        for bb in range(pz + 1):
            if keep[k]:
                cols.append([TX[i] ** a * TZ[j] ** bb for i in range(x.size) for j in range(z.size)])
            k += 1
    return exact_eta(cols, W.ravel(), Y.ravel(), b.ravel()), kap


# ------------------------------------------------------------------ two dimensions
def masked_cols(px, pz, mc):
    keep = []
    for a in range(px + 1):
        for b in range(pz + 1):
            m = mc is not None and a != 0 and b != 0 and (a > mc or b > mc)
            keep.append(not m)
    return np.array(keep)


def oracle_2d(ctx, st, budget):
    from pybaselines import Baseline2D
    rng = np.random.default_rng(ctx.seed + 82)
    ntr = 8 * budget
    for trial in range(ntr):
        xs = make_x(rng, trial + 3)
        zs = make_x(rng, trial * 5 + 1)
        if xs is None or zs is None:
            continue
        x = xs[np.sort(rng.choice(xs.size, 11, replace=False))]
        z = zs[np.sort(rng.choice(zs.size, 9, replace=False))]
        x[0], x[-1] = xs[0], xs[-1]
        z[0], z[-1] = zs[0], zs[-1]
        if len(np.unique(x)) < x.size or len(np.unique(z)) < z.size:
            continue
        tx = (x - x.min()) / (x.max() - x.min())
        tz = (z - z.min()) / (z.max() - z.min())
        Y = (3 + 2 * tx[:, None] - tz[None, :] + 1.5 * tx[:, None] * tz[None, :] ** 2
             + 8 * np.exp(-0.5 * ((tx[:, None] - 0.5) ** 2 + (tz[None, :] - 0.4) ** 2) / 0.01) + rng.normal(0, 0.05, (x.size, z.size)))
        if trial % 3 == 1:
            px_, pz_ = rng.permutation(x.size), rng.permutation(z.size)
            x, z, Y = x[px_], z[pz_], Y[px_][:, pz_]
        W = None
        if trial % 2:
            W = rng.uniform(0.05, 1, Y.shape)
            W[rng.random(Y.shape) < 0.1] = 0
        lox, hix, loz, hiz = float(x.min()), float(x.max()), float(z.min()), float(z.max())
        offx, sclx, offz, sclz = (lox + hix) / 2, (hix - lox) / 2, (loz + hiz) / 2, (hiz - loz) / 2
        tmx, tmz = mapped_ref(x, lox, hix), mapped_ref(z, loz, hiz)
        # every other trial runs all its calls on ONE shared Baseline2D object (orders / max_cross / weights changing
        # between calls, poly interleaved with the iterative methods): the cached Vandermonde / pseudo-inverse of
        # _PolyHelper2D must never leak into a later call
        shared = Baseline2D(x, z) if trial % 2 == 0 else None
        Wfull = rng.uniform(0.05, 1, Y.shape)
        Wfull[rng.random(Y.shape) < 0.1] = 0
        calls = [('poly', {}), ('modpoly', {}), ('imodpoly', {}), ('quant_reg', {'max_iter': 15}),
                 ('penalized_poly', {'cost_function': COSTS[trial % 6]})]
        if shared is not None:
            calls = [('poly', {}), ('modpoly', {}), ('poly', {}), ('imodpoly', {}), ('poly', {}),
                     ('quant_reg', {'max_iter': 15}), ('poly', {}), ('penalized_poly', {'cost_function': COSTS[trial % 6]}), ('poly', {})]
        history = []
        tag = '' if shared is None else ':reused'
        for step, (name, kw) in enumerate(calls):
            if shared is not None:
                W = Wfull if (step >= 3 and rng.random() < 0.4) else None
            px, pz = int(rng.integers(0, 4)), int(rng.integers(0, 4))
            if shared is not None and step in (0, 2):
                px, pz = (3, 3) if step == 0 else (int(rng.integers(0, 3)), int(rng.integers(0, 3)))
            order = (px, pz) if trial % 4 else max(px, pz)
            if not isinstance(order, tuple):
                px = pz = order
            mc = [None, 0, 1, 2][int(rng.integers(0, 4))]
            case = {'kind': 'oracle2d', 'method': name, 'kwargs': kw, 'poly_order': order if not isinstance(order, tuple) else list(order),
                    'max_cross': mc, 'x': x.tolist(), 'z': z.tolist(), 'y': Y.tolist(), 'weights': None if W is None else W.tolist()}
            if shared is not None:
                if step in (0, 2):
                    mc = None       # full order first, then a lower one with the same max_cross and no weights
                case['kind'], case['history'] = 'seq2d', list(history)
                case['max_cross'] = mc
                history.append({'method': name, 'kwargs': kw, 'poly_order': case['poly_order'], 'max_cross': mc,
                                'weights': None if W is None else W.tolist()})
            ctx.case(('o2', name, trial, step, px, pz, mc, W is None, ctx.seed), nontrivial=px + pz >= 1,
                     kind=f'oracle2d{tag}:{name}:max_cross={mc}')
            try:
                b, par = quiet(getattr(shared if shared is not None else Baseline2D(x, z), name), Y, poly_order=order, weights=W,
                               return_coef=True, max_cross=mc, **kw)
            except Exception as exc:
                if shared is not None:
                    try:
                        quiet(getattr(Baseline2D(x, z), name), Y, poly_order=order, weights=W, return_coef=True, max_cross=mc, **kw)
                        ctx.fail(f'reused2d:{name}:raises', f'2-D {name} raises {type(exc).__name__} ({str(exc)[:80]}) on a reused Baseline2D '
                                 'object but returns normally on a fresh one', case)
                    except Exception:
                        pass
                ctx.note(f'2-D {name} raised {type(exc).__name__}: {str(exc)[:80]}')
                continue
            b = np.asarray(b, dtype=float)
            c = np.asarray(par.get('coef'), dtype=float)
            if not np.all(np.isfinite(b)):
                continue
            if c.shape != (px + 1, pz + 1):
                ctx.fail(f'coef2d:{name}:shape{tag}', f'2-D {name}: coef has shape {c.shape}, expected {(px + 1, pz + 1)}', case)
                continue
            keep = masked_cols(px, pz, mc)
            A = (Pn.polyvander(tmx, px)[:, None, :, None] * Pn.polyvander(tmz, pz)[None, :, None, :]).reshape(x.size * z.size, -1)
            Ak = A[:, keep]
            dk = np.linalg.lstsq(Ak, b.ravel(), rcond=None)[0]
            d = np.zeros(A.shape[1])
            d[keep] = dk
            D = d.reshape(px + 1, pz + 1)
            scale_b = max(float(np.abs(b).max()), 1e-300)
            resid = float(np.abs(Ak @ dk - b.ravel()).max())
            rmap = abs(offx / sclx) + abs(offz / sclz) + 1
            tol_b = EPS * rmap * float(np.sum(np.abs(D) * (np.arange(px + 1)[:, None] + np.arange(pz + 1)[None, :] + 1.0) ** 2)) * 10 + EPS * scale_b
            st.up(f'b2:{name}', resid / tol_b)
            if resid > TOL_B * tol_b:
                ctx.fail(f'degree2d:{name}{tag}', f'2-D {name}: baseline is not in the span of the allowed monomials x^a z^b '
                         f'(orders {px},{pz}, max_cross {mc}): residual {resid:.3g}, {resid / tol_b:.3g} x budget', case)
            if not np.all(np.isfinite(c)):
                ctx.fail(f'coef2d:{name}:nonfinite{tag}', f'2-D {name}: non-finite coefficient for a finite baseline', case)
                continue
            X, Z = np.meshgrid(x, z, indexing='ij')
            ev = Pn.polyval2d(X, Z, c)
            rx = (np.abs(X) + abs(offx)) / abs(sclx)
            rz = (np.abs(Z) + abs(offz)) / abs(sclz)
            bound = np.zeros_like(X)
            for a in range(px + 1):
                for bb in range(pz + 1):
                    bound = bound + abs(D[a, bb]) * rx ** a * rz ** bb
            bound = EPS * bound + EPS * scale_b
            r = float(np.max(np.abs(ev - b) / bound))
            st.up(f'a2:{name}', r)
            if r > TOL_A:
                ctx.fail(f'coef2d:{name}{tag}', f'2-D {name}: polyval2d(x, z, params["coef"]) differs from the returned baseline by '
                         f'{float(np.max(np.abs(ev - b))):.3g} ({r:.3g} x eps x conditioning bound; orders {px},{pz}, max_cross {mc})', case)
            if name == 'poly':
                ww = np.ones(b.size) if W is None else W.ravel()
                sw = np.sqrt(ww)
                cref = np.linalg.lstsq(sw[:, None] * Ak, sw * Y.ravel(), rcond=None)[0]
                bref = Ak @ cref
                sse, sse_ref = float(np.sum(ww * (b.ravel() - Y.ravel()) ** 2)), float(np.sum(ww * (bref - Y.ravel()) ** 2))
                excess = (sse - sse_ref) / (float(np.sum(ww * Y.ravel() ** 2)) + 1e-300)
                tol2 = 1e-11 + 10 * EPS * rmap
                st.up('c2:sse-excess/tol', excess / tol2)
                if excess > tol2:
                    ctx.fail('optimal:poly:2d' + tag, f'2-D poly: weighted squared distance {sse:.10g} exceeds the least-squares optimum {sse_ref:.10g} '
                             f'(orders {px},{pz}, max_cross {mc})', case)


# ------------------------------------------------------------------ numpy.linalg.pinv contract (sampled)
def pinv_contract(ctx, st):
    """Moore-Penrose residuals of numpy.linalg.pinv on the matrices poly actually passes to it."""
    from pybaselines import Baseline, Baseline2D
    rng = np.random.default_rng(ctx.seed + 83)
    rec = []
    orig = np.linalg.pinv

    def spy(a, *args, **kwargs):
        out = orig(a, *args, **kwargs)
        rec.append((np.array(a, dtype=float), np.array(out, dtype=float)))
        return out

    np.linalg.pinv = spy
    try:
        for trial in range(ctx.n(12, 60)):
            x = make_x(rng, trial)
            if x is None:
                continue
            y = make_y(rng, x)
            w = rng.uniform(0.05, 1, x.size)
            w[rng.random(x.size) < 0.2] = 0
            quiet(Baseline(x).poly, y, poly_order=int(rng.integers(0, 9)), weights=w if trial % 2 else None)
            if trial % 3 == 0:
                xx, zz = np.sort(x[:9]), np.sort(rng.uniform(-3, 8, 7))
                quiet(Baseline2D(xx, zz).poly, rng.normal(0, 1, (9, 7)), poly_order=(int(rng.integers(0, 4)), int(rng.integers(0, 4))),
                      max_cross=[None, 0, 1][trial % 3 if trial % 2 else 0], weights=rng.uniform(0.1, 1, (9, 7)))
    finally:
        np.linalg.pinv = orig
    ob = 'contract:numpy.linalg.pinv-moore-penrose(sampled)'
    ctx.obligations.append(ob)
    worst = 0.0
    for A, P in rec:
        na, npn = np.linalg.norm(A, 2) + 1e-300, np.linalg.norm(P, 2) + 1e-300
        r1 = np.linalg.norm(A @ P @ A - A, 2) / na
        r2 = np.linalg.norm(P @ A @ P - P, 2) / npn
        r3 = np.linalg.norm((A @ P).T - A @ P, 2)
        r4 = np.linalg.norm((P @ A).T - P @ A, 2)
        worst = max(worst, r1, r2, r3, r4)
        ctx.case(('pinv', A.shape, float(A.sum())), nontrivial=A.shape[1] >= 2, kind='pinv-contract')
    st.up('pinv:moore-penrose-residual', worst)
    if not rec:
        ctx.broke(ob, 'poly did not call numpy.linalg.pinv at all: the least-squares theorems no longer describe the code')
    elif worst > 1e-6:
        ctx.broke(ob, f'Moore-Penrose residual {worst:.3g} on a matrix passed by poly')
    else:
        ctx.discharged.append(ob)
    ctx.note(f'pinv contract sampled on {len(rec)} matrices captured from poly (1-D and 2-D), worst Moore-Penrose residual {worst:.2e}')



FINDING_KEY = 'coef:nonfinite:lower-triangle-overflow'


def probe_lower_triangle(ctx):
    """Deterministic regression input of the defect repaired in /repo commit 97626ff: _poly_transform_matrix used to
    evaluate binom(j, i) * scale**(-j) * (-offset)**(j - i) also BELOW the diagonal, where binom = 0 and the exponent
    is negative; for a tiny non-zero offset the power overflows and 0 * inf = nan poisoned a coefficient whose exact
    value (C08_transform_branches: the lower triangle is 0) is finite and representable."""
    from pybaselines import Baseline
    x = np.linspace(-1e-25, 1e-25, 50)
    x[-1] = np.nextafter(1e-25, 1.0)
    y = 1.0 + (x / 1e-25) ** 2
    try:
        b, par = quiet(Baseline(x).poly, y, poly_order=8, return_coef=True)
    except Exception:
        return
    c = np.asarray(par['coef'], dtype=float)
    ctx.case(('probe', 'lower-triangle'), nontrivial=True, kind='probe:tiny-offset')
    # the same fit on the exactly symmetric neighbour domain has finite coefficients of size <= 1e190
    if np.all(np.isfinite(b)) and not np.all(np.isfinite(c)):
        ctx.fail(FINDING_KEY, 'poly(return_coef=True) on x = linspace(-1e-25, 1e-25, 50) with the last point moved up by one ulp '
                 '(offset 5.7e-42, scale 1e-25, poly_order 8): the baseline is finite but params["coef"] contains nan',
                 {'kind': 'oracle1d', 'method': 'poly', 'kwargs': {}, 'poly_order': 8, 'x': x.tolist(), 'y': y.tolist(), 'weights': None})


# ------------------------------------------------------------------ entry points
def run(ctx):
    ctx.rule = ('correspondence: transform matrices for 1..9 coefficients x 72 dyadic domains (offset 0 and non-zero, scale 1/4..8) plus 25 dyadic domains of scale 2^-40..2^30 with midpoint 0 / '
                'comparable / 1000x smaller than the half-width, '
                '_convert_coef / _convert_coef2d with integer coefficients, 1-D and 2-D Vandermonde (max_cross None/0/1/2) -- all compared as '
                'exact rationals; oracle: x domains with offset 0, +-1e-3..+-1e6 and scale 1e-6..1e6 (sorted, shuffled, reversed, strictly '
                'negative), orders 0..8, weights none/random with zeros, every 1-D polynomial method incl. all six penalized_poly cost functions, '
                'loess coefficient rows, dietrich, and the five 2-D methods with order pairs 0..3 and max_cross None/0/1/2; '
                'the same checks on every call of 2-4 (1-D) / 9 (2-D) call sequences on ONE shared Baseline / Baseline2D object with orders going up and down, '
                'unweighted and weighted calls and mixed methods; a fixed family of 153 x-domains (and z-domains in 2-D): extent 1e-12..1e12 x midpoint/half-width 0, +-1e-9..+-1e3, evaluated in exact '
                'rational arithmetic; conditioning stress for poly (orders 6..13, weights over up to 20 decades: log-uniform, '
                'inverse-variance, exponential ramp, few trusted points; class / functional / reused-object entry paths; 2-D orders up to (4,3)) judged by an '
                'exact rational residual-orthogonality certificate against eps*cond(sqrt(w) V); non-trivial = order >= 1 and a finite returned baseline')
    ctx.trusted += [
        'numpy.linalg.pinv / lstsq (SVD): enter C08/NormalEq.v as a Section variable with the Moore-Penrose conditions; sampled on the matrices poly passes',
        'numpy.polynomial.polyutils.mapparms/mapdomain, polyvander, polyvander2d, scipy.special.binom, float ** int: modelled in C08/Model.v, '
        'tied by exact comparison on dyadic inputs only',
        'IEEE rounding between the exact (rational) theorems and float runs is not proved: for non-dyadic domains the oracle allows '
        'eps x sum_j |d_j| ((|x|+|offset|)/|scale|)^j (the size of the cancelling terms), so coefficients for domains with |offset| >> |scale| '
        'are only checked to that (possibly useless) accuracy; the measured error relative to the baseline is reported',
        'mathcomp 1.x (ssreflect, algebra) for C08/NormalEq.v',
    ]
    ctx.gate()
    ctx.translate(['GenPolyFlow'])
    ctx.translate(['GenPolyTransform'])
    ctx.translate(['GenPolySolve'])
    ok = ctx.build_props()
    bad = correspondence(ctx)
    st = Stats()
    pinv_contract(ctx, st)
    budget = (1 if ctx.tier == 'quick' else 48) if (ok and not bad and not ctx.broken) else (6 if ctx.tier == 'quick' else 48)
    probe_lower_triangle(ctx)
    oracle_1d(ctx, st, budget)
    oracle_domain_family(ctx, st, ctx.seed + 86)
    oracle_seq_1d(ctx, st, budget)
    oracle_stress(ctx, st, min(budget, 12))
    oracle_2d(ctx, st, budget)
    ctx.extra['measured_max_ratios'] = {k: float(f'{v:.4g}') for k, v in sorted(st.m.items())}
    ctx.note(f'oracle budget x{budget}; thresholds: coefficient reproduction {TOL_A} x eps x conditioning bound (measured max on this run '
             f'{max([v for k, v in st.m.items() if k.startswith("a") and "relerr" not in k] + [0]):.3g}), degree check {TOL_B} x budget (measured max '
             f'{max([v for k, v in st.m.items() if k.startswith("b")] + [0]):.3g}); largest coefficient-evaluation error relative to the '
             f'baseline magnitude on this run {st.m.get("a:relerr-vs-baseline", 0):.3g} (ill-conditioned domains: reported, not asserted)')
    ctx.note('not covered: overflow/underflow of scale**(-j) or offset**(j-i) for |x| beyond about 1e+-38; loess rows of skipped points '
             '(documented to be 0); goldindec with symmetric costs (rejected by the method); float rounding of the SVD')


def replay(rep):
    case = rep.get('case') or {}
    kind = case.get('kind')
    print('replay kind:', kind, '| key:', rep.get('key'), '|', rep.get('what'))
    U = impl_utils()
    if kind == 'transform':
        print(U._poly_transform_matrix(case['n'], np.array([case['lo'], case['hi']])))
        return 1
    if kind == 'convert':
        print(U._convert_coef(np.array(case['d'], dtype=float), np.array([case['lo'], case['hi']])))
        return 1
    if kind == 'convert2d':
        print(U._convert_coef2d(np.array(case['c'], dtype=float), case['nx'] - 1, case['nz'] - 1, np.array(case['xdom']), np.array(case['zdom'])))
        return 1
    if kind in ('seq1d', 'seq2d'):
        from pybaselines import Baseline, Baseline2D
        x, y = np.array(case['x']), np.array(case['y'])
        fit = Baseline(x) if kind == 'seq1d' else Baseline2D(x, np.array(case['z']))
        fresh = Baseline(x) if kind == 'seq1d' else Baseline2D(x, np.array(case['z']))

        def one(obj, h):
            w = None if h.get('weights') is None else np.array(h['weights'])
            extra = {'max_cross': h.get('max_cross')} if kind == 'seq2d' else {}
            po = h['poly_order']
            po = tuple(po) if isinstance(po, list) else po
            return quiet(getattr(obj, h['method']), y, poly_order=po, return_coef=True, weights=w, **extra, **h['kwargs'])
        for h in case.get('history', []):
            try:
                one(fit, h)
            except Exception as exc:
                print('  (earlier call raised', type(exc).__name__, ')')
        last = {k: case.get(k) for k in ('method', 'kwargs', 'poly_order', 'weights', 'max_cross')}
        b1, _ = one(fit, last)
        b2, _ = one(fresh, last)
        dev = float(np.max(np.abs(np.asarray(b1) - np.asarray(b2))))
        print(f'{len(case.get("history", []))} earlier calls on the shared object; last call {last["method"]} order {last["poly_order"]}: '
              f'max |baseline(reused object) - baseline(fresh object)| = {dev:.6g}')
        return 1 if dev > 1e-6 * (float(np.abs(b2).max()) + 1e-300) else 0
    if kind in ('stress1d', 'stress2d'):
        from pybaselines import Baseline, Baseline2D
        from pybaselines import polynomial as functional
        x, w = np.array(case['x']), np.array(case['weights'])
        y = np.array(case['y'])
        if kind == 'stress1d':
            p = case['poly_order']
            if case.get('path') == 'functional':
                b, _ = quiet(functional.poly, y, x, poly_order=p, weights=w)
            else:
                fit = Baseline(x)
                if case.get('path') == 'reused':
                    quiet(fit.poly, y, poly_order=min(p + 2, 14))
                    quiet(fit.modpoly, y, poly_order=p, weights=w)
                b, _ = quiet(fit.poly, y, poly_order=p, weights=w)
            eta, kap = stress_eta_1d(x, y, w, p, np.asarray(b, dtype=float))
        else:
            z = np.array(case['z'])
            px, pz = case['poly_order']
            b, _ = quiet(Baseline2D(x, z).poly, y, poly_order=(px, pz), weights=w, max_cross=case['max_cross'])
            eta, kap = stress_eta_2d(x, z, y, w, px, pz, case['max_cross'], np.asarray(b, dtype=float))
        r = eta / (EPS * kap)
        print(f'exact weighted distance of the returned baseline to the true weighted least-squares polynomial: {eta:.3g} '
              f'(relative to |sqrt(w) y|) = {r:.3g} x eps x cond(sqrt(w) V), cond = {kap:.3g}; allowed {TOL_S}')
        return 1 if r > TOL_S else 0
    if kind == 'oracle1d':
        from pybaselines import Baseline
        x, y = np.array(case['x']), np.array(case['y'])
        w = None if case.get('weights') is None else np.array(case['weights'])
        b, par = quiet(getattr(Baseline(x), case['method']), y, poly_order=case['poly_order'], return_coef=True, weights=w, **case['kwargs'])
        ev = Pn.polyval(x, par['coef'])
        print('coef =', par['coef'])
        print('max |polyval(x, coef) - baseline| =', float(np.max(np.abs(ev - b))), ' max |baseline| =', float(np.abs(b).max()))
        if rep.get('key') == FINDING_KEY:
            bad = bool(np.all(np.isfinite(b)) and not np.all(np.isfinite(par['coef'])))
            print('non-finite coefficient for a finite baseline:', bad)
            return 1 if bad else 0
        return 1
    if kind == 'oracle2d':
        from pybaselines import Baseline2D
        x, z, Y = np.array(case['x']), np.array(case['z']), np.array(case['y'])
        W = None if case.get('weights') is None else np.array(case['weights'])
        order = case['poly_order']
        b, par = quiet(getattr(Baseline2D(x, z), case['method']), Y, poly_order=order, return_coef=True, weights=W,
                       max_cross=case['max_cross'], **case['kwargs'])
        X, Z = np.meshgrid(x, z, indexing='ij')
        print('max |polyval2d - baseline| =', float(np.max(np.abs(Pn.polyval2d(X, Z, par['coef']) - b))))
        return 1
    print('replay: broken obligations were:', rep.get('broken_obligations'))
    return 1
