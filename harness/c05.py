"""C05 -- compiled kernels never index outside their arrays.  See DESIGN.md section 4 / C05."""
import json
import math
import os
import subprocess
import sys
import time
import warnings

import numpy as np

from . import c05_trace as T
from .common import VERIF, REPO, coqbool, zl, zlist, zlist2

PROP = 'C05'

HEADER = """From Coq Require Import ZArith List Bool.
From PB Require Import lib.PySlice lib.CaseUtil C05.Mon C05.Model C05.Callers.
Import ListNotations.
Open Scope Z_scope.
Definition cs {A} (m : M A) (o : list bool) (exp : list (list Z)) : bool :=
  let '(_, rest, l) := m o in
  zll_eqb (map ev_flat l) exp && (match rest with [] => true | _ => false end).
Definition csz (m : M Z) (o : list bool) (exp : list (list Z)) (r : Z) : bool :=
  cs m o exp && (res_of m o =? r).
Definition pl (l : list (Z * Z)) : list (list Z) := map (fun p => [fst p; snd p]) l.
Definition csdf (m : M (list (Z * Z) * list Z * list (Z * Z))) (o : list bool) (exp : list (list Z))
           (w : list (list Z)) (f : list Z) (s : list (list Z)) : bool :=
  cs m o exp && (let '(w', f', s') := res_of m o in zll_eqb (pl w') w && zl_eqb f' f && zll_eqb (pl s') s).
Definition zp (l : list (list Z)) : list (Z * Z) := map (fun r => (nth 0 r 0, nth 1 r 0)) l.
"""


def bools(bs):
    return '[' + '; '.join(coqbool(b) for b in bs) + ']'


def _mods():
    from pybaselines import _spline_utils as su, polynomial as po, smooth as sm, classification as cl
    from pybaselines import misc, utils, spline as sp
    return su, po, sm, cl, misc, utils, sp


# ================================================================== kernel cases
class Case:
    __slots__ = ('kernel', 'canon', 'term', 'res', 'log', 'nontrivial', 'pre')

    def __init__(self, kernel, canon, term, res, log, nontrivial=True):
        self.kernel, self.canon, self.term, self.res, self.log = kernel, canon, term, res, log
        self.nontrivial = nontrivial


def knots_for(rng, degree, num_knots, penalized, n=None):
    su = _mods()[0]
    n = n or rng.randint(1, 9)
    x = np.sort(np.array([rng.uniform(-3, 3) for _ in range(n)]))
    if rng.random() < 0.3:
        x = np.round(x)          # repeated x values (repeated percentile knots when not penalized)
    with warnings.catch_warnings():
        warnings.simplefilter('ignore')
        knots = su._spline_knots(x, num_knots, degree, penalized)
    return x, knots


def case_find_interval(rng):
    su = _mods()[0]
    degree = rng.choice([0, 1, 2, 3, 3, 4, 5])
    num_knots = rng.choice([2, 2, 3, 4, 6, 9])
    x, knots = knots_for(rng, degree, num_knots, rng.random() < 0.7)
    nk = len(knots)
    num_bases = nk - degree - 1
    last_left = rng.choice([-3, 0, degree - 1, degree, degree + 1, num_bases - 1, num_bases, num_bases + 4,
                            rng.randint(0, nk)])
    xv = rng.choice([float(x[0]), float(x[-1]), rng.uniform(-4, 4), float('nan'), float('inf'), -1e300,
                     float(knots[rng.randrange(nk)])])
    K = T.arr(knots, 'knots')
    res, log, cmp_ = T.run(su._find_interval, [], K, degree, T.LF(xv), last_left, num_bases)
    term = (f'csz (find_interval (spline_nk {num_knots} {degree}) {degree} {zl(last_left)} '
            f'(spline_num_bases {num_knots} {degree})) {bools(cmp_)} {zlist2(log)} '
            f'{zl(res) if isinstance(res, int) else 0}')
    return Case('_find_interval', ('fi', degree, num_knots, last_left, tuple(cmp_)), term, res, log,
                nontrivial=len(log) > 2)


def case_de_boor(rng):
    su = _mods()[0]
    degree = rng.choice([0, 1, 2, 3, 3, 4, 5])
    num_knots = rng.choice([2, 3, 4, 6])
    x, knots = knots_for(rng, degree, num_knots, rng.random() < 0.5)
    nk = len(knots)
    num_bases = nk - degree - 1
    left = rng.randint(degree, num_bases - 1)
    K = T.arr(knots, 'knots')
    W = T.arr(np.zeros(2 * (degree + 1)), 'work')
    res, log, cmp_ = T.run(su._de_boor, [], K, T.LF(rng.uniform(-3, 3)), degree, left, W)
    term = (f'cs (de_boor (spline_nk {num_knots} {degree}) {degree} {left} {2 * (degree + 1)}) '
            f'{bools(cmp_)} {zlist2(log)}')
    return Case('_de_boor', ('db', degree, num_knots, left, tuple(cmp_)), term, res, log, nontrivial=degree > 0)


def _spline_inputs(rng, small):
    degree = rng.choice([0, 1, 2, 3, 3, 4])
    num_knots = rng.choice([2, 3, 4, 7])
    n = rng.randint(1, 6 if small else 14)
    x, knots = knots_for(rng, degree, num_knots, True, n=n)
    if rng.random() < 0.3:
        rng.shuffle(x)           # unsorted x is accepted by the kernels (x within the knots)
    return degree, num_knots, x, knots


def case_design(rng):
    su = _mods()[0]
    degree, num_knots, x, knots = _spline_inputs(rng, True)
    X, K = T.arr(x, 'x'), T.arr(knots, 'knots')
    res, log, cmp_ = T.run(su.__dict__['__make_design_matrix'], ['work', 'basis_data', 'row_ind', 'col_ind'],
                           X, K, degree)
    term = (f'cs (design_matrix {len(x)} (spline_nk {num_knots} {degree}) {degree}) {bools(cmp_)} {zlist2(log)}')
    return Case('__make_design_matrix', ('dm', degree, num_knots, len(x), tuple(cmp_)), term, res, log)


def case_btb(rng):
    su = _mods()[0]
    degree, num_knots, x, knots = _spline_inputs(rng, True)
    n = len(x)
    num_bases = len(knots) - degree - 1
    # basis values from SciPy (independent of the repository; never enters compiled repository code)
    from scipy.interpolate import BSpline
    bd = BSpline.design_matrix(np.clip(x, knots[degree], knots[num_bases]), knots, degree).tocsr().data
    X, K = T.arr(x, 'x'), T.arr(knots, 'knots')
    Y, Wt = T.arr(np.arange(n, dtype=float), 'y'), T.arr(np.ones(n), 'weights')
    ab = T.arr(np.zeros((degree + 1, num_bases), order='F'), 'ab')
    rhs = T.arr(np.zeros(num_bases), 'rhs')
    BD = T.arr(bd, 'basis_data')
    res, log, cmp_ = T.run(su._numba_btb_bty, ['work'], X, K, degree, Y, Wt, ab, rhs, BD)
    term = (f'cs (btb_bty_call {n} {num_knots} {degree} {len(bd)}) {bools(cmp_)} {zlist2(log)}')
    return Case('_numba_btb_bty', ('btb', degree, num_knots, n, tuple(cmp_)), term, res, log)


def loess_x(rng, n):
    kind = rng.choice(['uniform', 'gaps', 'gaps', 'random', 'dup', 'unsorted', 'nan'])
    if kind == 'uniform':
        x = np.arange(n, dtype=float)
    elif kind == 'gaps':
        x = np.cumsum([rng.choice([0.0, 0.1, 1.0, 1.0, 5.0, 30.0]) for _ in range(n)])
    elif kind == 'dup':
        x = np.sort(np.array([float(rng.randint(0, 3)) for _ in range(n)]))
    else:
        x = np.sort(np.array([rng.uniform(0, 10) for _ in range(n)]))
        if kind == 'unsorted':
            rng.shuffle(x)
        if kind == 'nan' and n > 1:
            x[rng.randrange(n)] = float('nan')
    return np.asarray(x, dtype=float)


def df_args(rng, forced=None):
    if forced:
        return forced
    n = rng.choice([1, 1, 2, 2, 3, 3, 4, 5, 6, 8, 12, 17])
    tp = rng.choice([1, n, n, max(1, n - 1), rng.randint(1, n)])
    x = loess_x(rng, n)
    span = float(np.nanmax(x) - np.nanmin(x)) if n else 0.0
    delta = rng.choice([0.0, -1.0, 0.01 * span, 0.3 * span, 0.5, 1.5, span, 2 * span + 1, 1e9])
    return x, n, tp, float(delta)


def run_df(x, n, tp, delta):
    po = _mods()[1]
    X = T.arr(x, 'x')
    return T.run(po._determine_fits, ['fits', 'skips', 'windows'], X, n, tp, T.LF(delta))


DF_FORCED = [
    (np.array([0., 1, 2, 10]), 4, 4, 100.0),          # the f7472e9 witness
    (np.array([0., 1, 2, 3, 20]), 5, 5, 100.0),
    (np.array([0., 1, 2, 3, 20]), 5, 4, 100.0),
    (np.array([5.]), 1, 1, 1.0),                       # the 81e4538 witness
    (np.array([5.]), 1, 1, 0.0),
    (np.array([0., 1]), 2, 1, 5.0),
    (np.array([0., 1, 2]), 3, 3, 5.0),
    (np.array([0., 1, 2]), 3, 1, 5.0),
    (np.array([0., 0, 0, 0, 0, 1]), 6, 6, 0.5),
    (np.array([0., 1, 2, 3, 4, 5, 6, 7]), 8, 3, 2.5),
]


def case_df(rng, forced=None):
    x, n, tp, delta = df_args(rng, forced)
    res, log, cmp_ = run_df(x, n, tp, delta)
    if isinstance(res, Exception):
        w = f = s = []
    else:
        w, f, s = ([list(map(int, r)) for r in res[0]], [int(v) for v in res[1]],
                   [list(map(int, r)) for r in res[2]])
    term = f'csdf (determine_fits {n} {tp}) {bools(cmp_)} {zlist2(log)} {zlist2(w)} {zlist(f)} {zlist2(s)}'
    c = Case('_determine_fits', ('df', n, tp, tuple(cmp_)), term, res, log, nontrivial=n >= 3)
    return c


def case_loess(rng):
    su, po = _mods()[0], _mods()[1]
    x, n, tp, delta = df_args(rng)
    if np.isnan(x).any():
        x = np.nan_to_num(x)
    windows, fits, skips = po._determine_fits.py_func(x, n, tp, delta)
    p = rng.choice([0, 1, 2])
    p = min(p, tp - 1)
    mode = rng.choice([0, 1, 2])
    X, Y, W = T.arr(x, 'x'), T.arr(np.arange(n, dtype=float), 'y'), T.arr(np.ones(n), 'weights')
    coefs = T.arr(np.zeros((n, p + 1)), 'coefs')
    vander = T.arr(np.polynomial.polynomial.polyvander(np.linspace(-1, 1, n), p), 'vander')
    Wn = T.arr(np.array(windows, dtype=np.intp).reshape(-1, 2), 'windows')
    F = T.arr(np.array(fits, dtype=np.intp), 'fits')
    if mode == 0:
        res, log, cmp_ = T.run(po._loess_low_memory, ['baseline'], X, Y, W, coefs, vander, n, Wn, F)
    elif mode == 1:
        res, log, cmp_ = T.run(po._loess_first_loop, ['kernels', 'baseline'], X, Y, W, coefs, vander, tp, n, Wn, F)
    else:
        kern = T.arr(np.ones((n, tp)), 'kernels')
        res, log, cmp_ = T.run(po._loess_nonfirst_loops, ['baseline'], Y, W, coefs, vander, kern, Wn, n, F)
    wl = [list(map(int, r)) for r in windows]
    term = (f'cs (loess_call {mode} {n} {tp} {p} (zp {zlist2(wl)}) {zlist([int(v) for v in fits])}) '
            f'{bools(cmp_)} {zlist2(log)}')
    return Case(f'_loess(mode {mode})', ('lo', mode, n, tp, p, tuple(map(tuple, wl))), term, res, log,
                nontrivial=len(fits) > 1)


def case_fill_skips(rng):
    po = _mods()[1]
    while True:
        x, n, tp, delta = df_args(rng)
        if delta > 0 and n >= 3:
            break
    if np.isnan(x).any():
        x = np.nan_to_num(x)
    windows, fits, skips = po._determine_fits.py_func(x, n, tp, delta)
    X, B = T.arr(x, 'x'), T.arr(np.zeros(n), 'baseline')
    S = T.arr(np.array(skips, dtype=np.intp).reshape(-1, 2), 'skips')
    res, log, cmp_ = T.run(po._fill_skips, [], X, B, S)
    sl = [list(map(int, r)) for r in skips]
    term = f'cs (fill_skips {n} {n} (zp {zlist2(sl)})) {bools(cmp_)} {zlist2(log)}'
    return Case('_fill_skips', ('fs', n, tuple(map(tuple, sl))), term, res, log, nontrivial=len(sl) > 0)


def case_interp(rng):
    utils = _mods()[5]
    n = rng.randint(1, 9)
    X, Y = T.arr(np.arange(n, dtype=float), 'x'), T.arr(np.zeros(n), 'y')
    res, log, cmp_ = T.run(utils._interp_inplace, [], X, Y, T.LF(1.0), T.LF(2.0))
    term = f'cs (interp_inplace A_x {n} A_y {n}) {bools(cmp_)} {zlist2(log)}'
    return Case('_interp_inplace', ('ii', n), term, res, log, nontrivial=n > 2)


def case_dmma(rng):
    sm = _mods()[2]
    data_len = rng.choice([1, 1, 2, 3, 4, 5, 6, 7, 9, 12, 15])
    ny = data_len + rng.choice([0, 0, 1, 2])
    hw = rng.choice([0, 1, 1, 2, 3, (data_len - 1) // 2, (data_len - 1) // 2 + 1, data_len, 3 * data_len + 7])
    y = np.array([rng.uniform(0, 5) for _ in range(ny)])
    if rng.random() < 0.15:
        y[rng.randrange(ny)] = float('nan')
    Y = T.arr(y, 'y')
    if rng.random() < 0.5:
        Y = np.ndarray.__getitem__(Y, slice(None, None, -1))   # the caller's reversed view
    res, log, cmp_ = T.run(sm._directional_min_moving_avg, [], Y, data_len, hw)
    term = f'cs (dmma {ny} {data_len} {hw}) {bools(cmp_)} {zlist2(log)}'
    return Case('_directional_min_moving_avg', ('dmma', ny, data_len, hw, tuple(cmp_)), term, res, log,
                nontrivial=data_len > 2)


def case_rolling_std(rng):
    cl = _mods()[3]
    n = rng.choice([1, 2, 3, 4, 6, 9, 13])
    hw = rng.choice([0, 1, 1, 2, 3, 5])
    hw = min(hw, max(n - 1, 0))          # np.pad(reflect) accepts any width, keep cases small
    data = np.pad(np.array([rng.uniform(0, 5) for _ in range(n)]), hw, 'reflect')
    D = T.arr(data, 'data')
    res, log, cmp_ = T.run(cl._rolling_std, ['squared_diff'], D, hw, rng.choice([0, 1]))
    term = f'cs (rolling_std (padded_len {n} {hw}) {hw}) {bools(cmp_)} {zlist2(log)}'
    return Case('_rolling_std', ('rs', n, hw), term, res, log, nontrivial=hw > 0)


def case_bdb(rng):
    misc = _mods()[4]
    n = rng.choice([1, 2, 3, 4, 5, 7])
    al, au, bl_, bu = (rng.randint(0, 3) for _ in range(4))
    sym = rng.random() < 0.5
    c_upper = min(au + bu, n - 1)
    c_lower = min(al + bl_, n - 1)
    lb = 0 if sym else al + bl_
    A = T.arr(np.ones((al + au + 1, n)), 'a')
    B = T.arr(np.ones((bl_ + bu + 1, n)), 'b')
    C = T.arr(np.zeros((c_lower + c_upper + 1, n)), 'c')
    res, log, cmp_ = T.run(misc._numba_banded_dot_banded, [], A, B, C, al, au, bl_, bu, c_upper, n, lb)
    term = f'cs (bdb_call {n} {al} {au} {bl_} {bu} {coqbool(sym)}) {bools(cmp_)} {zlist2(log)}'
    return Case('_numba_banded_dot_banded', ('bdb', n, al, au, bl_, bu, sym), term, res, log,
                nontrivial=len(log) > 0)


def case_bezier(rng):
    sp = _mods()[6]
    n = rng.choice([2, 3, 4, 5, 6, 7, 9, 12, 16])
    k = rng.choice([2, 3, 4, 4, 5, 6, n, n])
    k = max(2, min(k, n))
    idx = sorted(rng.sample(range(n), k))
    kind = rng.choice(['uniform', 'gaps', 'dup', 'random'])
    if kind == 'uniform':
        x = np.arange(n, dtype=float)
    elif kind == 'gaps':
        x = np.cumsum([rng.choice([0.1, 1.0, 1.0, 5.0, 30.0]) for _ in range(n)])
    elif kind == 'dup':
        x = np.sort(np.array([float(rng.randint(0, 3)) for _ in range(n)]))
    else:
        x = np.sort(np.array([rng.uniform(0, 10) for _ in range(n)]))
    y = np.array([rng.uniform(0, 5) for _ in range(n)])
    X, Y = T.arr(np.asarray(x, dtype=float), 'x'), T.arr(y, 'y')
    I = T.arr(np.array(idx, dtype=np.intp), 'indices')
    res, log, cmp_ = T.run(sp._quadratic_bezier_spline, ['output'], X, Y, I)
    term = f'cs (bezier {n} {n} {zlist(idx)}) {bools(cmp_)} {zlist2(log)}'
    return Case('_quadratic_bezier_spline', ('bz', n, tuple(idx), tuple(cmp_)), term, res, log, nontrivial=k >= 4)


GENS = [('find_interval', case_find_interval, 60, 600), ('de_boor', case_de_boor, 40, 400),
        ('design', case_design, 25, 250), ('btb', case_btb, 25, 250),
        ('determine_fits', case_df, 120, 1500), ('loess', case_loess, 60, 600),
        ('fill_skips', case_fill_skips, 30, 300), ('interp', case_interp, 9, 20),
        ('dmma', case_dmma, 80, 800), ('rolling_std', case_rolling_std, 30, 300),
        ('bdb', case_bdb, 40, 400), ('bezier', case_bezier, 50, 600)]


def correspondence(ctx):
    for name, gen, nq, nt in GENS:
        n = ctx.n(nq, nt)
        cases = []
        if name == 'determine_fits':
            cases += [case_df(ctx.rng, f) for f in DF_FORCED]
        seen = set()
        for _ in range(n):
            try:
                c = gen(ctx.rng)
            except IndexError as exc:
                ctx.fail(f'kernel:{name}:IndexError', f'preparing a {name} case: a kernel py_func raised IndexError on '
                         f'arguments inside its precondition: {exc}', {'kind': 'kernel', 'canon': name})
                continue
            except Exception as exc:  # noqa
                ctx.broke(f'correspondence:access-trace:{name}:generator', f'{type(exc).__name__}: {exc}')
                continue
            if c.canon in seen:
                ctx.case(c.canon, False, kind=f'trace:{name}')
                continue
            seen.add(c.canon)
            cases.append(c)
        ob = f'correspondence:access-trace:{name}'
        ctx.obligations.append(ob)
        good = True
        lits = []
        for c in cases:
            ctx.case(c.canon, c.nontrivial, kind=f'trace:{name}')
            if isinstance(c.res, Exception):
                # arguments satisfy the kernel precondition, yet the pure-Python kernel raised
                if isinstance(c.res, IndexError):
                    ctx.fail(f'kernel:{c.kernel}:IndexError',
                             f'{c.kernel}.py_func raised IndexError on arguments inside its precondition: {c.res}',
                             {'kind': 'kernel', 'canon': repr(c.canon)})
                else:
                    ctx.broke(ob, f'{c.kernel}: unexpected {type(c.res).__name__}: {c.res} on {c.canon}')
                good = False
                continue
            bad_ev = [e for e in c.log if not T.wrap_ok(e)]
            if bad_ev:
                ctx.fail(f'kernel:{c.kernel}:trace-oob', f'{c.kernel}: logged access outside the array: {bad_ev[0]}',
                         {'kind': 'kernel', 'canon': repr(c.canon)})
            lits.append(c.term)
        ctx.traces += len(lits)
        per = 150
        for k in range(0, len(lits), per):
            sh = lits[k:k + per]
            text = HEADER + 'Definition cases : list bool := [\n' + ';\n'.join('  ' + t for t in sh) + \
                '\n].\nEval vm_compute in (bad (fun b : bool => b) cases).\n'
            vals = ctx.coq_eval(f'{name}{k // per}', text)
            if vals is None:
                good = False
            elif not vals or not (vals[0].startswith('(0%nat, [])') or vals[0].startswith('(0, [])')):
                good = False
                idx = [int(t) for t in __import__('re').findall(r'(\d+)%nat', vals[0] if vals else '')[1:3]]
                detail = '; '.join(repr(cases[k + i].canon)[:160] for i in idx if k + i < len(cases))
                ctx.broke(f'{ob}:shard{k // per}', f'model log != implementation log: {vals} first cases: {detail}')
        if good:
            ctx.discharged.append(ob)
        if cases:
            ctx.sample({'kind': f'trace:{name}', 'case': repr(cases[len(cases) // 2].canon)[:200],
                        'events': len(cases[len(cases) // 2].log)})


class _Reached(Exception):
    pass


# ================================================================== callers (discrete values)
def caller_correspondence(ctx):
    """The Python-level derivation of kernel arguments, recorded on public calls, against Callers.v."""
    su, po, sm, cl, misc, utils, sp = _mods()
    from pybaselines import Baseline
    rng = ctx.rng
    lits = []
    # peak_filling: record _setup_smooth's half window and the arguments of every kernel call
    rec = []
    orig_k = sm._directional_min_moving_avg
    orig_setup = sm._Smooth._setup_smooth

    def spy_k(y, data_len, half_window):
        if isinstance(data_len, np.ndarray) or isinstance(half_window, np.ndarray):
            rec.append(('karr', len(y)))     # numba cannot type this call: TypingError, no compiled code runs
            raise _Reached()
        rec.append(('k', len(y), int(data_len), int(half_window)))
        # never enter compiled code with unchecked arguments inside the harness process
        try:
            return getattr(orig_k, 'py_func', orig_k)(y, data_len, half_window)
        except Exception:  # noqa
            return y

    def spy_setup(self, *a, **k):
        out = orig_setup(self, *a, **k)
        rec.append(('hw', int(out[1])))
        return out
    sm._directional_min_moving_avg = spy_k
    sm._Smooth._setup_smooth = spy_setup
    npf = 0
    try:
        sizes = list(range(10, 41)) + [55, 80, 200]
        for N in sizes:
            for sections in (None, 1, 2, 3, N // 3, N - 1, N):
                for hw in (None, 1, 2, N // 2, N + 5):
                    for max_iter in ((1, 5) if N < 30 else (5,)):
                        if sections is not None and not (1 <= sections <= N):
                            continue
                        del rec[:]
                        y = np.sin(np.arange(N) / 3.0) + 2
                        with warnings.catch_warnings():
                            warnings.simplefilter('ignore')
                            try:
                                Baseline(np.arange(N, dtype=float)).peak_filling(
                                    y, half_window=hw, sections=sections, max_iter=max_iter)
                            except IndexError as exc:
                                ctx.fail('peak_filling:IndexError', f'peak_filling(N={N}, sections={sections}, '
                                         f'half_window={hw}, max_iter={max_iter}) raised IndexError: {exc}',
                                         {'kind': 'public', 'method': 'peak_filling', 'N': N,
                                          'kw': {'sections': sections, 'half_window': hw, 'max_iter': max_iter}})
                                continue
                            except Exception:  # noqa
                                continue
                        hws = [r[1] for r in rec if r[0] == 'hw']
                        ks = [r for r in rec if r[0] == 'k']
                        if not hws or not ks:
                            continue
                        secs = N // 10 if sections is None else sections
                        npf += 1
                        ctx.case(('pf', N, sections, hw, max_iter), True, kind='caller:peak_filling')
                        # (len y, data_len) of every call and the first half window come from the model;
                        # the rest of the schedule is the sampled library contract 1 <= h <= first
                        firsts = ks[0]
                        lits.append(f'((pf_call_args {secs} {hws[0]} {firsts[1] - secs}) =? {firsts[3]}) && '
                                    f'({firsts[2]} =? {secs}) && ((pf_y_len {secs} {firsts[1] - secs} 0) =? {firsts[1]})'
                                    f' && ({firsts[1] - secs} <=? 2) && (0 <=? {firsts[1] - secs})')
                        for r in ks:
                            if not (r[1] >= r[2] >= 1 and 1 <= r[3] <= max(firsts[3], 1)):
                                ctx.fail('peak_filling:schedule', f'peak_filling(N={N}, sections={sections}, '
                                         f'half_window={hw}, max_iter={max_iter}) called the kernel with '
                                         f'(len y, data_len, half_window) = {r[1:]}',
                                         {'kind': 'public', 'method': 'peak_filling', 'N': N,
                                          'kw': {'sections': sections, 'half_window': hw, 'max_iter': max_iter}})
        # `sections` as a sequence of split indices: kind (ndarray / int) and value of data_len, len(y)
        for N in (12, 40):
            for sq in ([N // 4, N // 2, 3 * N // 4], [N // 2] * 4, [0, 0, 1, N // 4], [0, 1, N // 2, N - 1], [N - 1],
                       [N // 2], list(range(N)), [3 * N // 4, N // 4], [N // 3, N // 3], [0], [1, 2, 3, 4, 5, 6]):
                for cont in (list, tuple, np.array):
                    del rec[:]
                    y = np.sin(np.arange(N) / 3.0) + 2
                    with warnings.catch_warnings():
                        warnings.simplefilter('ignore')
                        try:
                            Baseline(np.arange(N, dtype=float)).peak_filling(y, sections=cont(sq), half_window=2, max_iter=3)
                        except Exception:  # noqa
                            pass
                    k = len(sq)
                    uniq = len(set([0] + list(sq) + [N]))
                    ctx.case(('pf-seq', N, tuple(sq), cont.__name__), True, kind='caller:peak_filling-sequence')
                    if any(r[0] == 'karr' for r in rec):
                        lits.append('negb pf_seq_data_len_is_int')
                    for r in [r for r in rec if r[0] == 'k']:
                        lits.append(f'pf_seq_data_len_is_int && ((pf_seq_data_len {k} {uniq} {N}) =? {r[2]}) && '
                                    f'((pf_seq_y_len {k} {uniq} {r[1] - (uniq - 1)} 0) =? {r[1]})')
                        if not (r[1] >= r[2] >= 1):
                            ctx.fail('peak_filling:sequence:data_len', f'peak_filling(N={N}, sections={cont.__name__}({sq})) '
                                     f'called the kernel with len(y)={r[1]} < data_len={r[2]}',
                                     {'kind': 'public', 'method': 'peak_filling', 'N': N,
                                      'kw': {'sections': {'__seq__': 'list', 'v': list(sq)}, 'half_window': 2, 'max_iter': 3}})
                            break
    finally:
        sm._directional_min_moving_avg = orig_k
        sm._Smooth._setup_smooth = orig_setup

    # loess: arguments handed to _determine_fits
    rec2 = []
    orig_df = po._determine_fits

    def spy_df(x, num_x, total_points, delta):
        rec2.append((len(x), int(num_x), int(total_points)))
        raise _Reached()
    po._determine_fits = spy_df
    try:
        for N in (1, 2, 3, 4, 5, 8, 13):
            for p in (0, 1, 2):
                for tp in sorted({p, p + 1, N - 1, N, N + 1}):
                    del rec2[:]
                    with warnings.catch_warnings():
                        warnings.simplefilter('ignore')
                        try:
                            Baseline(np.arange(N, dtype=float)).loess(np.arange(N, dtype=float) % 3, total_points=tp,
                                                                      poly_order=p, max_iter=0)
                            raised = False
                        except _Reached:
                            raised = True
                        except IndexError as exc:
                            ctx.fail('loess:IndexError', f'loess(N={N}, total_points={tp}, poly_order={p}) raised IndexError: {exc}',
                                     {'kind': 'public', 'method': 'loess', 'N': N, 'kw': {'total_points': tp, 'poly_order': p}})
                            continue
                        except Exception:  # noqa
                            raised = True
                    reached = bool(rec2)
                    ctx.case(('lo-guard', N, p, tp), True, kind='caller:loess')
                    # the kernel is reached only if the generated guard accepts; then with (N, N, tp)
                    lits.append(f'(implb {coqbool(reached)} (negb (loess_rejects {tp} {p} {N})))'
                                + (f' && ({rec2[0][0]} =? {N}) && ({rec2[0][1]} =? {N}) && ({rec2[0][2]} =? {tp})'
                                   if reached else ''))
                    if not reached and not raised:
                        ctx.broke('correspondence:callers', f'loess(N={N},tp={tp},p={p}) returned without reaching the kernel')
    finally:
        po._determine_fits = orig_df

    # spline knots: lengths
    for degree in range(0, 6):
        for num_knots in (2, 3, 5, 10):
            x = np.linspace(0, 1, 7)
            knots = su._spline_knots(x, num_knots, degree, True)
            knots2 = su._spline_knots(x, num_knots, degree, False)
            data = su.__dict__['__make_design_matrix'].py_func(x, knots, degree)[0]
            ctx.case(('knots', degree, num_knots), True, kind='caller:spline')
            lits.append(f'((spline_nk {num_knots} {degree}) =? {len(knots)}) && ((spline_nk {num_knots} {degree}) =? {len(knots2)})'
                        f' && ({len(data)} =? {len(x)} * ({degree} + 1))')
    # _padded_rolling_std: length of the padded array handed to the kernel, also for half windows >= n
    rec3 = []
    orig_rs = cl._rolling_std

    def spy_rs(data, half_window, ddof):
        rec3.append((len(data), int(half_window)))
        raise _Reached()
    cl._rolling_std = spy_rs
    try:
        for n in range(1, ctx.n(9, 20)):
            for hw in range(0, 2 * n + 4):
                del rec3[:]
                try:
                    cl._padded_rolling_std(np.arange(n, dtype=float), hw, 1)
                except _Reached:
                    pass
                except Exception:  # noqa
                    continue
                if rec3:
                    ctx.case(('prs', n, hw), True, kind='caller:padded_rolling_std')
                    lits.append(f'((padded_len {n} {hw}) =? {rec3[0][0]}) && ({rec3[0][1]} =? {hw})')
    finally:
        cl._rolling_std = orig_rs

    # _find_peak_segments: model against implementation on random masks (exact)
    for _ in range(ctx.n(150, 1500)):
        n = rng.choice([1, 2, 3, 4, 5, 6, 8, 11, 15])
        pr = rng.choice([0.2, 0.5, 0.8])
        mask = [rng.random() < pr for _ in range(n)]
        st, en = cl._find_peak_segments(np.array(mask, dtype=bool))
        segs = [[int(a), int(b)] for a, b in zip(st, en)]
        ctx.case(('fps', tuple(mask)), any(mask) and not all(mask), kind='caller:find_peak_segments')
        lits.append(f'zll_eqb (pl (find_peak_segments {bools(mask)})) {zlist2(segs)}')

    # corner_cutting: what reaches the kernel (np.flatnonzero contract: strictly increasing, in range)
    rec4 = []
    orig_bz = sp._quadratic_bezier_spline

    def spy_bz(x, y, indices):
        rec4.append((len(x), len(y), [int(v) for v in indices]))
        raise _Reached()
    sp._quadratic_bezier_spline = spy_bz
    try:
        for N in (2, 3, 4, 5, 8, 13, 30):
            for mi in (1, 3, 100):
                del rec4[:]
                y = np.array([rng.uniform(0, 1) + 3 * math.exp(-0.5 * ((i - N / 2) / 1.5) ** 2) for i in range(N)])
                with warnings.catch_warnings():
                    warnings.simplefilter('ignore')
                    try:
                        Baseline(np.arange(N, dtype=float)).corner_cutting(y, max_iter=mi)
                    except _Reached:
                        pass
                    except Exception:  # noqa
                        continue
                if rec4:
                    nx_, ny_, idx = rec4[0]
                    ctx.case(('cc', N, mi, tuple(idx)), True, kind='caller:corner_cutting')
                    okc = nx_ == ny_ == N and all(0 <= v < N for v in idx) and all(a < b for a, b in zip(idx, idx[1:]))
                    if not okc:
                        ctx.broke('correspondence:callers', f'corner_cutting(N={N}) handed (len x, len y, indices) = {rec4[0]} to the kernel')
    finally:
        sp._quadratic_bezier_spline = orig_bz

    # np.flatnonzero: model against NumPy on a FIXED enumeration of masks (all masks of length <= 6, a few longer)
    import itertools
    fixed_masks = [list(m) for n in range(0, 7) for m in itertools.product((False, True), repeat=n)]
    fixed_masks += [[i % 3 == 0 for i in range(17)], [True] * 12, [False] * 12, [i in (0, 11) for i in range(12)]]
    for mask in fixed_masks:
        got = [int(v) for v in np.flatnonzero(np.array(mask, dtype=bool))]
        ctx.case(('fnz', tuple(mask)), any(mask), kind='caller:flatnonzero')
        lits.append(f'zl_eqb (flatnonzero {bools(mask)}) {zlist(got)}')

    text = HEADER + 'From PB Require Import gen.GenKernels C05.Fnz.\nDefinition cases : list bool := [\n' + \
        ';\n'.join('  ' + t for t in lits) + '\n].\nEval vm_compute in (bad (fun b : bool => b) cases).\n'
    ob = 'correspondence:caller-arguments(peak_filling,loess,spline,padded_rolling_std,find_peak_segments,corner_cutting)'
    ctx.obligations.append(ob)
    vals = ctx.coq_eval('callers', text)
    if vals is not None:
        if vals and (vals[0].startswith('(0%nat, [])') or vals[0].startswith('(0, [])')):
            ctx.discharged.append(ob)
        else:
            ctx.broke(ob, f'caller model and recorded kernel arguments disagree: {vals}')
    ctx.note(f'caller correspondence: {npf} peak_filling calls, loess guard grid, 24 knot vectors')


# ================================================================== histories on one fitter object
def history_grid(budget=1):
    """FIXED, enumerated histories: (x0, [(method, N, kw), ...]).  First calls that raise before the spline
    basis is cached, after it is cached, deep inside the method, or succeed; then other data lengths."""
    firsts = [('pspline_asls', {'lam': -1}), ('pspline_arpls', {'diff_order': 0}), ('mixture_model', {'max_iter': None}),
              ('pspline_asls', {'num_knots': 1}), ('pspline_asls', {'spline_degree': -1}), ('pspline_asls', {}),
              ('irsqr', {'quantile': 2}), ('asls', {'lam': -1}), ('loess', {'total_points': 0})]
    seconds = [('pspline_asls', {}), ('pspline_airpls', {}), ('pspline_asls', {'num_knots': 8}), ('mixture_model', {}),
               ('loess', {'max_iter': 1})]
    hist = []
    for x0 in (None, 40):
        for f in firsts:
            for sec in seconds:
                for n2 in (12, 40, 60):
                    hist.append((x0, [(f[0], 40, f[1]), (sec[0], n2, sec[1])]))
    # three steps: fail, shorter, longer; two failing calls in a row; a rejected length in between
    for f in firsts[:3]:
        hist.append((None, [(f[0], 40, f[1]), ('pspline_asls', 12, {}), ('pspline_asls', 60, {})]))
        hist.append((None, [(f[0], 60, f[1]), (f[0], 40, f[1]), ('pspline_asls', 12, {})]))
        hist.append((40, [(f[0], 40, f[1]), ('pspline_asls', 12, {}), ('pspline_asls', 40, {})]))
    if budget > 1:
        for f in firsts[:3]:
            for n1 in (400, 100):
                for n2 in (60, 10, 2):
                    hist.append((None, [(f[0], n1, f[1]), ('pspline_asls', n2, {})]))
    return hist


def coq_opt(v):
    return 'None' if v is None else f'(Some {int(v)})'


def history_correspondence(ctx):
    """Runs the histories on real Baseline objects with the compiled kernels replaced by recorders (no compiled
    repository code is entered), records cache use / kernel calls / raises and the object state after every call,
    and compares with coq/C05/State.v driven by the handlers extracted from the source."""
    su = _mods()[0]
    from pybaselines import Baseline
    events = []
    orig_init, orig_same = su.SplineBasis.__init__, su.SplineBasis.same_basis
    orig_btb, orig_mdm = su._numba_btb_bty, su._make_design_matrix
    pyf = su.__dict__['__make_design_matrix']
    pyf = getattr(pyf, 'py_func', pyf)

    def spy_init(self, x, num_knots=100, spline_degree=3, check_finite=False):
        orig_init(self, x, num_knots, spline_degree, check_finite)
        events.append(('spline', int(self.num_knots), int(self.spline_degree)))

    def spy_same(self, num_knots=100, spline_degree=3):
        r = orig_same(self, num_knots, spline_degree)
        if r:
            events.append(('spline', int(num_knots), int(spline_degree)))
        return r

    def spy_btb(x, knots, degree, y, weights, ab, rhs, basis_data):
        events.append(('kernel', len(knots) - 2 * int(degree), int(degree), len(x), len(y), len(weights)))
        raise _Reached()

    def safe_mdm(x, knots, degree):
        data, ri, ci = pyf(x, knots, degree)
        return su.csr_object((data, (ri, ci)), (len(x), len(knots) - degree - 1))

    def state(f):
        b = f._spline_basis
        return ([0, 0] if f.x is None else [1, len(f.x)]) + ([0, 0] if f._size is None else [1, int(f._size)]) + \
            ([0, 0, 0, 0] if b is None else [1, int(b.num_knots), int(b.spline_degree), len(b.x)])

    su.SplineBasis.__init__, su.SplineBasis.same_basis = spy_init, spy_same
    su._numba_btb_bty, su._make_design_matrix = spy_btb, safe_mdm
    lits = []
    try:
        for x0, steps in history_grid(1 if ctx.tier == 'quick' else 2):
            fitter = Baseline() if x0 is None else Baseline(np.arange(x0, dtype=float))
            calls, states, obs = [], [], []
            skip = False
            for (m, n, kw) in steps:
                if m == 'loess':
                    skip = True          # loess enters compiled kernels; it is exercised by the worker oracle only
                    break
                del events[:]
                y = np.sin(np.arange(n) / 3.0) + 2
                raised = False
                with warnings.catch_warnings(), np.errstate(all='ignore'):
                    warnings.simplefilter('ignore')
                    try:
                        getattr(fitter, m)(y, **kw)
                    except Exception:  # noqa
                        raised = True
                acts = []
                for ev in events:
                    if ev[0] == 'spline':
                        acts.append(f'ASpline {ev[1]} {zl(ev[2])}')
                    else:
                        acts.append('AKernel')
                        obs.append(list(ev[1:]))
                        if not (ev[3] == ev[4] == ev[5]):
                            ctx.fail('history:pspline:stale-state',
                                     f'Baseline({"" if x0 is None else "x of %d points" % x0}) history {steps}: '
                                     f'_numba_btb_bty would be called with len(basis.x)={ev[3]}, len(y)={ev[4]}, '
                                     f'len(weights)={ev[5]}',
                                     {'kind': 'public', 'method': 'HIST', 'N': 0, 'x': 'uniform',
                                      'kw': {'x0': x0, 'steps': [[a, b, c] for a, b, c in steps]}})
                if raised:
                    acts.append('ARaise')
                calls.append(f'({n}, [{"; ".join(acts)}])')
                states.append(state(fitter))
            if skip:
                continue
            ctx.case(('hist', x0, json.dumps(steps, sort_keys=True)), True, kind='history:pspline')
            lits.append(f'hist_ok {coq_opt(x0)} [{"; ".join(calls)}] {zlist2(states)} {zlist2(obs)}')
    finally:
        su.SplineBasis.__init__, su.SplineBasis.same_basis = orig_init, orig_same
        su._numba_btb_bty, su._make_design_matrix = orig_btb, orig_mdm
    text = HEADER + '''From PB Require Import gen.GenKernels C05.State.
Definition hist_ok (x0 : option Z) (calls : list (Z * list act)) (st : list (list Z)) (ob : list (list Z)) : bool :=
  let '(ss, os) := run_history wrapper_handlers calls (init_state x0) in
  zll_eqb (map state_flat ss) st && zll_eqb (map obs_flat os) ob.
Definition cases : list bool := [
''' + ';\n'.join('  ' + t for t in lits) + '\n].\nEval vm_compute in (bad (fun b : bool => b) cases).\n'
    ob = 'correspondence:fitter-state-histories(x,_size,cached basis;kernel argument lengths)'
    ctx.obligations.append(ob)
    vals = ctx.coq_eval('histories', text)
    if vals is not None:
        if vals and (vals[0].startswith('(0%nat, [])') or vals[0].startswith('(0, [])')):
            ctx.discharged.append(ob)
        else:
            ctx.broke(ob, f'state model and recorded object state / kernel arguments disagree: {vals}')
    ctx.note(f'history correspondence: {len(lits)} histories on one Baseline object (with / without x_data)')


# ================================================================== direct oracle (worker processes)
def oracle_jobs(ctx, budget):
    """(method, N, kwargs) grid of public calls that reach a compiled kernel."""
    jobs = []
    small = [1, 2, 3, 4, 5, 6, 7, 8, 10, 12, 15, 19, 20, 25, 29, 30, 31, 40]
    if budget > 1:
        small += [9, 11, 13, 17, 21, 24, 26, 35, 50, 64]
    # loess
    for N in [n for n in small if n <= (20 if budget == 1 else 31)]:
        for p in (0, 1, 2):
            tps = sorted({p, p + 1, (p + 1 + N) // 2, N - 1, N, N + 1})   # incl. both rejected neighbours
            for tp in tps:
                if tp < 0:
                    continue
                for delta in (None, 0.0, 0.5, 1.5, float(N), 100.0 * N):
                    for cm in ((True, False) if (N <= 8 or budget > 1) else (True,)):
                        for xk in ('uniform', 'lastgap', 'cluster'):
                            if xk != 'uniform' and (delta is None or delta == 0.0):
                                continue
                            jobs.append(('loess', N, {'total_points': tp, 'poly_order': p, 'delta': delta,
                                                      'conserve_memory': cm, 'max_iter': 1}, xk))
    # peak filling
    for N in small + [100]:
        for sections in (None, 1, 2, 3, max(1, N // 4), N):
            for hw in (None, 1, 3, N):
                for mi in (1, 5):
                    jobs.append(('peak_filling', N, {'sections': sections, 'half_window': hw, 'max_iter': mi}, 'uniform'))
    # peak filling with `sections` as a sequence of split indices (list / tuple / ndarray, class and functional)
    for N in (12, 40):
        seqs = [[N // 4, N // 2, 3 * N // 4], [N // 2] * 4, [0, 0, 1, N // 4], [0, 1, N // 2, N - 1], [N - 1],
                [N // 2], [], list(range(N)), [3 * N // 4, N // 4, N // 2], [1, N], [N // 3, N // 3], [0], [-1, 3],
                [1, 2, 3, 4, 5, 6]]
        for sq in seqs:
            for cont in ('list', 'tuple', 'array'):
                for meth in ('peak_filling', 'F:smooth.peak_filling'):
                    for hw in (None, 2):
                        jobs.append((meth, N, {'sections': {'__seq__': cont, 'v': sq}, 'half_window': hw,
                                               'max_iter': 3}, 'uniform'))
    # histories on one object (rejected first calls, then other data lengths)
    for x0, steps in history_grid(budget):
        jobs.append(('HIST', 0, {'x0': x0, 'steps': [[a, b, c] for a, b, c in steps]}, 'uniform'))
    # memory layouts and magnitudes of the data
    for mod in ('negstride', 'strided', 'fortran2d', 'big', 'tiny'):
        for N in (9, 31):
            for m, kw in (('pspline_asls', {'max_iter': 2}), ('loess', {'max_iter': 1, 'total_points': 5}),
                          ('loess', {'max_iter': 1, 'delta': 3.0, 'conserve_memory': False}),
                          ('peak_filling', {}), ('std_distribution', {'half_window': 2}), ('corner_cutting', {}),
                          ('beads', {'max_iter': 2, 'freq_cutoff': 0.2}), ('mixture_model', {'max_iter': 2})):
                jobs.append((m, N, kw, 'uniform+' + mod))
    # P-spline family and other spline methods that use the kernels
    for N in [n for n in small if n >= 2]:
        for degree in (0, 1, 2, 3, 5):
            for num_knots in (2, 3, 10, N + 5):
                for m in (('pspline_asls', 'mixture_model', 'irsqr', 'pspline_arpls') if budget > 1 or N <= 12
                          else ('pspline_asls',)):
                    kw = {'spline_degree': degree, 'num_knots': num_knots, 'max_iter': 2}
                    if m in ('pspline_asls', 'pspline_arpls', 'mixture_model', 'irsqr'):
                        kw['diff_order'] = min(2, num_knots + degree - 2) or 1
                    jobs.append((m, N, kw, 'uniform'))
    for N in small:
        for mi in (1, 100):
            jobs.append(('corner_cutting', N, {'max_iter': mi}, 'uniform'))
            jobs.append(('corner_cutting', N, {'max_iter': mi}, 'peaks'))
    for N in small:
        for hw in (None, 1, 2, N // 2, N, 2 * N):
            jobs.append(('std_distribution', N, {'half_window': hw}, 'peaks'))
            jobs.append(('fastchrom', N, {'half_window': hw}, 'peaks'))
        for ihw in (0, 1, N):
            jobs.append(('std_distribution', N, {'half_window': 2, 'interp_half_window': ihw}, 'peaks'))
    for N in [n for n in small if n >= 3]:
        for ft in (1, 2):
            jobs.append(('beads', N, {'filter_type': ft, 'max_iter': 2, 'freq_cutoff': 0.2}, 'peaks'))
            jobs.append(('beads', N, {'filter_type': ft, 'max_iter': 2, 'freq_cutoff': 0.2, 'fit_parabola': False}, 'peaks'))
    return jobs


def run_workers(ctx, jobs, mode, nproc, timeout):
    """Runs the jobs in worker processes; returns list of (job, outcome)."""
    chunks = [jobs[i::nproc] for i in range(nproc)]
    procs = []
    cache = os.path.join(VERIF, '.cache', f'numba_c05_{mode}')
    os.makedirs(cache, exist_ok=True)
    for k, ch in enumerate(chunks):
        if not ch:
            continue
        env = dict(os.environ)
        env['PYTHONPATH'] = f'{VERIF}:{REPO}'
        env.pop('NUMBA_DISABLE_JIT', None)
        env.pop('NUMBA_BOUNDSCHECK', None)
        if mode == 'nojit':
            env['NUMBA_DISABLE_JIT'] = '1'
        else:
            env['NUMBA_BOUNDSCHECK'] = '1'
            env['NUMBA_CACHE_DIR'] = cache
        p = subprocess.Popen([sys.executable, '-m', 'harness.c05_worker'], stdin=subprocess.PIPE,
                             stdout=subprocess.PIPE, stderr=subprocess.PIPE, text=True, env=env, cwd=VERIF)
        procs.append((p, ch))
    results = []
    for p, ch in procs:
        try:
            out, err = p.communicate(json.dumps(ch), timeout=timeout)
        except subprocess.TimeoutExpired:
            p.kill()
            out, err = p.communicate()
            ctx.note(f'oracle worker ({mode}) timed out after {timeout}s; {len(ch)} jobs partly unexecuted')
        lines = [json.loads(l) for l in out.split('\n') if l.startswith('{')]
        done = {l['i']: l for l in lines if 'i' in l}
        for i, job in enumerate(ch):
            if i in done:
                results.append((job, done[i]))
        if p.returncode not in (0, None) and p.returncode != -9:
            # abnormal exit: the job after the last reported one killed the interpreter
            nxt = len(done)
            job = ch[nxt] if nxt < len(ch) else None
            results.append((job, {'status': 'crash', 'rc': p.returncode, 'err': err[-400:]}))
    return results


def job_key(job, status):
    m, N, kw, xk = job
    cls = ','.join(f'{k}={"None" if v is None else ("N" if v == N else v)}' for k, v in sorted(kw.items())
                   if k in ('total_points', 'sections', 'half_window', 'spline_degree', 'filter_type'))
    return f'public:{m}:{status}'


def oracle(ctx, budget):
    jobs = oracle_jobs(ctx, budget)
    ctx.rng.shuffle(jobs)
    first = [j for j in jobs if j[0] == 'HIST' or '__seq__' in json.dumps(j[2])]
    fid = set(map(id, first))
    jobs = first + [j for j in jobs if id(j) not in fid]
    t0 = time.time()
    nproc = min(14, os.cpu_count() or 4)
    found = 0
    for mode, tmo in (('nojit', ctx.n(110, 420)), ('boundscheck', ctx.n(110, 420))):
        sel = jobs
        if mode == 'boundscheck' and budget == 1:
            sel = [j for j in jobs if j[1] <= 31]
        res = run_workers(ctx, sel, mode, nproc, tmo)
        st = {}
        for job, r in res:
            st[r['status']] = st.get(r['status'], 0) + 1
            if job is not None:
                ctx.case(('oracle', mode, job[0], job[1], json.dumps(job[2], sort_keys=True), job[3]),
                         r['status'] in ('ok', 'raised'), kind=f'oracle:{mode}:{job[0]}:{r["status"]}')
            if r['status'] in ('indexerror', 'crash', 'negative-index'):
                found += 1
                what = (f'{job[0] if job else "?"}(N={job[1] if job else "?"}, {job[2] if job else ""}, x={job[3] if job else ""}) '
                        f'[{mode}]: {r["status"]} {r.get("msg", r.get("err", ""))[:200]}')
                ctx.fail(job_key(job, r['status']) if job else 'public:crash', what,
                         {'kind': 'public', 'method': job[0], 'N': job[1], 'kw': job[2], 'x': job[3], 'mode': mode}
                         if job else {'kind': 'crash'})
        ctx.note(f'oracle[{mode}]: {len(res)}/{len(sel)} public calls executed in {nproc} worker processes, outcomes {st}')
        ctx.hist[f'oracle:{mode}:executed'] = len(res)
    ctx.note(f'oracle wall {time.time() - t0:.0f}s')
    return found


# ================================================================== run / replay
def run(ctx):
    ctx.rule = ('kernel cases: argument tuples inside each kernel precondition (spline degree 0-5, 2-9 knots, '
                'loess x: uniform/gapped/duplicated/unsorted/NaN with total_points 1..N and delta from <=0 to beyond the range, '
                'dmma half windows 0..3N+7, padded rolling std, banded products with 0-3 bands); distinct = distinct '
                '(lengths, parameters, comparison outcomes); non-trivial = trace with a loop iteration. '
                'oracle cases: distinct public calls, non-trivial = returned or raised a Python exception')
    ctx.trusted += [
        'numba code generation and its wrap-around of negative indices; NumPy slicing (clamps, never out of bounds)',
        'harness/c05_trace.py: the logging ndarray / float subclasses and the re-binding of kernel globals '
        '(np allocators, callee kernels, _loess_solver stub) faithfully execute kernel.py_func',
        'library contracts taken as hypotheses: len(_spline_knots) and csr data length (sampled), '
        'ceil(logspace(log10(h),0,m)) in [1,h] for h>=1 (sampled), np.argmin in [0,n) (oracle-chosen in the model), '
        'np.flatnonzero strictly increasing in range (sampled), lengths of np.pad/np.concatenate/np.linspace/np.repeat/'
        'np.percentile/np.empty results as translated by tools/gen_kernels.py len_expr (sampled)',
    ]
    ctx.gate()
    ctx.translate(['GenKernels'])
    ok = ctx.build_props()
    for part in (correspondence, caller_correspondence, history_correspondence):
        try:
            part(ctx)
        except Exception:  # noqa
            import traceback
            ctx.broke(f'harness:{part.__name__}', traceback.format_exc()[-1500:])
    budget = 1 if (ok and not ctx.broken) else 2
    if ctx.tier == 'thorough':
        budget = 2
    found = oracle(ctx, budget)
    ctx.note(f'direct oracle budget x{budget}: {found} failing public calls')
    ctx.note('not covered: 2-D (two_d/) callers; beads band-array shapes (hypothesis); '
             'numba typing errors; trace cases use N <= 17')


def replay(rep):
    case = rep.get('case') or {}
    if case.get('kind') == 'public':
        job = (case['method'], case['N'], case['kw'], case.get('x', 'uniform'))
        env = dict(os.environ)
        env['NUMBA_DISABLE_JIT'] = '1'
        env['PYTHONPATH'] = f'{VERIF}:{REPO}'
        p = subprocess.run([sys.executable, '-m', 'harness.c05_worker'], input=json.dumps([job]), text=True,
                           capture_output=True, env=env, cwd=VERIF)
        print('replay public call:', p.stdout.strip()[-400:], 'rc', p.returncode)
        bad = p.returncode != 0 or any(s in p.stdout for s in ('indexerror', 'negative-index', 'crash'))
        return 1 if bad else 0
    print('replay: nothing concrete to replay; broken obligations were:', rep.get('broken_obligations'))
    return 1
