"""C05 oracle worker: executes public calls given as JSON on stdin, one JSON result line per job.

NUMBA_DISABLE_JIT=1 : kernels run as Python, an out-of-range subscript raises IndexError inside a kernel
                      frame; the kernels are additionally run on logging arrays so that silently wrapped
                      negative subscripts are seen.
NUMBA_BOUNDSCHECK=1 : compiled kernels with index checking (private cache directory).
An IndexError that comes from a kernel is reported as 'indexerror'; any other exception is the legal
outcome 'raised'.  A crash of this process is detected by the parent through the exit status."""
import json
import os
import sys
import traceback
import warnings

import numpy as np

KERNELS = {'_find_interval', '_de_boor', '__make_design_matrix', '_numba_btb_bty', '_fill_skips',
           '_loess_low_memory', '_loess_first_loop', '_loess_nonfirst_loops', '_determine_fits',
           '_directional_min_moving_avg', '_rolling_std', '_numba_banded_dot_banded', '_quadratic_bezier',
           '_quadratic_bezier_spline', '_interp_inplace', '_loess_solver'}
# literal negative subscripts of the kernels (see coq/C05/Model.v, constructor CN)
ALLOWED_NEG = {-1, -2}
INT_PARAMS = {'_directional_min_moving_avg': (1, 2), '_determine_fits': (1, 2), '_rolling_std': (1, 2)}


def make_data(N, xkind):
    xkind, _, mods = xkind.partition('+')
    x, y = _make_data(N, xkind)
    for m in mods.split('+'):
        if m == 'big':
            y = y * 1e300
        elif m == 'tiny':
            y = y * 1e-300
        elif m == 'negstride':                      # reversed views of reversed copies: same values, stride < 0
            x, y = x[::-1].copy()[::-1], y[::-1].copy()[::-1]
        elif m == 'strided':                        # every second element of a larger buffer
            bx, by = np.zeros(2 * N), np.zeros(2 * N)
            bx[::2], by[::2] = x, y
            x, y = bx[::2], by[::2]
        elif m == 'fortran2d':                      # a column of a Fortran-ordered matrix
            my = np.asfortranarray(np.tile(y[None, :], (3, 1)))
            y = my[1]
    return x, y


def _make_data(N, xkind):
    x = np.arange(N, dtype=float)
    if xkind == 'lastgap' and N >= 2:
        x[-1] = x[-2] + 10.0 * N
    elif xkind == 'cluster':
        x = np.floor(x / 3.0) * 10.0 + (x % 3) * 1e-3
    t = np.arange(N, dtype=float)
    y = 2.0 + np.sin(t / 3.0) + 0.01 * ((t * 7919) % 13)
    if True:
        for c in (N // 3, (2 * N) // 3):
            y = y + 5.0 * np.exp(-0.5 * ((t - c) / 1.5) ** 2)
    return x, y


def from_kernel(exc, nojit):
    tb = traceback.extract_tb(exc.__traceback__)
    if not tb:
        return False
    if nojit:
        return any(fr.name in KERNELS for fr in tb)
    last = tb[-1]
    return 'pybaselines' in last.filename and any(k + '(' in (last.line or '') for k in KERNELS)


def install_trace():
    """JIT disabled: wrap the kernels that are entered from Python so they run on logging arrays."""
    from harness import c05_trace as T
    from pybaselines import _spline_utils as su, polynomial as po, smooth as sm, classification as cl
    from pybaselines import misc, utils, spline as sp
    bad = []

    def wrap(mod, name):
        orig = getattr(mod, name)

        def wrapped(*args):
            # numba types scalar parameters: an ndarray where the kernel computes with an integer makes the
            # dispatch fail with TypingError before any compiled code runs (checked by the boundscheck workers)
            if name in INT_PARAMS:
                for pos in INT_PARAMS[name]:
                    if pos < len(args) and isinstance(args[pos], np.ndarray):
                        raise TypeError('numba TypingError (mimicked): ndarray passed for an integer parameter')
            g = dict(orig.__globals__)
            g['np'] = T.NpProxy([])
            import types
            f = types.FunctionType(orig.__code__, g, orig.__name__, orig.__defaults__, orig.__closure__)
            largs = [a.view(T.LogArr) if isinstance(a, np.ndarray) else a for a in args]
            n0 = len(T.LOG)
            try:
                res = f(*largs)
            finally:
                for ev in T.LOG[n0:]:
                    if ev[0] != 2:
                        comps, k = ev[2:], 0
                        while k < len(comps):
                            if comps[k] == 0:
                                if comps[k + 1] < 0 and comps[k + 1] not in ALLOWED_NEG or comps[k + 1] < -comps[k + 2]:
                                    bad.append((name, ev))
                                k += 3
                            else:
                                k += 6
                del T.LOG[n0:]
                del T.CMP[:]
            if isinstance(res, tuple):
                return tuple(r.view(np.ndarray) if isinstance(r, np.ndarray) else r for r in res)
            return res.view(np.ndarray) if isinstance(res, np.ndarray) else res
        setattr(mod, name, wrapped)
    wrap(po, '_determine_fits')
    wrap(sm, '_directional_min_moving_avg')
    wrap(cl, '_rolling_std')
    wrap(misc, '_numba_banded_dot_banded')
    return bad


def decode(kw, N):
    out = {}
    for k, v in kw.items():
        if isinstance(v, dict) and '__seq__' in v:
            vals = list(v['v'])
            out[k] = {'list': vals, 'tuple': tuple(vals), 'array': np.array(vals, dtype=int)}[v['__seq__']]
        else:
            out[k] = v
    return out


def classify(exc, nojit):
    if isinstance(exc, IndexError) and from_kernel(exc, nojit):
        return 'indexerror', f'{exc} @ {traceback.extract_tb(exc.__traceback__)[-1].name}'
    if isinstance(exc, IndexError):
        return 'raised', 'IndexError(python level)'
    return 'raised', type(exc).__name__


def run_history(kw, nojit, bad):
    """a sequence of public calls on ONE Baseline object; worst outcome of the steps"""
    from pybaselines import Baseline
    x0 = kw.get('x0')
    fitter = Baseline() if x0 is None else Baseline(np.arange(int(x0), dtype=float))
    status, msgs = 'ok', []
    for k, (method, N, skw) in enumerate(kw['steps']):
        _, y = make_data(int(N), 'uniform')
        try:
            getattr(fitter, method)(y, **decode(skw, N))
            st, msg = 'ok', ''
        except Exception as exc:  # noqa
            st, msg = classify(exc, nojit)
        if bad and st != 'indexerror':
            st, msg = 'negative-index', f'{bad[0][0]}: wrapped negative subscript {bad[0][1]}'
        msgs.append(f'step{k}:{st}:{msg}')
        if st in ('indexerror', 'negative-index'):
            return st, '; '.join(msgs)
        if st == 'raised':
            status = 'raised'
    return status, '; '.join(msgs)


def main():
    jobs = json.loads(sys.stdin.read())
    nojit = os.environ.get('NUMBA_DISABLE_JIT') == '1'
    from pybaselines import Baseline
    bad = install_trace() if nojit else []
    for i, (method, N, kw, xkind) in enumerate(jobs):
        x, y = make_data(N, xkind)
        del bad[:]
        out = {'i': i}
        try:
            with warnings.catch_warnings(), np.errstate(all='ignore'):
                warnings.simplefilter('ignore')
                if method == 'HIST':
                    st, msg = run_history(kw, nojit, bad)
                    out['status'], out['msg'] = st, msg
                    sys.stdout.write(json.dumps(out) + '\n')
                    sys.stdout.flush()
                    continue
                if method.startswith('F:'):
                    import pybaselines.api  # noqa
                    import importlib
                    mod_name, fname = method[2:].split('.')
                    getattr(importlib.import_module('pybaselines.' + mod_name), fname)(y, x_data=x, **decode(kw, N))
                else:
                    getattr(Baseline(x), method)(y, **decode(kw, N))
            out['status'] = 'ok'
        except IndexError as exc:
            if from_kernel(exc, nojit):
                out['status'] = 'indexerror'
                out['msg'] = f'{exc} @ {traceback.extract_tb(exc.__traceback__)[-1].name}'
            else:
                out['status'] = 'raised'
                out['msg'] = 'IndexError(python level)'
        except Exception as exc:  # noqa
            out['status'] = 'raised'
            out['msg'] = type(exc).__name__
        if bad and out['status'] in ('ok', 'raised'):
            out['status'] = 'negative-index'
            out['msg'] = f'{bad[0][0]}: wrapped negative subscript {bad[0][1]}'
        sys.stdout.write(json.dumps(out) + '\n')
        sys.stdout.flush()


if __name__ == '__main__':
    main()
