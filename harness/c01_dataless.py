"""C01 -- ordering clause on the DATA-LESS entry of the wrappers: every public method whose `data`
argument may be None (derived from the signatures) is called without data on fitters whose x is given in
reversed / rotated / interleaved / shuffled order; the returned baseline (and every per-point params entry)
must be the result for ascending x permuted like the input x.  Fixed, enumerated grid."""
import inspect
import warnings

import numpy as np

PERMS = ('sorted', 'reversed', 'rot1', 'rot5', 'interleave', 'shuffle')


def perm_of(kind, n):
    idx = np.arange(n)
    if kind == 'reversed':
        return idx[::-1].copy()
    if kind == 'rot1':
        return np.roll(idx, 1)
    if kind == 'rot5':
        return np.roll(idx, 5 % n)
    if kind == 'interleave':
        return np.concatenate([idx[::2], idx[1::2]])
    if kind == 'shuffle':
        return np.random.default_rng(12345).permutation(n)
    return idx


def dataless_methods():
    """[(class name, method name)] whose `data` parameter has the default None"""
    from pybaselines import Baseline, Baseline2D
    out = []
    for cls in (Baseline, Baseline2D):
        for name in sorted(dir(cls)):
            if name.startswith('_'):
                continue
            f = getattr(cls, name)
            if not callable(f):
                continue
            try:
                par = inspect.signature(f).parameters.get('data')
            except (TypeError, ValueError):
                continue
            if par is not None and par.default is None:
                out.append((cls.__name__, name))
    return out


def call_kwargs(name, x_sorted):
    """arguments that do not depend on the order of x (given in x-VALUES, as documented)"""
    n = len(x_sorted)
    if name == 'interp_pts':
        pts = [(x_sorted[0], 1.0), (x_sorted[n // 4], 4.0), (x_sorted[n // 2], 2.5), (x_sorted[3 * n // 4], 6.0), (x_sorted[-1], 3.0)]
        return [dict(baseline_points=np.array(pts), interp_method=m) for m in ('linear', 'cubic', 'nearest')]
    return [dict()]


def run_case(case):
    """Returns (failure description or None).  case: cls, method, n, perm, kwargs index, output_dtype, second_call, functional"""
    import pybaselines
    cls = getattr(pybaselines, case['cls'])
    n = case['n']
    x = np.linspace(-3.0, 17.0, n) + 0.01 * np.arange(n) ** 1.5
    perm = perm_of(case['perm'], n)
    xs = x[perm]
    kw = call_kwargs(case['method'], x)[case['kw']]
    odt = {'None': None, 'float32': np.float32}[case['output_dtype']]
    with warnings.catch_warnings():
        warnings.simplefilter('ignore')
        try:
            ref, pref = getattr(cls(x, output_dtype=odt), case['method'])(**kw)
        except Exception as exc:  # noqa
            return None if case['perm'] == 'sorted' else f'reference call on ascending x raised {type(exc).__name__}: {exc}'
        try:
            if case.get('functional'):
                mod = __import__('pybaselines.misc', fromlist=['x'])
                got, pgot = getattr(mod, case['method'])(x_data=xs, **kw)
                ref, pref = getattr(mod, case['method'])(x_data=x, **kw)
            else:
                fit = cls(xs, output_dtype=odt)
                if case.get('second_call'):
                    getattr(fit, case['method'])(**kw)
                    if case['second_call'] == 'after-data':
                        getattr(fit, case['method'])(np.cos(xs), **kw)
                got, pgot = getattr(fit, case['method'])(**kw)
        except Exception as exc:  # noqa
            return f'raised {type(exc).__name__}: {exc} although the same call on ascending x returns'
    ref = np.asarray(ref)
    got = np.asarray(got)
    want = ref[perm]
    if got.shape != want.shape:
        return f'baseline shape {got.shape}, expected {want.shape}'
    if got.dtype != ref.dtype:
        return f'baseline dtype {got.dtype}, ascending-x call gives {ref.dtype}'
    if not np.allclose(got, want, rtol=1e-10, atol=1e-12, equal_nan=True):
        pos = int(np.argmax(np.abs(got - want)))
        in_sorted_order = np.allclose(got, ref, rtol=1e-10, atol=1e-12, equal_nan=True)
        return (f'baseline is not in the order of the given x (first difference at index {pos}: {got[pos]!r} vs {want[pos]!r}'
                + ('; it is in ASCENDING-x order instead' if in_sorted_order else '') + ')')
    for k, v in pref.items():
        v = np.asarray(v)
        if v.ndim >= 1 and v.shape[-1:] == (case['n'],) and k in pgot:
            g = np.asarray(pgot[k])
            if g.shape != v.shape or not np.allclose(g, v[..., perm], rtol=1e-10, atol=1e-12, equal_nan=True):
                return f'params[{k!r}] is not in the order of the given x'
    return None


def dataless_grid():
    cases = []
    for cls, name in dataless_methods():
        two_d = cls == 'Baseline2D'
        if two_d:
            continue        # (no 2-D method accepts data=None; the list is derived, so a new one would show up in ctx.note)
        for n in (12, 31):
            for perm in PERMS:
                for kw in range(3 if name == 'interp_pts' else 1):
                    for odt in ('None', 'float32'):
                        cases.append(dict(cls=cls, method=name, n=n, perm=perm, kw=kw, output_dtype=odt, second_call=None))
                for sc in ('dataless', 'after-data'):
                    cases.append(dict(cls=cls, method=name, n=n, perm=perm, kw=0, output_dtype='None', second_call=sc))
                if name == 'interp_pts':
                    cases.append(dict(cls=cls, method=name, n=n, perm=perm, kw=0, output_dtype='None', second_call=None, functional=True))
    return cases


def dataless_oracle(ctx):
    meths = dataless_methods()
    n = 0
    for case in dataless_grid():
        case = dict(case, kind='dataless')
        err = run_case(case)
        ctx.case(('dataless', tuple(sorted((k, str(v)) for k, v in case.items()))), nontrivial=case['perm'] not in ('sorted', 'reversed'),
                 kind=f'oracle:dataless:{case["perm"]}')
        n += 1
        if err:
            ctx.fail(f'order:{case["method"]}:1d:dataless:baseline',
                     f'{case["cls"]}.{case["method"]} called WITHOUT data on x given in {case["perm"]} order (n={case["n"]}, '
                     f'kwargs #{case["kw"]}, output_dtype={case["output_dtype"]}, second_call={case["second_call"]}, '
                     f'functional={bool(case.get("functional"))}): {err}', case)
    ctx.note(f'data-less entry: methods whose data may be None (from the signatures): {meths}; {n} calls on sorted / reversed / rotated / '
             'interleaved / shuffled x compared with the ascending-x result permuted like x')
    return n


def replay_dataless(case):
    err = run_case(case)
    print('replay data-less call:', err or 'the baseline is in the order of the given x')
    return 1 if err else 0
