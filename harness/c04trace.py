"""C04 instrumentation: shared-attribute access recorder and deterministic thread scheduler.

Nothing in /repo is edited: `__getattribute__` / `__setattr__` of the fitter base classes, `_PolyHelper`
(`_PolyHelper2D`) and `SplineBasis` (`SplineBasis2D`) are patched for the duration of a `with Instrument()`
block.  Every access to a *tracked cell* is (a) appended to the per-thread event log and (b) a yield point
of the controlled scheduler: the thread parks BEFORE performing the access and is released by the
controller according to the schedule (a list of thread ids).  One model step = one tracked access plus
the thread-local computation that follows it.
"""
import functools
import sys
import threading
import time
import warnings

import numpy as np

# cells of the fitter objects that calls may write (everything else must be read-only during a call)
FIT_CELLS_1D = {'x': 'x', '_Algorithm__size': 'size', '_shape': 'shape', '_validated_x': 'valid',
                '_polynomial': 'poly', '_spline_basis': 'spline'}
FIT_CELLS_2D = {'x': 'x', 'z': 'z', '_Algorithm2D__shape': 'shape', '_size': 'size',
                '_validated_x': 'validx', '_validated_z': 'validz',
                '_polynomial': 'poly', '_spline_basis': 'spline'}
# property names that forward to a cell (the cell access itself is what is logged)
FIT_FORWARD_1D = {'_size'}
FIT_FORWARD_2D = {'_shape'}
HELPER_CELLS = {'vandermonde': 'vander', 'poly_order': 'order', 'pinv_stale': 'stale',
                '_pseudo_inverse': 'pinv'}
HELPER2D_EXTRA = {'max_cross': 'cross'}
BASIS_CELLS = {'num_knots': 'knots', 'spline_degree': 'degree'}

STEP_TIMEOUT = 120.0     # seconds one scheduled step may take before the run is declared broken


class SchedulerBroken(Exception):
    pass


class _Kill(BaseException):
    """Raised inside a parked thread when the scheduler gives up (never swallowed by `except Exception`)."""


class Recorder:
    """Per-thread event logs + optional scheduler hook."""

    def __init__(self):
        self.logs = {}            # thread ident -> list of events
        self.unmodelled = []      # writes to attributes that are not tracked cells
        self.sched = None
        self.active = True
        self.track_config = False
        self.targets = set()      # id() of the shared fitter objects
        self.stacks = {}          # thread ident -> stack of fitter objects whose method is executing
        self.building = {}        # thread ident -> depth of _PolyHelper/SplineBasis constructors

    def stack(self):
        return self.stacks.setdefault(threading.get_ident(), [])

    def owner_is_target(self):
        st = self.stacks.get(threading.get_ident())
        return bool(st) and id(st[-1]) in self.targets

    def constructing(self):
        return self.building.get(threading.get_ident(), 0) > 0

    def log(self, ev):
        self.logs.setdefault(threading.get_ident(), []).append(ev)

    def access(self, kind, obj_kind, cell):
        """Called BEFORE the access is performed."""
        if not self.active:
            return
        s = self.sched
        if s is not None:
            s.yield_point()
        self.log((kind, obj_kind, cell))


_REC = None


def _tracked(rec, self, obj_kind):
    """Is `self` (a fitter / helper / basis) state reachable from a shared fitter object?  Fitters by
    identity; helpers and bases by the fitter whose method is executing in this thread (they are only
    ever touched from methods of their owner).  Objects under construction are thread-private."""
    if not rec.active:
        return False
    if obj_kind.startswith('fit'):
        return id(self) in rec.targets
    return rec.owner_is_target() and not rec.constructing()


# reads of the lazily initialised fitter attributes, by source site (file, line): coverage of the static scan
# CONFIGURATION attributes of a fitter: set by the constructor / the user, assumed constant during calls by the
# models.  A store during a call is reported as an unmodelled shared write; with `track_config` every load and
# store of them is also a yield point of the scheduler (dedicated family, no model comparison).
CONFIG_ATTRS = {'_dtype': 'cfg_dtype', '_check_finite': 'cfg_finite', '_banded_solver': 'cfg_solver',
                '_pentapy_solver': 'cfg_penta', '_sort_order': 'cfg_sort', '_inverted_order': 'cfg_inv'}
LAZY_ATTRS = {'x', 'z', '_size', '_shape', 'x_domain', 'z_domain', '_validated_x', '_validated_z'}
COVER = set()


def _mk_get(orig, cells, obj_kind):
    is_fit = obj_kind.startswith('fit')

    def __getattribute__(self, name):
        rec = _REC
        if rec is not None:
            if is_fit and name in LAZY_ATTRS and id(self) in rec.targets:
                fr = sys._getframe(1)
                COVER.add((fr.f_code.co_filename, fr.f_lineno, name))
            if name in cells and _tracked(rec, self, obj_kind):
                rec.access('R', obj_kind, cells[name])
            elif is_fit and rec.track_config and name in CONFIG_ATTRS and id(self) in rec.targets and rec.active:
                rec.access('R', 'cfg', CONFIG_ATTRS[name])
        return orig(self, name)
    return __getattribute__


def _mk_set(orig, cells, obj_kind, forward):
    def __setattr__(self, name, value):
        rec = _REC
        if rec is not None and (obj_kind.startswith('fit') or rec.owner_is_target()):
            if rec.constructing() and not obj_kind.startswith('fit'):
                pass
            elif name in cells:
                if _tracked(rec, self, obj_kind):
                    rec.access('W', obj_kind, cells[name])
            elif name not in forward and _tracked(rec, self, obj_kind):
                rec.unmodelled.append((obj_kind, name))
                if rec.track_config and name in CONFIG_ATTRS:
                    rec.access('W', 'cfg', CONFIG_ATTRS[name])
        return orig(self, name, value)
    return __setattr__


class Instrument:
    """Context manager patching the classes; `rec` is the Recorder.  `targets` are the shared fitter
    objects whose state (and whose helper / basis objects) is tracked."""

    def __init__(self, targets=()):
        self.rec = Recorder()
        self.rec.targets = {id(t) for t in targets}
        self._keep = list(targets)
        self.saved = []

    def _save(self, cls, name):
        self.saved.append((cls, name, cls.__dict__.get(name)))

    def _patch(self, cls, cells, obj_kind, forward=()):
        og, os_ = cls.__getattribute__, cls.__setattr__
        self._save(cls, '__getattribute__')
        self._save(cls, '__setattr__')
        cls.__getattribute__ = _mk_get(og, cells, obj_kind)
        cls.__setattr__ = _mk_set(os_, cells, obj_kind, set(forward))

    def _wrap_setup(self, cls, name):
        orig = cls.__dict__[name]
        self._save(cls, name)
        rec = self.rec

        @functools.wraps(orig)
        def wrapper(obj, *a, **k):
            st = rec.stack()
            st.append(obj)
            if id(obj) in rec.targets:
                rec.log(('M', 'setup', (name, a[1:], dict(k))))
            try:
                return orig(obj, *a, **k)
            finally:
                st.pop()
                if id(obj) in rec.targets:
                    rec.log(('E', 'setup', name))
        setattr(cls, name, wrapper)

    def _wrap_init(self, cls):
        orig = cls.__dict__['__init__']
        self._save(cls, '__init__')
        rec = self.rec

        @functools.wraps(orig)
        def wrapper(obj, *a, **k):
            t = threading.get_ident()
            rec.building[t] = rec.building.get(t, 0) + 1
            try:
                return orig(obj, *a, **k)
            finally:
                rec.building[t] -= 1
        cls.__init__ = wrapper

    def __enter__(self):
        global _REC
        from pybaselines import _algorithm_setup as A1
        from pybaselines.two_d import _algorithm_setup as A2
        from pybaselines import _spline_utils as S1
        from pybaselines.two_d import _spline_utils as S2
        self._patch(A1._Algorithm, FIT_CELLS_1D, 'fit', FIT_FORWARD_1D)
        self._patch(A2._Algorithm2D, FIT_CELLS_2D, 'fit2', FIT_FORWARD_2D)
        self._patch(A1._PolyHelper, HELPER_CELLS, 'helper')
        self._patch(A2._PolyHelper2D, dict(HELPER_CELLS, **HELPER2D_EXTRA), 'helper')
        self._patch(S1.SplineBasis, {}, 'basis')
        self._patch(S2.SplineBasis2D, {'_basis': 'lazyb'}, 'basis')
        for cls in (A1._PolyHelper, A2._PolyHelper2D, S1.SplineBasis, S2.SplineBasis2D):
            self._wrap_init(cls)
        for cls in (A1._Algorithm, A2._Algorithm2D):
            for name in ('_setup_polynomial', '_setup_spline'):
                self._wrap_setup(cls, name)
        self._wrap_calls()
        rec = self.rec
        self._pinv = np.linalg.pinv

        @functools.wraps(self._pinv)
        def pinv(*a, **k):
            if rec.owner_is_target() and not rec.constructing():
                rec.log(('P', 'pinv', None))
            return self._pinv(*a, **k)
        np.linalg.pinv = pinv
        _REC = self.rec
        return self

    def _wrap_calls(self):
        """Marker wrappers around every registered public method (so nested calls through
        `getattr(self, method)` are delimited and helper accesses can be attributed to their owner)."""
        from pybaselines import api
        from pybaselines.two_d import api as api2
        rec = self.rec
        seen = set()
        for top in (api.Baseline, api2.Baseline2D):
            for cls in top.__mro__:
                if cls in seen or cls is object:
                    continue
                seen.add(cls)
                for name, fn in list(cls.__dict__.items()):
                    if name.startswith('_') or not callable(fn) or not hasattr(fn, '__wrapped__'):
                        continue
                    fv = getattr(fn, '__code__', None)
                    if fv is None or 'func' not in fv.co_freevars:
                        continue
                    clo = dict(zip(fv.co_freevars, [c.cell_contents for c in fn.__closure__]))
                    uniq = bool(clo.get('require_unique_x', clo.get('require_unique_xz', False)))
                    self._save(cls, name)

                    def mk(fn=fn, name=name, uniq=uniq):
                        @functools.wraps(fn)
                        def wrapper(obj, *a, **k):
                            st = rec.stack()
                            st.append(obj)
                            tgt = id(obj) in rec.targets
                            if tgt:
                                data = a[0] if a else k.get('data')
                                rec.log(('M', 'call', (name, uniq, data is not None)))
                            try:
                                return fn(obj, *a, **k)
                            finally:
                                st.pop()
                                if tgt:
                                    rec.log(('E', 'call', name))
                        return wrapper
                    setattr(cls, name, mk())

    def __exit__(self, *exc):
        global _REC
        _REC = None
        np.linalg.pinv = self._pinv
        for cls, name, orig in reversed(self.saved):
            if orig is None:
                try:
                    delattr(cls, name)
                except AttributeError:
                    pass
            else:
                setattr(cls, name, orig)
        return False


# ------------------------------------------------------------------------------------------------
# deterministic scheduler

class Scheduler:
    """Runs `jobs` (callables) in real threads, one tracked access at a time, in the order given by
    `schedule` (list of thread indices; entries naming a finished thread are skipped, exactly as the
    model's finished threads stutter).  After the schedule is exhausted the remaining threads are run to
    completion in index order.  Never blocks for ever: every wait has a timeout that raises
    SchedulerBroken (the parked threads are daemons and are told to die)."""

    def __init__(self, rec, jobs, schedule, timeout=STEP_TIMEOUT):
        self.rec, self.jobs, self.schedule, self.timeout = rec, jobs, list(schedule), timeout
        n = len(jobs)
        self.go = [threading.Semaphore(0) for _ in range(n)]
        self.parked = threading.Semaphore(0)
        self.done = [False] * n
        self.results = [None] * n
        self.idx = {}
        self.steps = [0] * n
        self.dead = False
        self.executed = []          # the schedule actually executed (skips removed, tail appended)

    def yield_point(self):
        i = self.idx.get(threading.get_ident())
        if i is None:
            return                  # accesses from the controller thread (e.g. abstraction reads)
        self.parked.release()
        if not self.go[i].acquire(timeout=self.timeout * 4):
            raise _Kill()
        if self.dead:
            raise _Kill()

    def _body(self, i):
        self.idx[threading.get_ident()] = i
        try:
            # park once before doing anything, so that thread start-up code is also scheduled
            if not self.go[i].acquire(timeout=self.timeout * 4) or self.dead:
                return
            try:
                with warnings.catch_warnings():
                    warnings.simplefilter('ignore')
                    self.results[i] = ('ok', self.jobs[i]())
            except _Kill:
                self.results[i] = ('killed', None)
            except Exception as e:      # noqa: the exception IS the observable
                self.results[i] = ('exc', (type(e).__name__, str(e)[:200]))
        finally:
            self.done[i] = True
            self.parked.release()

    def _wait(self):
        if not self.parked.acquire(timeout=self.timeout):
            self.dead = True
            for g in self.go:
                g.release()
            raise SchedulerBroken('a scheduled step did not finish within the timeout')

    def run(self):
        n = len(self.jobs)
        ths = [threading.Thread(target=self._body, args=(i,), daemon=True) for i in range(n)]
        for t in ths:
            t.start()
        # initial step of each thread: run up to (not including) its first tracked access
        for i in range(n):
            self.go[i].release()
            self._wait()
        k = 0
        sched = self.schedule
        while True:
            if k < len(sched):
                tid = sched[k]
                k += 1
                if tid >= n or self.done[tid]:
                    continue
            else:
                rest = [i for i in range(n) if not self.done[i]]
                if not rest:
                    break
                tid = rest[0]
            self.executed.append(tid)
            self.steps[tid] += 1
            self.go[tid].release()
            self._wait()
        for t in ths:
            t.join(timeout=self.timeout)
        return self.results


def run_solo(fn, targets, track_config=False):
    """Runs fn() under instrumentation in the calling thread; returns (result, events, unmodelled)."""
    with Instrument(targets) as ins:
        ins.rec.track_config = track_config
        try:
            with warnings.catch_warnings():
                warnings.simplefilter('ignore')
                res = ('ok', fn())
        except Exception as e:      # noqa
            res = ('exc', (type(e).__name__, str(e)[:200]))
        ev = ins.rec.logs.get(threading.get_ident(), [])
        return res, ev, list(ins.rec.unmodelled)


def run_concurrent(targets, jobs, schedule, timeout=STEP_TIMEOUT, track_config=False):
    """Runs the jobs in real threads under the deterministic scheduler.
    Returns dict(results, logs (per thread index, accesses only), executed, unmodelled)."""
    with Instrument(targets) as ins:
        sch = Scheduler(ins.rec, jobs, schedule, timeout=timeout)
        ins.rec.track_config = track_config
        ins.rec.sched = sch
        try:
            results = sch.run()
        finally:
            ins.rec.sched = None
        logs = [[] for _ in jobs]
        full = [[] for _ in jobs]
        for ident, i in sch.idx.items():
            full[i] = list(ins.rec.logs.get(ident, []))
            logs[i] = [e for e in full[i] if e[0] in 'RW']
        return {'results': results, 'logs': logs, 'logs_full': full, 'executed': list(sch.executed),
                'unmodelled': list(ins.rec.unmodelled)}
